(** Shared correspondence definitions for the engine-level properties (C03, C19): the case type
    printed by the harness crates (vh-engine), decidable equalities, and [corr_b] — does the model
    ([Model.Engine]) reproduce, step by step, everything observed on the real engine?
    Definitions only. *)
From BV Require Export Base.Common Model.Engine.
Local Open Scope N_scope.

(* ---- abbreviations used by the harness printers (typed arguments => bare numerals parse) ---- *)
Definition K (e i s c : N) : key := mkKey e i s c.
Definition RO (k : key) (sd : side) (p q : Z) (kd : okind) (tf : tif) : oreq := mkOReq k (mkROpen sd p q kd tf).
Definition RC (k : key) (id : option N) : creq := mkCReq k id.
Definition Mt (oid : N) (t f : Z) : meta := mkMeta oid t f.
Definition Od (k : key) (sd : side) (p q : Z) (kd : okind) (tf : tif) (st : ostate) : order := mkOrder k sd p q kd tf st.
Definition L1 (t : Z) (b a : option (Z * Z)) : l1book := mkL1 t b a.
Definition MD (b : l1book) (l : option (Z * Z)) : mdata := mkMD b l.
Definition SO {R} (s : list R) (e : list (R * errk)) : sendout R := mkSendOut s e.

(* ---- case type ---------------------------------------------------------------------------- *)

(** what the ClosePositionsStrategy does this step: the library's default (strategy id, client
    order id = base + instrument index) or fixed lists *)
Inductive close_script := CloseDefault (strat base : N) | CloseScripted (cs : list creq) (os : list oreq).

(** strategy hooks (user code holding the Engine): OnDisconnectStrategy::on_disconnect, called by
    Engine::process on an account / market Reconnecting notice, and OnTradingDisabled::
    on_trading_disabled, called when a TradingStateUpdate turns trading from enabled to disabled *)
Inductive hook := HAccountReconnecting | HMarketReconnecting | HTradingDisabled.
Definition hook_fires (h : hook) (trading_before : bool) : bool :=
  match h with HTradingDisabled => trading_before | _ => true end.
Definition hook_state (h : hook) (s : state) : state :=
  match h with HTradingDisabled => set_trading s false | _ => s end.

Inductive op :=
| OpProcess (ev : event)              (* Engine::process *)
| OpGenerate                          (* Engine::generate_algo_orders() called directly *)
| OpAction (c : command)              (* Engine::action() called directly *)
| OpSetLink (e : N) (st : lstat)      (* environment: exchange e's link is replaced *)
| OpHook (h : hook) (c : command).    (* Engine::process of the event that triggers hook [h], whose user
                                         code actions [c] by calling the public trait method directly
                                         (CancelOrders::cancel_orders / ClosePositions::close_positions);
                                         the strategy script of such a step is empty; the value observed is
                                         what the hook's call returned (nothing if the hook did not fire) *)

Inductive result :=
| RAudit (a : audit) | RAlgo (a : algo_out) | RAction (a : action_out) | RNone | RPanic.

(** observation after a step: trading flag; what each link's receiver got during the step (by
    link index); orders (sorted by client order id), position and last price of every instrument;
    the value the call returned *)
Record obs := mkObs {
  ob_trading : bool;
  ob_deliv : list (list xreq);
  ob_insts : list (omap * option pos * mdata);
  ob_res : result }.

Record step := mkStep { st_op : op; st_g : gscript; st_close : close_script; st_obs : obs }.
Record case := mkCase { c_init : state; c_steps : list step }.

(* ---- decidable equalities ---------------------------------------------------------------- *)

Definition okind_eqb (a b : okind) : bool := match a, b with Market, Market | Limit, Limit => true | _, _ => false end.
Definition tif_eqb (a b : tif) : bool :=
  match a, b with
  | GTC x, GTC y => Bool.eqb x y
  | GTD, GTD | FOK, FOK | IOC, IOC => true
  | _, _ => false
  end.
Definition key_eqb (a b : key) : bool :=
  N.eqb (k_ex a) (k_ex b) && N.eqb (k_inst a) (k_inst b) && N.eqb (k_strat a) (k_strat b) && N.eqb (k_cid a) (k_cid b).
Definition ropen_eqb (a b : ropen) : bool :=
  side_eqb (ro_side a) (ro_side b) && Z.eqb (ro_price a) (ro_price b) && Z.eqb (ro_qty a) (ro_qty b) &&
  okind_eqb (ro_kind a) (ro_kind b) && tif_eqb (ro_tif a) (ro_tif b).
Definition oreq_eqb (a b : oreq) : bool := key_eqb (or_key a) (or_key b) && ropen_eqb (or_st a) (or_st b).
Definition creq_eqb (a b : creq) : bool := key_eqb (cr_key a) (cr_key b) && option_eqb N.eqb (cr_id a) (cr_id b).
Definition xreq_eqb (a b : xreq) : bool :=
  match a, b with
  | XCancel x, XCancel y => creq_eqb x y
  | XOpen x, XOpen y => oreq_eqb x y
  | _, _ => false
  end.
Definition meta_eqb (a b : meta) : bool :=
  N.eqb (m_oid a) (m_oid b) && Z.eqb (m_time a) (m_time b) && Z.eqb (m_filled a) (m_filled b).
Definition ostate_eqb (a b : ostate) : bool :=
  match a, b with
  | OIF, OIF => true
  | OOpen x, OOpen y => meta_eqb x y
  | CIF x, CIF y => option_eqb meta_eqb x y
  | _, _ => false
  end.
Definition order_eqb (a b : order) : bool :=
  key_eqb (o_key a) (o_key b) && side_eqb (o_side a) (o_side b) && Z.eqb (o_price a) (o_price b) &&
  Z.eqb (o_qty a) (o_qty b) && okind_eqb (o_kind a) (o_kind b) && tif_eqb (o_tif a) (o_tif b) &&
  ostate_eqb (o_st a) (o_st b).
Definition pos_eqb (a b : pos) : bool :=
  N.eqb (p_inst a) (p_inst b) && side_eqb (p_side a) (p_side b) && Z.eqb (p_qty a) (p_qty b).
Definition errk_eqb (a b : errk) : bool :=
  match a, b with KIndex, KIndex | KTerminated, KTerminated | KUnhealthy, KUnhealthy => true | _, _ => false end.
Definition omap_eqb : omap -> omap -> bool := list_eqb (pair_eqb N.eqb order_eqb).
Definition zz_eqb : Z * Z -> Z * Z -> bool := pair_eqb Z.eqb Z.eqb.
Definition l1_eqb (a b : l1book) : bool :=
  Z.eqb (l1_time a) (l1_time b) && option_eqb zz_eqb (l1_bid a) (l1_bid b) && option_eqb zz_eqb (l1_ask a) (l1_ask b).
Definition mdata_eqb (a b : mdata) : bool :=
  l1_eqb (md_l1 a) (md_l1 b) && option_eqb zz_eqb (md_last a) (md_last b).
Definition iobs_eqb (a b : omap * option pos * mdata) : bool :=
  omap_eqb (fst (fst a)) (fst (fst b)) && option_eqb pos_eqb (snd (fst a)) (snd (fst b)) &&
  mdata_eqb (snd a) (snd b).

(** multiset equality (used where the code iterates a hash map) *)
Definition count_b {A} (eqb : A -> A -> bool) (x : A) (l : list A) : nat := length (filter (eqb x) l).
Definition perm_eqb {A} (eqb : A -> A -> bool) (l1 l2 : list A) : bool :=
  Nat.eqb (length l1) (length l2) &&
  forallb (fun x => Nat.eqb (count_b eqb x l1) (count_b eqb x l2)) l1.
(** [p] = compare as multisets *)
Definition seq_eqb {A} (p : bool) (eqb : A -> A -> bool) : list A -> list A -> bool :=
  if p then perm_eqb eqb else list_eqb eqb.

Definition sendout_eqb {R} (p : bool) (eqb : R -> R -> bool) (a b : sendout R) : bool :=
  seq_eqb p eqb (so_sent a) (so_sent b) && seq_eqb p (pair_eqb eqb errk_eqb) (so_errs a) (so_errs b).
Definition algo_eqb (a b : algo_out) : bool :=
  sendout_eqb false creq_eqb (ao_cancels a) (ao_cancels b) && sendout_eqb false oreq_eqb (ao_opens a) (ao_opens b) &&
  list_eqb creq_eqb (ao_crefused a) (ao_crefused b) && list_eqb oreq_eqb (ao_orefused a) (ao_orefused b).
Definition action_eqb (p : bool) (a b : action_out) : bool :=
  match a, b with
  | AOCancel x, AOCancel y => sendout_eqb p creq_eqb x y
  | AOOpen x, AOOpen y => sendout_eqb p oreq_eqb x y
  | AOClose c o, AOClose c' o' => sendout_eqb p creq_eqb c c' && sendout_eqb p oreq_eqb o o'
  | _, _ => false
  end.
Definition output_eqb (p : bool) (a b : output) : bool :=
  match a, b with
  | OutCommanded x, OutCommanded y => action_eqb p x y
  | OutTradingDisabled, OutTradingDisabled => true
  | OutAccountDisconnect, OutAccountDisconnect => true
  | OutPositionExit i, OutPositionExit j => N.eqb i j
  | OutMarketDisconnect, OutMarketDisconnect => true
  | OutAlgo x, OutAlgo y => algo_eqb x y
  | _, _ => false
  end.
Definition audit_eqb (p : bool) (a b : audit) : bool :=
  list_eqb (output_eqb p) (au_outputs a) (au_outputs b) && seq_eqb p errk_eqb (au_errors a) (au_errors b).

(* ---- running the model on a case ------------------------------------------------------------ *)

Definition cs_of (c : close_script) : state -> ifilter -> list creq * list oreq :=
  match c with
  | CloseDefault strat base => default_close strat (fun i => base + i)
  | CloseScripted cs os => fun _ _ => (cs, os)
  end.

Definition clear_link (l : link) : link := match l with LOpen _ => LOpen [] | x => x end.
Definition link_of_stat (s : lstat) : link :=
  match s with SOpen => LOpen [] | SClosed => LClosed | SUnhealthy => LUnhealthy | _ => LMissing end.

Inductive mres := MAudit (a : audit) | MAlgo (a : algo_out) | MAction (a : action_out) | MNone.

Definition model_step (s : state) (st : step) : state * mres :=
  match st_op st with
  | OpProcess ev => let '(s', a) := process (cs_of (st_close st)) s ev (st_g st) in (s', MAudit a)
  | OpGenerate => let '(s', a) := generate s (st_g st) in (s', MAlgo a)
  | OpAction c => let '(s', a) := action (cs_of (st_close st)) s c in (s', MAction a)
  | OpSetLink e stt => (mkState (trading s) (updN (links s) e (fun _ => link_of_stat stt)) (insts s), MNone)
  | OpHook h c =>
      if hook_fires h (trading s) then
        let '(s', a) := action (cs_of (st_close st)) (hook_state h s) c in (s', MAction a)
      else (s, MNone)
  end.

(** the code iterates a hash map only when it builds the requests of a CancelOrders command *)
Definition hash_ordered (o : op) : bool :=
  match o with
  | OpProcess (EvCommand (CCancelOrders _)) | OpAction (CCancelOrders _) | OpHook _ (CCancelOrders _) => true
  | _ => false
  end.

Definition res_eqb (p : bool) (m : mres) (r : result) : bool :=
  match m, r with
  | MAudit a, RAudit b => audit_eqb p a b
  | MAlgo a, RAlgo b => algo_eqb a b
  | MAction a, RAction b => action_eqb p a b
  | MNone, RNone => true
  | _, _ => false
  end.

Definition nat_seqN (n : nat) : list N := map N.of_nat (seq 0 n).

Definition obs_matches (p : bool) (s : state) (m : mres) (o : obs) : bool :=
  Bool.eqb (trading s) (ob_trading o) &&
  list_eqb (seq_eqb p xreq_eqb) (map (mbox (links s)) (nat_seqN (length (links s)))) (ob_deliv o) &&
  list_eqb iobs_eqb (map (fun i => (i_orders i, i_pos i, i_data i)) (insts s)) (ob_insts o) &&
  res_eqb p m (ob_res o).

Fixpoint corr_run (s : state) (steps : list step) : bool :=
  match steps with
  | [] => true
  | st :: rest =>
      let s0 := mkState (trading s) (map clear_link (links s)) (insts s) in
      let '(s1, m) := model_step s0 st in
      obs_matches (hash_ordered (st_op st)) s1 m (st_obs st) && corr_run s1 rest
  end.

Definition corr_b (c : case) : bool := corr_run (c_init c) (c_steps c).

(* ---- input requirements ------------------------------------------------------------------------
   every request / event names an existing instrument (the code panics otherwise: user error),
   (fill quantities may be anything, incl. zero: the model mirrors the code) *)

Definition cmd_insts (c : command) : list N :=
  match c with
  | CSendCancels l => map (fun r => k_inst (cr_key r)) l
  | CSendOpens l => map (fun r => k_inst (or_key r)) l
  | _ => []
  end.
Definition event_insts (ev : event) : list N :=
  match ev with
  | EvCommand c => cmd_insts c
  | EvOrderSnapshot o _ => [k_inst (o_key o)]
  | EvAccountSnapshot l => map (fun p => k_inst (o_key (fst p))) l
  | EvMarketL1 i _ _ => [i]
  | EvCancelResponse k _ => [k_inst k]
  | EvTrade i _ _ => [i]
  | EvMarketTrade i _ _ => [i]
  | _ => []
  end.
Definition step_insts (st : step) : list N :=
  match st_op st with OpProcess ev => event_insts ev | OpAction c => cmd_insts c | OpHook _ c => cmd_insts c | _ => [] end ++
  map (fun r => k_inst (cr_key r)) (gs_cancels (st_g st)) ++ map (fun r => k_inst (or_key r)) (gs_opens (st_g st)) ++
  match st_close st with
  | CloseScripted cs os => map (fun r => k_inst (cr_key r)) cs ++ map (fun r => k_inst (or_key r)) os
  | _ => []
  end.
Definition step_valid (n : N) (st : step) : bool :=
  forallb (fun i => N.ltb i n) (step_insts st) &&
  match st_op st with
  | OpProcess (EvTrade _ _ q) => true                (* any fill quantity, incl. zero: mirrored by the model *)
  | OpProcess (EvMarketL1 _ _ b) => l1_ok b          (* exact mid-price, non-zero total amount *)
  | OpHook _ _ =>                                    (* hook steps carry an empty strategy script *)
      match gs_cancels (st_g st), gs_opens (st_g st) with [], [] => true | _, _ => false end
  | _ => true
  end &&
  Nat.eqb (length (ob_insts (st_obs st))) (N.to_nat n).
Definition valid_case (c : case) : bool :=
  state_wf (c_init c) && forallb (fun i => l1_ok (md_l1 (i_data i))) (insts (c_init c)) &&
  forallb (step_valid (N.of_nat (length (insts (c_init c))))) (c_steps c).

(** Fills on degenerate positions are outside the input requirements of C03 / C19 (they belong to
    the position / PnL properties): a zero-quantity fill with no position open creates a Position
    whose quantity_abs_max is 0, and the next priced market event or fill then PANICS in
    approximate_remaining_exit_fees (0 / 0); fills against zero- or negative-size positions
    (written directly into the state by the harness for the close-positions scope) divide by zero
    likewise.  Detected by running the model; such cases are not judged. *)
Definition degenerate_fill (s : state) (o : op) : bool :=
  match o with
  | OpProcess (EvTrade i _ q) =>
      match nthN (insts s) i with
      | Some x => match i_pos x with
                  | None => Z.eqb q 0
                  | Some p => Z.leb (p_qty p) 0
                  end
      | None => false
      end
  | _ => false
  end.
Fixpoint degenerate_run (s : state) (steps : list step) : bool :=
  match steps with
  | [] => false
  | st :: rest =>
      let s0 := mkState (trading s) (map clear_link (links s)) (insts s) in
      degenerate_fill s0 (st_op st) || degenerate_run (fst (model_step s0 st)) rest
  end.
Definition degenerate_b (c : case) : bool := degenerate_run (c_init c) (c_steps c).
