(** C15 correspondence: case type, [corr_b] (the Gallina model of the engine's market / trade
    path reproduces every observed instrument state), [prop_b] (the OBSERVED unrealised PnL of
    every open position equals the documented estimate at the reference price determined by the
    history: the observed price() after the last market event that yielded one, or the price of a
    later fill) and [known_b] (the recorded known finding: position freshly opened by the last
    fill stores 0). *)
From Coq Require Import Qcanon.
From BV Require Export Base.Common Model.Position Model.MarketData Corr.PosObs.
Local Close Scope Qc_scope.
Local Open Scope Q_scope.

(* ---- observed values -------------------------------------------------------------------------- *)

(** market event kinds as the harness builds them: [OMTrade t p] PublicTrade at exchange time
    [t] whose f64 price converts (Decimal::from_f64) to [p] (None: NaN / infinite);
    [OML1 t lt bid ask] OrderBookL1 event at exchange time [t] with last_update_time [lt];
    [OMOther t] a Candle / Liquidation event *)
Inductive omevent :=
| OMTrade (t : Z) (price : option Q)
| OML1 (t : Z) (lt : Z) (bid ask : option (Q * Q))
| OMOther (t : Z).

(** [OMarket i rcv e]: market event for instrument [i] whose MarketEvent.time_received is [rcv]
    (varied independently of the exchange time by the harness: the market data and the mark
    must depend on exchange timestamps only, the model does not read [rcv]) *)
Inductive oevent := OMarket (i : N) (rcv : Z) (e : omevent) | OFill (f : ofill).

(** one instrument's state as read from EngineState.instruments: position.current, data.price(),
    data.l1, data.last_traded_price *)
Record oistate := mkOI {
  oi_pos : option opos; oi_price : option Q;
  oi_l1t : Z; oi_bid : option (Q * Q); oi_ask : option (Q * Q); oi_last : option (Z * Q) }.

(** one instrument of the engine as built by the harness, in index order: kind (0 spot,
    1 perpetual, 2 future, 3 option), contract size, whether the settlement asset is the quote
    asset, exchange index. Printed for the record: neither the code's position / PnL path nor the
    model reads any of it (the documented estimate is "price move on the open quantity minus
    pro-rata exit fees" at the instrument's price, irrespective of kind and contract size). *)
Record oinst := mkInst { in_kind : N; in_size : Q; in_settle_quote : bool; in_exch : N }.
Definition ninst (l : list oinst) : N := N.of_nat (length l).
Definition spots (n : nat) : list oinst := repeat (mkInst 0 1 true 0) n.

(** [CEngine insts evs obs final frame_ok]: an engine with the instruments [insts], all flat with
    default market data; [evs] processed one by one by Engine::process; [obs] = after each event
    the state of the instrument the event was routed to and the PositionExit output of the audit;
    [final] = all instrument states at the end; [fl] see [flags]. *)
(** [mkFlags frame_ok restores rt_ok]: [frame_ok] = after every event every other instrument's
    state was unchanged (Rust ==); [restores] = the event numbers BEFORE which every
    InstrumentState of the engine (position, market data, orders, tear sheet) was serialised to
    JSON and restored from it; [rt_ok] = every such round trip gave back a value equal (Rust ==)
    to the original. The model treats persist / restore as a no-op. *)
Record flags := mkFlags { f_frame : bool; f_restores : list N; f_rt_ok : bool }.
Definition okf : flags := mkFlags true [] true.

Inductive case :=
| CEngine (insts : list oinst) (evs : list oevent) (obs : list (oistate * option oexit))
          (final : list oistate) (fl : flags).

(* ---- conversion to the model -------------------------------------------------------------------- *)

Definition lvl_of (l : Q * Q) : Qc * Qc := (Q2Qc (fst l), Q2Qc (snd l)).
Definition mevent_of (e : omevent) : mevent :=
  match e with
  | OMTrade t p => MTrade t (option_map Q2Qc p)
  | OML1 t lt b a => ML1 t (mkL1 lt (option_map lvl_of b) (option_map lvl_of a))
  | OMOther t => MOther t
  end.
Definition eevent_of (e : oevent) : eevent :=
  match e with
  | OMarket i _ m => EMarket i (mevent_of m)
  | OFill f => EFill (fill_of f)
  end.
Definition oroute (e : oevent) : N := match e with OMarket i _ _ => i | OFill f => of_inst f end.

(* ---- tolerances ----------------------------------------------------------------------------------- *)

Definition fills_of (evs : list oevent) : list ofill :=
  flat_map (fun e => match e with OFill f => [f] | _ => [] end) evs.
Definition lvl_price (l : option (Q * Q)) : Q := match l with Some (p, _) => Qabs' p | None => 0 end.
Definition ev_price (e : oevent) : Q :=
  match e with
  | OMarket _ _ (OMTrade _ (Some p)) => Qabs' p
  | OMarket _ _ (OML1 _ _ b a) => Qmaxq (lvl_price b) (lvl_price a)
  | OFill f => Qabs' (of_price f)
  | _ => 0
  end.
(** the estimate multiplies an open quantity (at most the gross filled quantity) by a market
    price (at most the largest one seen): bound = gross quantity x largest price + notional *)
Definition tols15 (evs : list oevent) : tols :=
  let fs := fills_of evs in
  let t := tols_of fs in
  let pmax := fold_right (fun e a => Qmaxq (ev_price e) a) 0 evs in
  let gross := fold_right (fun f a => Qabs' (of_qty f) + a) 0 fs in
  mkTols (Qred (t_pnl t + gross * pmax * rel20)) (t_price t) (t_fee t).
(** micro-price: a quotient by the sum of the two top-of-book amounts (kept >= 1e-3 by the
    generator): relative 1e-18 of the largest price, plus 1e-18 *)
Definition tol_mid (evs : list oevent) : Q :=
  let pmax := fold_right (fun e a => Qmaxq (ev_price e) a) 0 evs in
  Qred ((pmax + 1) * tol18).

(* ---- corr_b ------------------------------------------------------------------------------------------ *)

Definition olvl_eqb (a : option (Qc * Qc)) (b : option (Q * Q)) : bool :=
  omatch (fun x y => exact (this (fst x)) (fst y) && exact (this (snd x)) (snd y)) a b.

Definition istate_matches (t : tols) (tm : Q) (s : istate) (o : oistate) : bool :=
  omatch (pos_matches t) (is_pos s) (oi_pos o) &&
  omatch (fun x y => near tm (this x) y) (md_price (is_md s)) (oi_price o) &&
  Z.eqb (l1_time (md_l1 (is_md s))) (oi_l1t o) &&
  olvl_eqb (l1_bid (md_l1 (is_md s))) (oi_bid o) && olvl_eqb (l1_ask (md_l1 (is_md s))) (oi_ask o) &&
  omatch (fun x y => Z.eqb (fst x) (fst y) && exact (this (snd x)) (snd y)) (md_last (is_md s)) (oi_last o).

Definition exit_of_step (s : estate) (e : eevent) : option exited :=
  match e with
  | EFill f => snd (is_fill (s (f_inst f)) f)
  | EMarket _ _ => None
  end.

Fixpoint corr_run (t : tols) (tm : Q) (s : estate) (evs : list oevent)
         (obs : list (oistate * option oexit)) : bool * estate :=
  match evs, obs with
  | [], [] => (true, s)
  | e :: evs', o :: obs' =>
      let me := eevent_of e in
      let s' := estep s me in
      if istate_matches t tm (s' (oroute e)) (fst o) &&
         omatch (exit_matches t) (exit_of_step s me) (snd o)
      then corr_run t tm s' evs' obs' else (false, s)
  | _, _ => (false, s)
  end.

Fixpoint final_matches (t : tols) (tm : Q) (s : estate) (i : N) (fin : list oistate) : bool :=
  match fin with
  | [] => true
  | o :: fin' => istate_matches t tm (s i) o && final_matches t tm s (N.succ i) fin'
  end.

Definition corr_b (c : case) : bool :=
  match c with
  | CEngine insts evs obs fin fl =>
      let n := ninst insts in
      let t := tols15 evs in
      let tm := tol_mid evs in
      let r := corr_run t tm (fun _ => is0) evs obs in
      fst r && N.eqb (N.of_nat (length fin)) n && final_matches t tm (snd r) 0 fin && (f_frame fl && f_rt_ok fl)
  end.

(* ---- prop_b: oracle on the observed states ---------------------------------------------------------- *)

(** INDEPENDENT reference price: computed from the delivered market events only, never from the
    state's own price(). Per instrument a top-of-book register = the delivered L1 updates with the
    greatest exchange timestamp (the default book counts as time 0 with no levels) and a
    last-trade register = the priced public trades with the greatest timestamp; with equal
    timestamps every tied delivery is an acceptable candidate (the code keeps the first, the
    property allows any). *)
Notation obook := (option (Q * Q) * option (Q * Q))%type.
Record mreg := mkMR { r_l1t : Z; r_l1s : list obook; r_tr : option (Z * list Q) }.
Definition mreg0 : mreg := mkMR 0 [(None, None)] None.

Definition mreg_step (r : mreg) (e : omevent) : mreg :=
  match e with
  | OML1 t _ b a =>
      if Z.ltb (r_l1t r) t then mkMR t [(b, a)] (r_tr r)
      else if Z.eqb (r_l1t r) t then mkMR t (r_l1s r ++ [(b, a)]) (r_tr r)
      else r
  | OMTrade t (Some p) =>
      match r_tr r with
      | None => mkMR (r_l1t r) (r_l1s r) (Some (t, [p]))
      | Some (t0, ps) =>
          if Z.ltb t0 t then mkMR (r_l1t r) (r_l1s r) (Some (t, [p]))
          else if Z.eqb t0 t then mkMR (r_l1t r) (r_l1s r) (Some (t, ps ++ [p]))
          else r
      end
  | _ => r
  end.

(** volume-weighted mid of a two-sided book (books::volume_weighted_mid_price) *)
Definition ovw_mid (b a : Q * Q) : Q := (fst b * snd a + fst a * snd b) / (snd b + snd a).

(** acceptable reference prices ([None] = "no price") *)
Definition ref_candidates (r : mreg) : list (option Q) :=
  flat_map (fun l =>
    match l with
    | (Some b, Some a) => [Some (Qred (ovw_mid b a))]
    | _ => match r_tr r with
           | Some (_, ps) => map Some ps
           | None => [None]
           end
    end) (r_l1s r).

(** per-instrument specification state: net signed filled quantity, acceptable reference prices,
    freshly opened flag, the documented inputs of the exit-fee estimate (largest quantity reached
    and entry fees of the open position) and the market registers *)
Record spec := mkSpec {
  sp_net : Q; sp_refs : list Q; sp_fresh : bool; sp_qmax : Q; sp_fin : Q; sp_reg : mreg }.
Definition spec0 : spec := mkSpec 0 [] false 0 0 mreg0.

Definition same_dir (n s : Q) : bool :=
  (Qle_bool 0 n && Qle_bool 0 s) || (Qle_bool n 0 && Qle_bool s 0).

Definition spec_fill (g : spec) (f : ofill) : spec :=
  let n := sp_net g in
  let s := osq f in
  let n' := Qred (n + s) in
  if exact n 0 then
    mkSpec n' [of_price f] true (of_qty f) (of_fee f) (sp_reg g)
  else if qcrosses_strictly n s then
    let rem := Qabs' n' in
    mkSpec n' [of_price f] true rem (Qred (of_fee f * (rem / of_qty f))) (sp_reg g)
  else if same_dir n s then
    (* same direction: increase *)
    mkSpec n' [of_price f] false (Qmaxq (sp_qmax g) (Qabs' n')) (Qred (sp_fin g + of_fee f)) (sp_reg g)
  else
    (* reduction or exact close *)
    mkSpec n' [of_price f] false (sp_qmax g) (sp_fin g) (sp_reg g).

Definition somes {A} (l : list (option A)) : list A :=
  flat_map (fun o => match o with Some a => [a] | None => [] end) l.
Definition has_none {A} (l : list (option A)) : bool :=
  existsb (fun o => match o with None => true | Some _ => false end) l.

(** after a market event: the acceptable references are the candidate prices; where "no price"
    is an acceptable candidate the previous references (and the freshly-opened status) remain
    acceptable too *)
Definition spec_market_cands (g : spec) (r : mreg) (cands : list (option Q)) : spec :=
  let keep := has_none cands in
  mkSpec (sp_net g) (somes cands ++ if keep then sp_refs g else [])
         (if keep then sp_fresh g else false) (sp_qmax g) (sp_fin g) r.

(** [indep = true]: candidates from the delivered events only. [indep = false] (a case with a
    top-of-book event whose last_update_time differs from its exchange time, outside the
    hypothesis of the independent specification): the observed price() is the reference. *)
Definition spec_market (indep : bool) (g : spec) (e : omevent) (observed_price : option Q) : spec :=
  let r := mreg_step (sp_reg g) e in
  spec_market_cands g r (if indep then ref_candidates r else [observed_price]).

(** the documented estimate on the observed side / average / quantity *)
Definition oestimate (p : opos) (g : spec) (r : Q) : Q :=
  let fees := (op_qty p / sp_qmax g) * sp_fin g in
  match op_side p with
  | Buy => op_qty p * r - op_qty p * op_avg p - fees
  | Sell => op_qty p * op_avg p - op_qty p * r - fees
  end.

(** verdict for one observed instrument state: 0 fine, 1 violates inside the known class,
    2 violates outside. Tolerance: t_pnl for the observed estimate itself plus
    |open quantity| x t_price for the observed average entry price that enters the recomputation
    (plus |open quantity| x [tr] when the reference is the observed price(), see [spec_market]) *)
Definition verdict (t : tols) (tr : Q) (g : spec) (o : oistate) : N :=
  match oi_pos o with
  | Some p =>
      let tol := t_pnl t + Qabs' (op_qty p) * (t_price t + tr) in
      if existsb (fun r => near tol (oestimate p g r) (op_pnl_u p)) (sp_refs g) then 0%N
      else if sp_fresh g && near (t_pnl t) 0 (op_pnl_u p) then 1%N
      else 2%N                  (* also: an open position always has a reference price *)
  | None => 0%N
  end.

Notation specs := (N -> spec).
Definition supd (s : specs) (i : N) (v : spec) : specs := fun j => if N.eqb j i then v else s j.

Fixpoint prop_run (indep : bool) (t : tols) (tr : Q) (s : specs) (evs : list oevent)
         (obs : list (oistate * option oexit)) : list N :=
  match evs, obs with
  | e :: evs', o :: obs' =>
      let i := oroute e in
      let g := match e with
               | OMarket _ _ m => spec_market indep (s i) m (oi_price (fst o))
               | OFill f => spec_fill (s i) f
               end in
      verdict t tr g (fst o) :: prop_run indep t tr (supd s i g) evs' obs'
  | [], [] => []
  | _, _ => [2%N]
  end.

Definition l1_times_wf (evs : list oevent) : bool :=
  forallb (fun e => match e with OMarket _ _ (OML1 t lt _ _) => Z.eqb t lt | _ => true end) evs.

Definition verdicts (c : case) : list N :=
  match c with
  | CEngine insts evs obs fin fl =>
      let indep := l1_times_wf evs in
      prop_run indep (tols15 evs) (if indep then 0 else tol_mid evs) (fun _ => spec0) evs obs
  end.

Definition rt_ok (c : case) : bool := match c with CEngine _ _ _ _ fl => f_rt_ok fl end.

(** every observed state is accepted and every persist / restore round trip was the identity *)
Definition prop_b (c : case) : bool := forallb (N.eqb 0) (verdicts c) && rt_ok c.

(** known finding class 1: every failing observation is a position freshly opened by the last
    fill (from flat or as the remainder of a flip), before any priced market event, whose stored
    unrealised PnL is 0 *)
Definition known_b (c : case) : N :=
  if forallb (fun v => N.eqb v 0 || N.eqb v 1) (verdicts c) && rt_ok c then 1%N else 0%N.

(** input requirement: fills with price > 0, quantity > 0, fee >= 0 on existing instruments;
    top-of-book events with non-negative amounts whose sum is not 0 (otherwise the micro-price
    divides by zero) *)
Definition wf_event (n : N) (e : oevent) : bool :=
  match e with
  | OFill f => N.ltb (of_inst f) n && negb (Qle_bool (of_qty f) 0) && negb (Qle_bool (of_price f) 0) &&
               Qle_bool 0 (of_fee f)
  | OMarket i _ (OML1 _ _ (Some b) (Some a)) =>
      N.ltb i n && Qle_bool 0 (snd b) && Qle_bool 0 (snd a) && negb (Qle_bool (snd b + snd a) 0)
  | OMarket i _ _ => N.ltb i n
  end.
Definition wf_case (c : case) : bool :=
  match c with CEngine insts evs _ _ _ => forallb (wf_event (ninst insts)) evs end.

(** a model/implementation disagreement is reported (code 1) even when the only oracle failures
    of the case lie in the known class, so that the known finding never hides a disagreement *)
Definition judge (c : case) : N :=
  if wf_case c then
    if negb (prop_b c) && negb (N.eqb (known_b c) 0) && negb (corr_b c) then 1%N
    else judge_code (corr_b c) (prop_b c) (known_b c)
  else 0%N.

(* ---- self-test: the oracle accepts what the model itself produces (outside the known class) ---- *)

Definition opos_of (p : position) : opos :=
  mkOP (p_inst p) (p_side p) (this (p_avg p)) (this (p_qty p)) (this (p_qmax p)) (this (p_pnl_u p))
       (this (p_pnl_r p)) (this (p_fin p)) (this (p_fout p)) (p_tenter p) (p_tupdate p) (p_trades p).
Definition oexit_of (x : exited) : oexit :=
  mkOX (x_inst x) (x_side x) (this (x_avg x)) (this (x_qmax x)) (this (x_pnl_r x)) (this (x_fin x))
       (this (x_fout x)) (x_tenter x) (x_texit x) (x_trades x).
Definition olvl_of (l : Qc * Qc) : Q * Q := (this (fst l), this (snd l)).
Definition oistate_of (s : istate) : oistate :=
  mkOI (option_map opos_of (is_pos s)) (option_map this (md_price (is_md s)))
       (l1_time (md_l1 (is_md s))) (option_map olvl_of (l1_bid (md_l1 (is_md s))))
       (option_map olvl_of (l1_ask (md_l1 (is_md s))))
       (option_map (fun x => (fst x, this (snd x))) (md_last (is_md s))).
Fixpoint model_obs (s : estate) (evs : list oevent) : list (oistate * option oexit) * estate :=
  match evs with
  | [] => ([], s)
  | e :: evs' =>
      let me := eevent_of e in
      let s' := estep s me in
      let r := model_obs s' evs' in
      ((oistate_of (s' (oroute e)), option_map oexit_of (exit_of_step s me)) :: fst r, snd r)
  end.
Definition model_case (c : case) : case :=
  match c with
  | CEngine insts evs _ _ _ =>
      let r := model_obs (fun _ => is0) evs in
      CEngine insts evs (fst r) (map (fun i => oistate_of (snd r (N.of_nat i))) (seq 0 (length insts))) okf
  end.
(** on model outputs every oracle failure lies in the known class (the model follows the code)
    and the model agrees with itself *)
Definition oracle_accepts_model (c : case) : bool :=
  negb (wf_case c) ||
  (forallb (fun v => N.eqb v 0 || N.eqb v 1) (verdicts (model_case c)) && corr_b (model_case c)).
