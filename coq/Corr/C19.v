(** C19 correspondence: [corr_b] (shared, Corr/EngineCase.v) and the property oracle [prop_b] for
    the two filter commands, evaluated on the OBSERVED behaviour of the real engine.

    For every step that is a CancelOrders command, or a ClosePositions command run with the
    library's default close strategy (issued through Engine::process or Engine::action), the oracle
    recomputes the scope from the state OBSERVED before the step — an independent three-line
    reading of the property, not the model's step functions — and requires:
      - the requests the engine reports (sent + failed) are, as a multiset, exactly one cancel per
        tracked not-cancel-in-flight order of the matching instruments (key + exchange order id iff
        Open), resp. one opposite-side equal-quantity market IOC order per matching instrument
        with a position and a price (and no cancels);
      - instruments outside the filter have the same orders, position and price afterwards;
        no position or price changes anywhere;
      - a cancel command identical to the one issued in the previous step requests nothing that
        the previous one had managed to send.
      - link consistency: a request is reported sent only over an open link and failed only with the
        error of its own link's condition; each link received exactly the sent requests naming it,
        once; every sent cancel's order is CancelInFlight, every sent close order OpenInFlight
        afterwards (delivery / marks only when no strategy generation can have run in the step).
    The order-sensitive delivery rules are C03's oracle. *)
From BV Require Export Corr.EngineCase.
Local Open Scope N_scope.

Definition in_scope (f : ifilter) (idx : N) (x : inst) : bool :=
  match f with
  | FNone => true
  | FExchanges l => existsb (N.eqb (i_ex x)) l
  | FInstruments l => existsb (N.eqb idx) l
  | FUnderlyings l => existsb (fun p => N.eqb (fst p) (i_base x) && N.eqb (snd p) (i_quote x)) l
  end.

Definition expected_cancels (f : ifilter) (is_ : list inst) : list creq :=
  flat_map (fun p =>
    if in_scope f (fst p) (snd p) then
      flat_map (fun co =>
        match o_st (snd co) with
        | OIF => [mkCReq (o_key (snd co)) None]
        | OOpen m => [mkCReq (o_key (snd co)) (Some (m_oid m))]
        | CIF _ => []
        end) (i_orders (snd p))
    else []) (indexed is_).

Definition opposite (s : side) : side := match s with Buy => Sell | Sell => Buy end.

Definition expected_closes (strat base : N) (f : ifilter) (is_ : list inst) : list oreq :=
  flat_map (fun p =>
    if in_scope f (fst p) (snd p) then
      match i_pos (snd p), i_price (snd p) with
      | Some ps, Some price =>
          [mkOReq (mkKey (i_ex (snd p)) (p_inst ps) strat (base + fst p))
                  (mkROpen (opposite (p_side ps)) price (p_qty ps) Market IOC)]
      | _, _ => []
      end
    else []) (indexed is_).

Definition reqs_of {R} (o : sendout R) : list R := so_sent o ++ map fst (so_errs o).

Definition filter_eqb (a b : ifilter) : bool :=
  match a, b with
  | FNone, FNone => true
  | FExchanges x, FExchanges y => list_eqb N.eqb x y
  | FInstruments x, FInstruments y => list_eqb N.eqb x y
  | FUnderlyings x, FUnderlyings y => list_eqb (pair_eqb N.eqb N.eqb) x y
  | _, _ => false
  end.

Definition obs_insts (static : list inst) (o : list (omap * option pos * mdata)) : list inst :=
  map (fun p => mkInst (i_ex (fst p)) (i_base (fst p)) (i_quote (fst p)) (fst (fst (snd p))) (snd (fst (snd p))) (snd (snd p)))
      (combine static o).

Definition inst_same (a b : inst) : bool :=
  omap_eqb (i_orders a) (i_orders b) && option_eqb pos_eqb (i_pos a) (i_pos b) &&
  mdata_eqb (i_data a) (i_data b).
Definition rest_same (a b : inst) : bool :=
  option_eqb pos_eqb (i_pos a) (i_pos b) && mdata_eqb (i_data a) (i_data b).

(** oracle's memory between steps: instruments as last observed, trading flag, and the previous
    step if it was a cancel command: its filter and the requests it managed to send *)
Record cview := mkCView {
  cv_insts : list inst; cv_trading : bool; cv_prev : option (ifilter * list creq);
  cv_links : list link }.   (* the link table as configured (initial links, OpSetLink changes), mailboxes empty *)

(** every request reported sent has an OPEN link; every request reported failed has a link that is
    not open, and carries the error class of ITS OWN link's condition (no transmitter / unknown
    index -> index error, closed channel -> terminated, unhealthy -> recoverable).  Together with
    the scope check (sent + failed = the scope) this says: every in-scope request whose link is
    healthy is sent, and nothing fails because of another request's link. *)
Definition consistent {R} (ex : R -> N) (L : list link) (o : sendout R) : bool :=
  forallb (fun r => link_open L (ex r)) (so_sent o) &&
  forallb (fun p => negb (link_open L (ex (fst p))) &&
                    errk_eqb (snd p) (err_of_stat (lstat_of L (ex (fst p))))) (so_errs o).
(** each link received exactly the sent requests naming it, each once (as a multiset: the cancel
    requests come out of a hash map) *)
Definition delivered_ok (L : list link) (deliv : list (list xreq)) (sent : list xreq) : bool :=
  Nat.eqb (length deliv) (length L) &&
  forallb (fun p => perm_eqb xreq_eqb (snd p) (to_ex (fst p) sent)) (indexed deliv).
(** every sent cancel's order is CancelInFlight afterwards (keeping its exchange data); every sent
    open is tracked OpenInFlight afterwards *)
Definition cancel_marks_ok (before after : list inst) (sent : list creq) : bool :=
  forallb (fun r =>
    match ord before (k_inst (cr_key r)) (k_cid (cr_key r)) with
    | Some o => option_eqb order_eqb (ord after (k_inst (cr_key r)) (k_cid (cr_key r)))
                                     (Some (with_st o (CIF (open_meta (o_st o)))))
    | None => false
    end) sent.
Definition open_marks_ok (after : list inst) (sent : list oreq) : bool :=
  forallb (fun r => option_eqb order_eqb (ord after (k_inst (or_key r)) (k_cid (or_key r)))
                                         (Some (order_of_req r))) sent.

Definition the_command (trading_before : bool) (st : step) : option command :=
  match st_op st with
  | OpProcess (EvCommand c) => Some c
  | OpAction c => Some c
  | OpHook h c => if hook_fires h trading_before then Some c else None   (* a strategy hook calling the trait method *)
  | _ => None
  end.
Definition the_report (st : step) : option action_out :=
  match ob_res (st_obs st) with
  | RAudit a => match au_outputs a with OutCommanded x :: _ => Some x | _ => None end
  | RAction x => Some x
  | _ => None
  end.
(** may generation have run in this step (then other instruments may legitimately change)? *)
Definition maybe_generation (v : cview) (st : step) : bool :=
  match st_op st with
  | OpProcess _ => cv_trading v && negb (match gs_cancels (st_g st), gs_opens (st_g st) with [], [] => true | _, _ => false end)
  | _ => false
  end.

Definition untouched_ok (f : ifilter) (before after : list inst) : bool :=
  Nat.eqb (length before) (length after) &&
  forallb (fun p => let '(idx, (b, a)) := p in
                    if in_scope f idx b then rest_same b a else inst_same b a)
          (indexed (combine before after)).

Definition oracle_step (v : cview) (st : step) : bool * cview :=
  let after := obs_insts (cv_insts v) (ob_insts (st_obs st)) in
  let L := cv_links v in
  let links' := match st_op st with OpSetLink e stt => updN L e (fun _ => link_of_stat stt) | _ => L end in
  let next prev := mkCView after (ob_trading (st_obs st)) prev links' in
  let deliv := ob_deliv (st_obs st) in
  match the_command (cv_trading v) st with
  | Some (CCancelOrders f) =>
      match the_report st with
      | Some (AOCancel out) =>
          let scope_ok := perm_eqb creq_eqb (reqs_of out) (expected_cancels f (cv_insts v)) in
          let frame_ok := maybe_generation v st || untouched_ok f (cv_insts v) after in
          let repeat_ok :=
            match cv_prev v with
            | Some (f0, sent0) =>
                if filter_eqb f0 f then
                  forallb (fun r => negb (existsb (creq_eqb r) sent0)) (reqs_of out)
                else true
            | None => true
            end in
          let links_ok :=
            consistent cr_ex L out &&
            (maybe_generation v st ||
             (delivered_ok L deliv (map XCancel (so_sent out)) && cancel_marks_ok (cv_insts v) after (so_sent out))) in
          (scope_ok && frame_ok && repeat_ok && links_ok,
           next (if maybe_generation v st then None else Some (f, so_sent out)))
      | _ => (false, next None)
      end
  | Some (CClosePositions f) =>
      match st_close st with
      | CloseDefault strat base =>
          match the_report st with
          | Some (AOClose co oo) =>
              let scope_ok :=
                match reqs_of co with [] => true | _ => false end &&
                perm_eqb oreq_eqb (reqs_of oo) (expected_closes strat base f (cv_insts v)) in
              let frame_ok := maybe_generation v st || untouched_ok f (cv_insts v) after in
              let links_ok :=
                consistent cr_ex L co && consistent or_ex L oo &&
                (maybe_generation v st ||
                 (delivered_ok L deliv (map XCancel (so_sent co) ++ map XOpen (so_sent oo)) &&
                  open_marks_ok after (so_sent oo))) in
              (scope_ok && frame_ok && links_ok, next None)
          | _ => (false, next None)
          end
      | CloseScripted _ _ => (true, next None)        (* a user strategy: not this property *)
      end
  | _ => (true, next None)
  end.

Fixpoint oracle_run (v : cview) (steps : list step) : bool :=
  match steps with
  | [] => true
  | st :: rest => let '(ok, v') := oracle_step v st in ok && oracle_run v' rest
  end.

Definition prop_b (c : case) : bool :=
  oracle_run (mkCView (insts (c_init c)) (trading (c_init c)) None (map clear_link (links (c_init c)))) (c_steps c).

Definition judge (c : case) : N :=
  if valid_case c && negb (degenerate_b c) then judge_code (corr_b c) (prop_b c) 0 else 0%N.
