(** C11 correspondence: case type, [corr_b] (the model run on the input reproduces everything
    observed on the implementation) and [prop_b] (the OBSERVED tables and lookup results satisfy
    the property, evaluated against the specification notions dense / unique / complete /
    resolve / inverse / aligned, not by calling the model's [build]). *)
From BV Require Export Base.Common Model.Index Model.ExecMap.

(** results of the find_xxx probes.  [p_as] / [p_in]: the position, in assets() / instruments(),
    of the entry whose value the returned reference points to. *)
Record probes := mkProbes {
  p_ex_idx : list (N * option N);          (* find_exchange_index e *)
  p_ex     : list (N * option N);          (* find_exchange k *)
  p_as_idx : list ((N * N) * option N);    (* find_asset_index e name_internal *)
  p_as     : list (N * option N);          (* find_asset k *)
  p_in_idx : list ((N * N) * option N);    (* find_instrument_index e name_internal *)
  p_in     : list (N * option N) }.        (* find_instrument k *)

(** tables derived from the collection, each listed in positional order *)
Record tables := mkTables {
  t_istates : list (N * (N * instr N N));  (* EngineState.instruments.0 : key, (state.key, state.instrument) *)
  t_astates : list ((N * N) * asset);      (* EngineState.assets.0 : (exchange, name_internal), state.asset *)
  t_conn    : list N;                      (* EngineState.connectivity.exchanges keys *)
  t_added   : list N;                      (* exchanges given an execution link *)
  t_tx      : list (N * bool);             (* ExecutionBuild.execution_tx_map : (exchange, is_some) *)
  t_txfind  : list (N * bool) }.           (* ExecutionTxMap::find(ExchangeIndex(i)).is_ok() *)

(** lookups observed on generate_execution_instrument_map(collection, e): the execution-link
    table of exchange [e] *)
Record xmap_obs := mkXMap {
  xm_as_name : list (N * option N);   (* find_asset_name_exchange k, every global asset index *)
  xm_as_ix   : list (N * option N);   (* find_asset_index name, every exchange name of the case *)
  xm_in_name : list (N * option N);   (* find_instrument_name_exchange k, every global index *)
  xm_in_ix   : list (N * option N) }. (* find_instrument_index name *)

Inductive case :=
| CIdx (defs : list def) (built : option indexed) (base : option indexed)
       (pr : probes) (tb : option tables)
    (* built = IndexedInstruments::new(defs) (None = panic); base = the same on the definitions
       stably sorted by key; probes and tables observed on [built] *)
| CPerm (defs : list def) (tried : N) (distinct : list (list N * option indexed))
| CXMap (defs : list def) (built : option indexed) (maps : list (N * option xmap_obs)).
    (* per exchange of the case universe: None = no map (exchange not indexed) *)
    (* [tried] insertion orders of [defs] were built; [distinct] lists every distinct result
       together with the first order (as positions into [defs]) that produced it *)

(* ---- equalities ------------------------------------------------------------------------- *)
Definition NN_eqb : N * N -> N * N -> bool := pair_eqb N.eqb N.eqb.
Definition xinstr_eqb : instr (N * N) N -> instr (N * N) N -> bool := instr_eqb NN_eqb N.eqb.
Definition indexed_eqb (a b : indexed) : bool :=
  list_eqb NN_eqb (x_exchanges a) (x_exchanges b) &&
  list_eqb (pair_eqb N.eqb akey_eqb) (x_assets a) (x_assets b) &&
  list_eqb (pair_eqb N.eqb xinstr_eqb) (x_instruments a) (x_instruments b).
Definition oN_eqb := option_eqb N.eqb.

Fixpoint find_pos {V} (k : N) (l : list (N * V)) (n : N) : option N :=
  match l with
  | [] => None
  | kv :: t => if N.eqb (fst kv) k then Some n else find_pos k t (N.succ n)
  end.

Definition nthN {A} (l : list A) (n : N) : option A := nth_error l (N.to_nat n).

(* ---- corr ------------------------------------------------------------------------------- *)
Definition probes_corr (x : indexed) (p : probes) : bool :=
  forallb (fun q => oN_eqb (find_exchange_index (x_exchanges x) (fst q)) (snd q)) (p_ex_idx p) &&
  forallb (fun q => oN_eqb (find_exchange (x_exchanges x) (fst q)) (snd q)) (p_ex p) &&
  forallb (fun q => oN_eqb (find_asset_index (x_assets x) (fst (fst q)) (snd (fst q))) (snd q)) (p_as_idx p) &&
  forallb (fun q => oN_eqb (find_pos (fst q) (x_assets x) 0) (snd q) &&
                    negb (xorb (match find_asset (x_assets x) (fst q) with Some _ => true | None => false end)
                               (match snd q with Some _ => true | None => false end))) (p_as p) &&
  forallb (fun q => oN_eqb (find_instrument_index (x_instruments x) (fst (fst q)) (snd (fst q))) (snd q)) (p_in_idx p) &&
  forallb (fun q => oN_eqb (find_pos (fst q) (x_instruments x) 0) (snd q) &&
                    negb (xorb (match find_instrument (x_instruments x) (fst q) with Some _ => true | None => false end)
                               (match snd q with Some _ => true | None => false end))) (p_in p).

Definition tx_find (m : list (N * bool)) (i : N) : bool :=
  match nthN m i with Some (_, true) => true | _ => false end.

Definition tables_corr (x : indexed) (t : tables) : bool :=
  list_eqb (pair_eqb N.eqb (pair_eqb N.eqb (instr_eqb N.eqb N.eqb))) (instrument_states x) (t_istates t) &&
  list_eqb (pair_eqb NN_eqb asset_eqb) (asset_states x) (t_astates t) &&
  list_eqb N.eqb (map fst (connectivity_states x)) (t_conn t) &&
  list_eqb (pair_eqb N.eqb Bool.eqb) (tx_map x (t_added t)) (t_tx t) &&
  forallb (fun q => Bool.eqb (tx_find (tx_map x (t_added t)) (fst q)) (snd q)) (t_txfind t).

Definition empty_probes (p : probes) : bool :=
  match p with mkProbes [] [] [] [] [] [] => true | _ => false end.

Definition apply_perm (perm : list N) (defs : list def) : list def :=
  flat_map (fun i => match nthN defs i with Some d => [d] | None => [] end) perm.

Definition canon (defs : list def) : list def := sort d_rank N.ltb defs.

Definition xmap_corr (m : emap) (o : xmap_obs) : bool :=
  forallb (fun q => oN_eqb (find_asset_name m (fst q)) (snd q)) (xm_as_name o) &&
  forallb (fun q => oN_eqb (find_asset_ix m (fst q)) (snd q)) (xm_as_ix o) &&
  forallb (fun q => oN_eqb (find_instrument_name m (fst q)) (snd q)) (xm_in_name o) &&
  forallb (fun q => oN_eqb (find_instrument_ix m (fst q)) (snd q)) (xm_in_ix o).

Definition corr_b (c : case) : bool :=
  match c with
  | CIdx defs built base pr tb =>
      option_eqb indexed_eqb (build defs) built &&
      option_eqb indexed_eqb (build (canon defs)) base &&
      match build defs with
      | Some x => probes_corr x pr && match tb with Some t => tables_corr x t | None => false end
      | None => empty_probes pr && match tb with None => true | Some _ => false end
      end
  | CPerm defs tried distinct =>
      forallb (fun pr => option_eqb indexed_eqb (build (apply_perm (fst pr) defs)) (snd pr)) distinct
  | CXMap defs built maps =>
      option_eqb indexed_eqb (build defs) built &&
      match build defs with
      | None => match maps with [] => true | _ => false end
      | Some x =>
          forallb (fun em : N * option xmap_obs =>
                     match gen_map x (fst em), snd em with
                     | None, None => true
                     | Some m, Some o => xmap_corr m o
                     | _, _ => false
                     end) maps
      end
  end.

(* ---- oracle ----------------------------------------------------------------------------- *)
Fixpoint dense_from {V} (n : N) (l : list (N * V)) : bool :=
  match l with [] => true | kv :: t => N.eqb (fst kv) n && dense_from (N.succ n) t end.
Fixpoint nodupb {A} (eqb : A -> A -> bool) (l : list A) : bool :=
  match l with [] => true | x :: t => negb (existsb (eqb x) t) && nodupb eqb t end.
Definition memb {A} (eqb : A -> A -> bool) (x : A) (l : list A) : bool := existsb (eqb x) l.
Definition countb {A} (p : A -> bool) (l : list A) : nat := length (filter p l).

(** the exchange-assets a definition refers to: base, quote, settlement asset of a
    perpetual / future / option, asset-denominated quantity unit *)
Definition ref_assets (d : def) : list akey :=
  let i := d_ins d in
  (i_ex i, i_base i) :: (i_ex i, i_quote i) ::
  (match i_kind i with KSpot => [] | KPerpetual s | KFuture s | KOption s => [(i_ex i, s)] end) ++
  (match i_spec i with Some (UAsset a) => [(i_ex i, a)] | _ => [] end).

Definition ninstr_eqb : instr N asset -> instr N asset -> bool := instr_eqb N.eqb asset_eqb.

Definition dense_unique_ok (defs : list def) (x : indexed) : bool :=
  dense_from 0 (x_exchanges x) && dense_from 0 (x_assets x) && dense_from 0 (x_instruments x) &&
  nodupb N.eqb (map snd (x_exchanges x)) && nodupb akey_eqb (map snd (x_assets x)) &&
  (* complete and nothing else *)
  forallb (fun d => memb N.eqb (i_ex (d_ins d)) (map snd (x_exchanges x))) defs &&
  forallb (fun e => existsb (fun d => N.eqb (i_ex (d_ins d)) e) defs) (map snd (x_exchanges x)) &&
  forallb (fun d => forallb (fun a => memb akey_eqb a (map snd (x_assets x))) (ref_assets d)) defs &&
  forallb (fun a => existsb (fun d => memb akey_eqb a (ref_assets d)) defs) (map snd (x_assets x)) &&
  (* one instrument per distinct definition *)
  Nat.eqb (length (x_instruments x)) (length (nodup N.eq_dec (map d_rank defs))) &&
  (* names and payload of every entry are those of some definition of its exchange *)
  forallb (fun kv : N * instr (N * N) N =>
             existsb (fun d => N.eqb (i_ex (d_ins d)) (snd (i_ex (snd kv))) &&
                               N.eqb (i_ni (d_ins d)) (i_ni (snd kv)) &&
                               N.eqb (i_ne (d_ins d)) (i_ne (snd kv)) &&
                               N.eqb (i_tail (d_ins d)) (i_tail (snd kv))) defs)
          (x_instruments x).

(** every definition is the dereference of exactly one entry, every entry dereferences to a
    definition *)
Definition refs_ok (defs : list def) (x : indexed) : bool :=
  forallb (fun d => Nat.eqb (countb (fun kv => option_eqb ninstr_eqb (resolve x (snd kv)) (Some (d_ins d)))
                                    (x_instruments x)) 1) defs &&
  forallb (fun kv : N * instr (N * N) N =>
             match resolve x (snd kv) with
             | Some i => existsb (fun d => ninstr_eqb (d_ins d) i) defs
             | None => false
             end) (x_instruments x).

Definition is_some {A} (o : option A) : bool := match o with Some _ => true | None => false end.

Definition ex_probes_ok (x : indexed) (p : probes) : bool :=
  forallb (fun q => match snd q with
                    | Some k => memb NN_eqb (k, fst q) (x_exchanges x) &&
                                (* inverse, where probed *)
                                forallb (fun q' => negb (N.eqb (fst q') k) || oN_eqb (snd q') (Some (fst q))) (p_ex p)
                    | None => negb (memb N.eqb (fst q) (map snd (x_exchanges x)))
                    end) (p_ex_idx p) &&
  forallb (fun q => match snd q with
                    | Some e => memb NN_eqb (fst q, e) (x_exchanges x) &&
                                forallb (fun q' => negb (N.eqb (fst q') e) || oN_eqb (snd q') (Some (fst q))) (p_ex_idx p)
                    | None => negb (memb N.eqb (fst q) (map fst (x_exchanges x)))
                    end) (p_ex p).

Definition as_probes_ok (x : indexed) (p : probes) : bool :=
  forallb (fun q => let e := fst (fst q) in let ni := snd (fst q) in
                    match snd q with
                    | Some k => existsb (fun kv : N * akey => N.eqb (fst kv) k && N.eqb (fst (snd kv)) e &&
                                                             N.eqb (fst (snd (snd kv))) ni) (x_assets x) &&
                                forallb (fun q' => negb (N.eqb (fst q') k) || is_some (snd q')) (p_as p)
                    | None => negb (existsb (fun kv : N * akey => N.eqb (fst (snd kv)) e &&
                                                                  N.eqb (fst (snd (snd kv))) ni) (x_assets x))
                    end) (p_as_idx p) &&
  forallb (fun q => match snd q with
                    | Some pos => match nthN (x_assets x) pos with
                                  | Some kv =>
                                      N.eqb (fst kv) (fst q) &&
                                      (* inverse: looking the entry up by its names gives this index *)
                                      forallb (fun q' => negb (NN_eqb (fst q') (fst (snd kv), fst (snd (snd kv)))) ||
                                                         oN_eqb (snd q') (Some (fst q))) (p_as_idx p)
                                  | None => false
                                  end
                    | None => negb (memb N.eqb (fst q) (map fst (x_assets x)))
                    end) (p_as p).

Definition in_probes_ok (x : indexed) (p : probes) : bool :=
  forallb (fun q => let e := fst (fst q) in let ni := snd (fst q) in
                    match snd q with
                    | Some k => existsb (fun kv : N * instr (N * N) N =>
                                           N.eqb (fst kv) k && N.eqb (snd (i_ex (snd kv))) e &&
                                           N.eqb (i_ni (snd kv)) ni) (x_instruments x) &&
                                forallb (fun q' => negb (N.eqb (fst q') k) || is_some (snd q')) (p_in p)
                    | None => negb (existsb (fun kv : N * instr (N * N) N =>
                                               N.eqb (snd (i_ex (snd kv))) e && N.eqb (i_ni (snd kv)) ni)
                                            (x_instruments x))
                    end) (p_in_idx p) &&
  forallb (fun q => match snd q with
                    | Some pos => match nthN (x_instruments x) pos with
                                  | Some kv =>
                                      N.eqb (fst kv) (fst q) &&
                                      forallb (fun q' => negb (NN_eqb (fst q') (snd (i_ex (snd kv)), i_ni (snd kv))) ||
                                                         oN_eqb (snd q') (Some (fst q))) (p_in_idx p)
                                  | None => false
                                  end
                    | None => negb (memb N.eqb (fst q) (map fst (x_instruments x)))
                    end) (p_in p).

Definition istates_ok (x : indexed) (t : tables) : bool :=
  list_eqb (pair_eqb N.eqb (pair_eqb N.eqb (instr_eqb N.eqb N.eqb)))
    (map (fun kv : N * instr (N * N) N =>
            (i_ni (snd kv), (fst kv, map_exchange_key (fst (i_ex (snd kv))) (snd kv))))
         (x_instruments x))
    (t_istates t).
Definition astates_ok (x : indexed) (t : tables) : bool :=
  list_eqb (pair_eqb NN_eqb asset_eqb)
    (map (fun kv : N * akey => ((fst (snd kv), fst (snd (snd kv))), snd (snd kv))) (x_assets x))
    (t_astates t).
Definition links_ok (x : indexed) (t : tables) : bool :=
  list_eqb N.eqb (map snd (x_exchanges x)) (t_conn t) &&
  list_eqb (pair_eqb N.eqb Bool.eqb)
    (map (fun kv : N * N => (snd kv, memb N.eqb (snd kv) (t_added t))) (x_exchanges x)) (t_tx t) &&
  forallb (fun q => Bool.eqb (snd q)
                      (match nthN (x_exchanges x) (fst q) with
                       | Some kv => memb N.eqb (snd kv) (t_added t)
                       | None => false
                       end)) (t_txfind t).

(** owner and exchange name of an index, read from the observed global tables: the (index, name)
    pairs owned by exchange [e] *)
Definition own_instruments (x : indexed) (e : N) : list (N * N) :=
  flat_map (fun kv : N * instr (N * N) N =>
              if N.eqb (snd (i_ex (snd kv))) e then [(fst kv, i_ne (snd kv))] else []) (x_instruments x).
Definition own_assets (x : indexed) (e : N) : list (N * N) :=
  flat_map (fun kv : N * akey =>
              if N.eqb (fst (snd kv)) e then [(fst kv, snd (snd (snd kv)))] else []) (x_assets x).
Definition name_of (own : list (N * N)) (k : N) : option N :=
  option_map snd (find (fun kn => N.eqb (fst kn) k) own).
Definition index_of (own : list (N * N)) (n : N) : option N :=
  option_map fst (find (fun kn => N.eqb (snd kn) n) own).

(** index -> name probes: a translated index is an own index and carries its own name; an own
    index translates when names are distinct; name -> index probes invert them *)
Definition names_ok (hyp : bool) (own : list (N * N)) (by_index by_name : list (N * option N)) : bool :=
  forallb (fun q => match snd q with
                    | Some n => oN_eqb (name_of own (fst q)) (Some n) &&
                                forallb (fun q' => negb (N.eqb (fst q') n) || oN_eqb (snd q') (Some (fst q))) by_name
                    | None => match name_of own (fst q) with
                              | Some _ => negb hyp      (* an own index must translate *)
                              | None => true            (* foreign / unknown: must not *)
                              end
                    end) by_index &&
  forallb (fun q => match snd q with
                    | Some k => oN_eqb (name_of own k) (Some (fst q)) &&
                                forallb (fun q' => negb (N.eqb (fst q') k) || oN_eqb (snd q') (Some (fst q))) by_index
                    | None => negb (memb N.eqb (fst q) (map snd own))
                    end) by_name.


(** the execution-link table of exchange [e] holds, at every global index owned by [e], exactly
    that entity's exchange name (when names are distinct within the exchange), nothing at any
    other index, and its name -> index lookup is the inverse *)
Definition xmap_ok (x : indexed) (e : N) (o : xmap_obs) : bool :=
  let hyp := names_distinct_b x e in
  names_ok hyp (own_assets x e) (xm_as_name o) (xm_as_ix o) &&
  names_ok hyp (own_instruments x e) (xm_in_name o) (xm_in_ix o).

(** [awf]: asset-name hypothesis holds; [iexwf] / [iwf]: instrument-name hypotheses hold *)
Definition prop_b (c : case) : bool :=
  match c with
  | CIdx defs built base pr tb =>
      let awf := assets_wf_b defs in
      let iexwf := inames_ex_wf_b defs in
      let iwf := inames_wf_b defs in
      match built, tb with
      | Some x, Some t =>
          dense_unique_ok defs x &&
          option_eqb indexed_eqb built base &&
          ex_probes_ok x pr && links_ok x t &&
          (if awf then refs_ok defs x && as_probes_ok x pr && astates_ok x t else true) &&
          (if iexwf then in_probes_ok x pr else true) &&
          (if iwf then istates_ok x t else true)
      | _, _ => false
      end
  | CPerm defs tried distinct =>
      match distinct with
      | [(_, Some _)] => negb (N.eqb tried 0)
      | _ => false
      end
  | CXMap defs built maps =>
      match built with
      | None => false
      | Some x =>
          forallb (fun em : N * option xmap_obs =>
                     match snd em with
                     | None => negb (memb N.eqb (fst em) (map snd (x_exchanges x)))
                     | Some o => memb N.eqb (fst em) (map snd (x_exchanges x)) && xmap_ok x (fst em) o
                     end) maps
      end
  end.

Definition defs_of (c : case) : list def :=
  match c with CIdx d _ _ _ _ => d | CPerm d _ _ => d | CXMap d _ _ => d end.

(** The abstract instrument key supplied by the harness must be faithful (equal key = equal
    definition), otherwise the case is reported as a disagreement.  Cases violating the
    asset-name / instrument-name hypotheses are still compared with the model in full and judged
    by the parts of the oracle that do not need the violated hypothesis. *)
Definition judge (c : case) : N :=
  if faithful_b (defs_of c) then judge_code (corr_b c) (prop_b c) 0 else 1%N.
