(** C14 correspondence: case type, [corr_b] (model = implementation on this case) and [prop_b]
    (the OBSERVED behaviour satisfies the property's executable oracle, which is written against
    the link specification — "a link is what the last event about it said, the global flag is
    Healthy iff all links are, on_disconnect once per notice" — not by calling the model's
    update functions). *)
From BV Require Export Base.Common Model.Connectivity.

(** what the audit returned by Engine::process carried *)
Inductive out_obs :=
| OutNone                       (* outputs = None *)
| OutMarket (id : N)            (* One(EngineOutput::MarketDisconnect(x)), x produced by on_disconnect(.., id) *)
| OutAccount (id : N)           (* One(EngineOutput::AccountDisconnect(x)) *)
| OutPositionExit               (* One(EngineOutput::PositionExit(_)): an account trade item closed a position *)
| OutPanic                      (* Engine::process panicked *)
| OutOther.                     (* anything else (several outputs, errors, another variant) *)

(** observation after one event: the whole connectivity table (IndexMap order), the audit
    output, and the exchanges on_disconnect was invoked with during this event (in order) *)
Record obs := mkObs {
  o_global : health;
  o_links : list (N * cstate);
  o_out : out_obs;
  o_calls : list N;
  o_rt : option (bool * (health * list (N * cstate))) }.
(** [o_rt]: Some (changed, (global, links)) when, after this event, the harness persisted the
    engine's ConnectivityStates with serde_json, restored it, and put the restored value back
    into the engine: [changed] = the restored value differed from the original, (global, links)
    = the table as read after the restore.  The history then continues on the restored state. *)

(** [c_ids]: IndexedInstruments::exchanges() in index order.  [c_start]: None = the engine as
    built (generate_empty_indexed_connectivity_states); Some (g, links) = connectivity fields
    overwritten with this table before the first event (exhaustive single-step table; may be a
    state no history reaches).  Events are fed one by one to Engine::process.
    [c_kinds]: for every event the kind of item the harness sent (0 = notice; 1.. = market item:
    public trade, L1 two-sided / bid only / ask only / empty, L2 snapshot / update / empty
    snapshot, candle, liquidation; 100.. = account item: empty and full account snapshot, balance
    snapshot, order snapshot in every order state incl. OpenFailed with every connectivity / API
    error, cancel response Ok and Err with every error class, trade buy / sell).  It is a tag
    only: the model's events, like the property, do not distinguish item kinds — ANY item from a
    link heals it — so both judgements ignore it. *)
Record case := mkCase {
  c_ids : list N;
  c_start : option (health * list cstate);
  c_events : list event;
  c_kinds : list N;
  c_obs : list obs }.

Definition cstate_eqb (a b : cstate) : bool :=
  health_eqb (market_data a) (market_data b) && health_eqb (account a) (account b).
Definition entries_eqb := list_eqb (pair_eqb N.eqb cstate_eqb).

Definition is_account_item (ev : event) : bool :=
  match ev with AccountItem _ => true | _ => false end.

(** the engine's other output for an account item (a position closed by a fill) says nothing
    about connectivity: it is accepted where the model, which abstracts from item payloads,
    produces no output *)
Definition out_matches (ev : event) (m : output) (o : out_obs) : bool :=
  match m, o with
  | ONone, OutPositionExit => is_account_item ev
  | ONone, OutNone => true
  | OMarketDisconnect a, OutMarket b => N.eqb a b
  | OAccountDisconnect a, OutAccount b => N.eqb a b
  | OPanic, OutPanic => true
  | _, _ => false
  end.

Definition start_engine (c : case) : engine :=
  match c_start c with
  | None => init_engine (c_ids c)
  | Some (g, ls) => mkEngine (mkConn g (combine (c_ids c) ls)) []
  end.

(** persist / restore is the identity: nothing changed, and the table read back is [g], [l] *)
Definition rt_matches (g : health) (l : list (N * cstate))
                      (r : option (bool * (health * list (N * cstate)))) : bool :=
  match r with
  | None => true
  | Some (changed, (g', l')) => negb changed && health_eqb g g' && entries_eqb l l'
  end.

Fixpoint corr_run (e : engine) (evs : list event) (os : list obs) : bool :=
  match evs, os with
  | [], [] => true
  | ev :: evs', o :: os' =>
      let e' := fst (process e ev) in
      health_eqb (global (econn e')) (o_global o) &&
      entries_eqb (exchanges (econn e')) (o_links o) &&
      out_matches ev (snd (process e ev)) (o_out o) &&
      list_eqb N.eqb (skipn (length (calls e)) (calls e')) (o_calls o) &&
      rt_matches (global (econn e')) (exchanges (econn e')) (o_rt o) &&
      corr_run e' evs' os'
  | _, _ => false
  end.

(** The property speaks about events that name a tracked exchange; a case is judged up to its
    first event that does not (from there on the engine has panicked, or swallowed an event for
    an exchange it does not know). *)
Fixpoint cut (ids : list N) (evs : list event) (os : list obs) : list event * list obs :=
  match evs, os with
  | ev :: evs', o :: os' =>
      if valid_event ids ev then let (a, b) := cut ids evs' os' in (ev :: a, o :: b) else ([], [])
  | [], _ :: _ => ([], os)        (* more observations than events: kept, so the run fails *)
  | _ :: _, [] => (evs, [])
  | [], [] => ([], [])
  end.

Definition nodup_b (l : list N) : bool :=
  (fix go (l : list N) : bool :=
     match l with [] => true | x :: t => negb (existsb (N.eqb x) t) && go t end) l.

Definition wf_case (c : case) : bool :=
  nodup_b (c_ids c) && negb (Nat.eqb (length (c_ids c)) 0) &&
  match c_start c with Some (_, ls) => Nat.eqb (length ls) (length (c_ids c)) | None => true end.

Definition corr_b (c : case) : bool :=
  let (evs, os) := cut (c_ids c) (c_events c) (c_obs c) in corr_run (start_engine c) evs os.

(* ---- oracle ----------------------------------------------------------------------------------- *)

(** the specification of one event on a table: set exactly the concerned link *)
Definition spec_set (i : N) (k : lkind) (h : health) (l : list (N * cstate)) : list (N * cstate) :=
  map (fun x => if N.eqb (fst x) i
                then (fst x, match k with
                             | KMarket => mkCS h (account (snd x))
                             | KAccount => mkCS (market_data (snd x)) h end)
                else x) l.

Definition table_all_healthy (l : list (N * cstate)) : bool :=
  forallb (fun x => is_healthy (market_data (snd x)) && is_healthy (account (snd x))) l.

Definition expected_out (i : N) (k : lkind) (item : bool) : out_obs :=
  if item then OutNone else match k with KMarket => OutMarket i | KAccount => OutAccount i end.

Definition out_obs_eqb (a b : out_obs) : bool :=
  match a, b with
  | OutNone, OutNone | OutPanic, OutPanic | OutOther, OutOther | OutPositionExit, OutPositionExit => true
  | OutMarket x, OutMarket y | OutAccount x, OutAccount y => N.eqb x y
  | _, _ => false
  end.

(** one observed transition [prev] --ev--> [o] *)
Definition obs_ok (ids : list N) (prev : list (N * cstate)) (ev : event) (o : obs) : bool :=
  match link_of ids ev with
  | None => true
  | Some (i, k, item) =>
      (* exactly that exchange's link changed, to the right value; everything else as before *)
      entries_eqb (spec_set i k (if item then Healthy else Reconnecting) prev) (o_links o) &&
      (* global healthy exactly when every link is *)
      Bool.eqb (is_healthy (o_global o)) (table_all_healthy (o_links o)) &&
      (* on_disconnect exactly once per notice, for that exchange; never for an item *)
      list_eqb N.eqb (if item then [] else [i]) (o_calls o) &&
      (out_obs_eqb (expected_out i k item) (o_out o) ||
       (* an account item that is a fill may also report the position it closed *)
       (item && is_account_item ev && out_obs_eqb OutPositionExit (o_out o)))
  end.

(** along a history, also compare every link with the last-event specification *)
Definition links_follow_spec (ids : list N) (hist : list event) (o : obs) : bool :=
  list_eqb N.eqb (map fst (o_links o)) ids &&
  forallb (fun x => health_eqb (market_data (snd x)) (spec_link ids hist (fst x) KMarket) &&
                    health_eqb (account (snd x)) (spec_link ids hist (fst x) KAccount)) (o_links o) &&
  health_eqb (o_global o) (spec_global ids hist).

Fixpoint prop_run (ids : list N) (from_init : bool) (hist : list event) (prev : list (N * cstate))
                  (evs : list event) (os : list obs) : bool :=
  match evs, os with
  | [], [] => true
  | ev :: evs', o :: os' =>
      let hist' := hist ++ [ev] in
      obs_ok ids prev ev o &&
      (if from_init then links_follow_spec ids hist' o else true) &&
      (* a persist / restore step between two events changes nothing *)
      rt_matches (o_global o) (o_links o) (o_rt o) &&
      prop_run ids from_init hist' (o_links o) evs' os'
  | _, _ => false
  end.

Definition prop_b (c : case) : bool :=
  let ids := c_ids c in
  let (evs, os) := cut ids (c_events c) (c_obs c) in
  match c_start c with
  | None => prop_run ids true [] (exchanges (init_conn ids)) evs os
  | Some (g, ls) =>
      let tbl := combine ids ls in
      (* a start table the property's histories cannot produce (flag and links disagree) is
         outside the property: only model agreement is judged there *)
      if Bool.eqb (is_healthy g) (table_all_healthy tbl) then prop_run ids false [] tbl evs os else true
  end.

(** which arms of the modelled functions a case exercises (for the evidence) *)
Fixpoint branches (e : engine) (evs : list event) : list N :=
  match evs with
  | [] => []
  | ev :: t => branch_of (econn e) ev :: branches (step e ev) t
  end.

Definition judge (c : case) : N :=
  if wf_case c then judge_code (corr_b c) (prop_b c) 0 else 0%N.
