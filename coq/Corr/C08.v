(** C08 correspondence: case type, [corr_b] (the model run on the input reproduces every
    observed output exactly — all arithmetic is exact, no tolerance) and [prop_b] (the OBSERVED
    outputs satisfy the property's executable oracle, written against the ledger specification
    [spec_accepts] / [spec_step] / [spec_need] / [spec_fees], never calling [open_order]). *)
From BV Require Export Base.Common Model.MockExchange.

(* ---- observations ------------------------------------------------------------------------------ *)

(** outcome of one direct call *)
Inductive dout :=
| DoNone                                   (* the op returns nothing (field write / time update) *)
| DoPanicNoBalance | DoPanicTotalFree | DoPanicOther
| DoDone (echo : request) (r : result) (n : option notif).

(** after every direct op: outcome, pub fields, [account_snapshot()] (balances sorted by asset,
    orders sorted by cid), [account.trades(MIN)], and a flag: exchange ids are the configured one
    and the snapshot's per-instrument grouping is consistent *)
Record dobs := mkDobs {
  do_out : dout; do_seq : N; do_now : Z; do_bals : list (N * bal);
  do_open : list order; do_canc : list order; do_trades : list trade; do_ok : bool }.

(** after every batch of concurrent client calls: the responses (with the echoed request for
    open-order calls), the account-stream events drained afterwards, then a follow-up
    account_snapshot and fetch_trades(MIN) issued at the time of the batch's last request
    ([None] when the exchange task is gone) *)
Record robs := mkRobs {
  ro_resps : list (option request * rresp); ro_events : list event;
  ro_snap : option (list (N * bal) * list order * list order);
  ro_trades : option (list trade); ro_ok : bool }.

Inductive case :=
| CDirect (cfg : config) (init : state) (ops : list dop) (obs : list dobs)
| CRun (cfg : config) (init : state) (batches : list (bool * list (rrequest * behaviour)))
       (obs : list robs).
    (* every batch says whether a receiver is subscribed to the account stream while it runs *)
    (* every request carries the client's behaviour towards its response; a response that is not
       awaited is recorded as [(None, POffline)] *)

(* ---- equality tests ------------------------------------------------------------------------------ *)

Definition side_eqb (a b : side) : bool :=
  match a, b with Buy, Buy | Sell, Sell => true | _, _ => false end.
Definition okind_eqb (a b : okind) : bool :=
  match a, b with Market, Market | Limit, Limit => true | _, _ => false end.
Definition bal_eqb (a b : bal) : bool :=
  Qc_eqb (b_total a) (b_total b) && Qc_eqb (b_free a) (b_free b) && Z.eqb (b_time a) (b_time b).
Definition bals_eqb := list_eqb (pair_eqb N.eqb bal_eqb).
Definition request_eqb (a b : request) : bool :=
  N.eqb (r_instr a) (r_instr b) && N.eqb (r_strategy a) (r_strategy b) && N.eqb (r_cid a) (r_cid b)
  && side_eqb (r_side a) (r_side b) && Qc_eqb (r_price a) (r_price b) && Qc_eqb (r_qty a) (r_qty b)
  && okind_eqb (r_kind a) (r_kind b) && N.eqb (r_tif a) (r_tif b).
Definition trade_eqb (a b : trade) : bool :=
  N.eqb (t_id a) (t_id b) && N.eqb (t_order a) (t_order b) && N.eqb (t_instr a) (t_instr b)
  && N.eqb (t_strategy a) (t_strategy b) && Z.eqb (t_time a) (t_time b)
  && side_eqb (t_side a) (t_side b) && Qc_eqb (t_price a) (t_price b) && Qc_eqb (t_qty a) (t_qty b)
  && Qc_eqb (t_fees a) (t_fees b).
Definition trades_eqb := list_eqb trade_eqb.
Definition order_eqb (a b : order) : bool :=
  N.eqb (o_cid a) (o_cid b) && N.eqb (o_instr a) (o_instr b) && N.eqb (o_strategy a) (o_strategy b)
  && side_eqb (o_side a) (o_side b) && Qc_eqb (o_price a) (o_price b) && Qc_eqb (o_qty a) (o_qty b)
  && okind_eqb (o_kind a) (o_kind b) && N.eqb (o_tif a) (o_tif b) && N.eqb (o_id a) (o_id b)
  && Z.eqb (o_time a) (o_time b) && Qc_eqb (o_filled a) (o_filled b).
Definition orders_eqb := list_eqb order_eqb.
Definition oerror_eqb (a b : oerror) : bool :=
  match a, b with
  | EKind, EKind | EOffline, EOffline => true
  | EInstr i, EInstr j => N.eqb i j
  | EFunds x, EFunds y => N.eqb x y
  | _, _ => false
  end.
Definition result_eqb (a b : result) : bool :=
  match a, b with
  | ROpen i t f, ROpen j u g => N.eqb i j && Z.eqb t u && Qc_eqb f g
  | RErr e, RErr e' => oerror_eqb e e'
  | _, _ => false
  end.
Definition notif_eqb (a b : notif) : bool :=
  N.eqb (n_asset a) (n_asset b) && bal_eqb (n_bal a) (n_bal b) && trade_eqb (n_trade a) (n_trade b).
Definition event_eqb (a b : event) : bool :=
  match a, b with
  | EvBalance x p, EvBalance y q => N.eqb x y && bal_eqb p q
  | EvTrade t, EvTrade u => trade_eqb t u
  | _, _ => false
  end.
Definition events_eqb := list_eqb event_eqb.
Definition rresp_eqb (a b : rresp) : bool :=
  match a, b with
  | PSnapshot b1 o1 c1, PSnapshot b2 o2 c2 => bals_eqb b1 b2 && orders_eqb o1 o2 && orders_eqb c1 c2
  | PBalances b1, PBalances b2 => bals_eqb b1 b2
  | POrders o1, POrders o2 => orders_eqb o1 o2
  | PTrades t1, PTrades t2 => trades_eqb t1 t2
  | POpen r1, POpen r2 => result_eqb r1 r2
  | POffline, POffline => true
  | _, _ => false
  end.
Definition dout_eqb (a b : dout) : bool :=
  match a, b with
  | DoNone, DoNone | DoPanicNoBalance, DoPanicNoBalance | DoPanicTotalFree, DoPanicTotalFree => true
  | DoDone e1 r1 n1, DoDone e2 r2 n2 => request_eqb e1 e2 && result_eqb r1 r2 && option_eqb notif_eqb n1 n2
  | _, _ => false
  end.

(* ---- corr_b: the model reproduces the observations -------------------------------------------- *)

Definition model_dout (cfg : config) (st : state) (op : dop) : dout :=
  match op with
  | DOpen r =>
    match open_order cfg st r with
    | OPanicNoBalance => DoPanicNoBalance
    | OPanicTotalFree => DoPanicTotalFree
    | ODone _ res n => DoDone r res n
    end
  | _ => DoNone
  end.

Definition state_matches (st : state) (o : dobs) : bool :=
  N.eqb (s_seq st) (do_seq o) && Z.eqb (s_now st) (do_now o) && bals_eqb (s_bals st) (do_bals o)
  && orders_eqb (s_open st) (do_open o) && orders_eqb (s_canc st) (do_canc o)
  && trades_eqb (s_trades st) (do_trades o) && do_ok o.

Fixpoint corr_direct (cfg : config) (st : state) (ops : list dop) (os : list dobs) : bool :=
  match ops, os with
  | [], [] => true
  | op :: ops', o :: os' =>
    let st' := dstep cfg st op in
    dout_eqb (model_dout cfg st op) (do_out o) && state_matches st' o && corr_direct cfg st' ops' os'
  | _, _ => false
  end.

Definition echo_of (rq : rrequest) : option request :=
  match rq_kind rq with KOpen r => Some r | _ => None end.

Fixpoint last_time (rqs : list rrequest) (d : Z) : Z :=
  match rqs with [] => d | rq :: t => last_time t (rq_time rq) end.

Definition snap_matches (ost : option state)
  (snap : option (list (N * bal) * list order * list order)) (trs : option (list trade)) : bool :=
  match ost, snap, trs with
  | Some st, Some (b, oo, oc), Some ts =>
      bals_eqb (s_bals st) b && orders_eqb (s_open st) oo && orders_eqb (s_canc st) oc
      && trades_eqb (s_trades st) ts
  | None, None, None => true
  | _, _, _ => false
  end.

(** what the client sees of each response: the response (with the echo for open-order calls)
    when it waits for it, nothing — recorded as [(None, POffline)] — when it does not *)
Definition expected_resps (brqs : list (rrequest * bool)) (resps : list rresp)
  : list (option request * rresp) :=
  map (fun x : (rrequest * bool) * rresp =>
         if snd (fst x) then (echo_of (fst (fst x)), snd x) else (None, POffline))
      (combine brqs resps).
Definition aw_of (cfg : config) (sb : bool * list (rrequest * behaviour))
  : bool * list (rrequest * bool) :=
  (fst sb, map (fun rb => (fst rb, awaited cfg (snd rb))) (snd sb)).

Fixpoint corr_run (cfg : config) (ost : option state) (bs : list (bool * list (rrequest * bool)))
  (os : list robs) : bool :=
  match bs, os with
  | [], [] => true
  | (sub, brqs) :: bs', o :: os' =>
    let rqs := map fst brqs in
    let '(ost1, out) := run cfg ost rqs in
    (* the two follow-up queries only re-apply the time of the last request *)
    let ost2 := option_map (fun st => tick cfg st (last_time rqs 0%Z)) ost1 in
    list_eqb (pair_eqb (option_eqb request_eqb) rresp_eqb)
             (expected_resps brqs (map fst out)) (ro_resps o)
    && events_eqb (if sub then flat_map snd out else []) (ro_events o)
    && snap_matches ost2 (ro_snap o) (ro_trades o) && ro_ok o
    && corr_run cfg ost2 bs' os'
  | _, _ => false
  end.

Definition corr_b (c : case) : bool :=
  match c with
  | CDirect cfg init ops os => corr_direct cfg init ops os
  | CRun cfg init bs os => corr_run cfg (Some init) (map (aw_of cfg) bs) os
  end.

(* ---- the property's input requirement ---------------------------------------------------------- *)

Definition req_in_domain (r : request) : bool :=
  Qc_leb 0%Qc (r_price r) && Qc_leb 0%Qc (r_qty r).
Definition dop_in_domain (op : dop) : bool :=
  match op with DOpen r => req_in_domain r | _ => true end.

(** fee percentage, prices and quantities non-negative; the configured account is one the code
    does not panic on ([wf_state]) and lists each asset once (it is stored in a hash map) *)
Fixpoint nodup_keys (l : list N) : bool :=
  match l with
  | [] => true
  | k :: t => negb (existsb (N.eqb k) t) && nodup_keys t
  end.

(** while nobody is subscribed the oracle learns an order's id and fill time from its response
    only, so open-order responses are awaited in such batches *)
Definition batch_ok (sb : bool * list (rrequest * bool)) : bool :=
  fst sb || forallb (fun rb : rrequest * bool =>
                       snd rb || match rq_kind (fst rb) with KOpen _ => false | _ => true end)
                    (snd sb).

Definition in_domain (c : case) : bool :=
  match c with
  | CDirect cfg init ops _ =>
      wf_state cfg init && nodup_keys (map fst (s_bals init))
      && Qc_leb 0%Qc (c_fee cfg) && forallb dop_in_domain ops
  | CRun cfg init bs _ =>
      wf_state cfg init && nodup_keys (map fst (s_bals init))
      && Qc_leb 0%Qc (c_fee cfg)
      && forallb req_in_domain (opens_of (map fst (concat (map snd bs))))
      && forallb batch_ok (map (aw_of cfg) bs)
  end.

(* ---- prop_b: oracle on the observed behaviour -------------------------------------------------- *)

(** oracle state: the specification ledger, the order ids handed out so far, the fills announced
    so far (as observed), the asset list and whether the initial balances were all >= 0 *)
Record ostate := mkO {
  os_led : ledger; os_ids : list N; os_fills : list trade; os_keys : list N; os_nonneg : bool }.

Definition ostate_init (init : state) : ostate :=
  mkO (abs_ledger init) [] (s_trades init) (map fst (s_bals init)) (nonneg_state init).

Definition amount_is (led : ledger) (a : N) (b : bal) : bool :=
  match led a with Some x => Qc_eqb x (b_free b) && Qc_eqb x (b_total b) | None => false end.

(** the observed balances are exactly the ledger (and none is negative when none was at the start) *)
Definition ledger_is (o : ostate) (bals : list (N * bal)) : bool :=
  list_eqb N.eqb (os_keys o) (map fst bals)
  && forallb (fun kb => amount_is (os_led o) (fst kb) (snd kb)) bals
  && (negb (os_nonneg o)
      || forallb (fun kb => Qc_leb 0%Qc (b_free (snd kb)) && Qc_leb 0%Qc (b_total (snd kb))) bals).

(** the announced fill is this order's: fresh id used for order and trade, the order's
    instrument / strategy / side / price / quantity, fees = percentage x price x quantity *)
Definition fill_is (cfg : config) (req : request) (id : N) (t : trade) : bool :=
  N.eqb (t_id t) id && N.eqb (t_order t) id && N.eqb (t_instr t) (r_instr req)
  && N.eqb (t_strategy t) (r_strategy req) && side_eqb (t_side t) (r_side req)
  && Qc_eqb (t_price t) (r_price req) && Qc_eqb (t_qty t) (r_qty req)
  && Qc_eqb (t_fees t) (spec_fees (c_fee cfg) req).

(** one open-order request: [nb] / [nt] are the balance / trade notifications it caused *)
Definition oracle_open (cfg : config) (o : ostate) (req : request) (res : result)
  (nb : list (N * bal)) (nt : list trade) : option ostate :=
  let acc := spec_accepts cfg (os_led o) req in
  if negb (Bool.eqb acc (accepted res)) then None
  else if acc then
    match res, spec_spent cfg req, nb, nt with
    | ROpen id _ filled, Some a, [(a', b)], [t] =>
      let led' := spec_step cfg (os_led o) req in
      if negb (existsb (N.eqb id) (os_ids o)) && N.eqb a a' && amount_is led' a b
         && fill_is cfg req id t && Qc_eqb filled (r_qty req)
      then Some (mkO led' (id :: os_ids o) (os_fills o ++ [t]) (os_keys o) (os_nonneg o))
      else None
    | _, _, _, _ => None
    end
  else match nb, nt with [], [] => Some o | _, _ => None end.

Fixpoint prop_direct (cfg : config) (o : ostate) (ops : list dop) (os : list dobs) : bool :=
  match ops, os with
  | [], [] => true
  | op :: ops', ob :: os' =>
    match op, do_out ob with
    | DOpen req, DoDone _ res n =>
      match oracle_open cfg o req res
              (match n with Some x => [(n_asset x, n_bal x)] | None => [] end)
              (match n with Some x => [n_trade x] | None => [] end) with
      | Some o' => ledger_is o' (do_bals ob) && prop_direct cfg o' ops' os'
      | None => false
      end
    | DOpen _, _ => false
    | _, _ => ledger_is o (do_bals ob) && prop_direct cfg o ops' os'
    end
  | _, _ => false
  end.

(** an order whose response the client did not wait for: the oracle decides acceptance from the
    ledger specification alone and takes the order id from the announced fill *)
Definition oracle_open_blind (cfg : config) (o : ostate) (req : request)
  (nb : list (N * bal)) (nt : list trade) : option ostate :=
  oracle_open cfg o req
    (if spec_accepts cfg (os_led o) req
     then match nt with [t] => ROpen (t_id t) 0%Z (r_qty req) | _ => RErr EKind end
     else RErr EKind) nb nt.

(** an order placed while nobody listens to the account stream: what would have been announced
    is reconstructed from the response (id, exchange time) and the ledger specification, and
    checked like a real announcement — the ledger, the ids and the stored fills must not depend
    on subscribers *)
Definition synth_notifs (cfg : config) (o : ostate) (req : request) (res : result)
  : list (N * bal) * list trade :=
  match res, spec_spent cfg req with
  | ROpen id t _, Some a =>
    match spec_step cfg (os_led o) req a with
    | Some x =>
      ([(a, mkBal x x t)],
       [mkTrade id id (r_instr req) (r_strategy req) t (r_side req) (r_price req) (r_qty req)
                (spec_fees (c_fee cfg) req)])
    | None => ([], [])
    end
  | _, _ => ([], [])
  end.
Definition oracle_open_nosub (cfg : config) (o : ostate) (req : request) (res : result)
  : option ostate :=
  oracle_open cfg o req res (fst (synth_notifs cfg o req res)) (snd (synth_notifs cfg o req res)).

(** the requests of one batch against their responses; an accepted order owns the next two
    events of the account stream (one balance, one trade, in any order), a rejected one none —
    whether or not the client waited for the response *)
Fixpoint prop_batch (cfg : config) (sub : bool) (o : ostate) (brqs : list (rrequest * bool))
  (rs : list (option request * rresp)) (es : list event) : option (ostate * list event) :=
  match brqs, rs with
  | [], [] => Some (o, es)
  | (rq, aw) :: rqs', (_, resp) :: rs' =>
    if aw then
      match rq_kind rq, resp with
      | KOpen req, POpen res =>
        if sub then
          let k := if accepted res then 2%nat else 0%nat in
          match oracle_open cfg o req res (ev_bals (firstn k es)) (ev_trades (firstn k es)) with
          | Some o' => prop_batch cfg sub o' rqs' rs' (skipn k es)
          | None => None
          end
        else
          match oracle_open_nosub cfg o req res with
          | Some o' => prop_batch cfg sub o' rqs' rs' es
          | None => None
          end
      | KOpen _, _ => None
      | KSnapshot, PSnapshot bals _ _ | KBalances, PBalances bals =>
        if ledger_is o bals then prop_batch cfg sub o rqs' rs' es else None
      | KTrades since, PTrades ts =>
        if trades_eqb (filter (fun t => Z.leb since (t_time t)) (os_fills o)) ts
        then prop_batch cfg sub o rqs' rs' es else None
      | KOrdersOpen, POrders _ | KCancel, _ => prop_batch cfg sub o rqs' rs' es
      | _, _ => None
      end
    else
      match rq_kind rq with
      | KOpen req =>
        if sub then
          let k := if spec_accepts cfg (os_led o) req then 2%nat else 0%nat in
          match oracle_open_blind cfg o req (ev_bals (firstn k es)) (ev_trades (firstn k es)) with
          | Some o' => prop_batch cfg sub o' rqs' rs' (skipn k es)
          | None => None
          end
        else None     (* outside the input requirement: [batch_ok] *)
      | _ => prop_batch cfg sub o rqs' rs' es
      end
  | _, _ => None
  end.

Fixpoint prop_run (cfg : config) (o : ostate) (bs : list (bool * list (rrequest * bool)))
  (os : list robs) : bool :=
  match bs, os with
  | [], [] => true
  | (sub, rqs) :: bs', ob :: os' =>
    match prop_batch cfg sub o rqs (ro_resps ob) (ro_events ob) with
    | Some (o', []) =>
      match ro_snap ob, ro_trades ob with
      | Some (bals, _, _), Some ts =>
          ledger_is o' bals && trades_eqb (os_fills o') ts && prop_run cfg o' bs' os'
      | _, _ => false
      end
    | _ => false      (* oracle failed, or a notification nobody ordered *)
    end
  | _, _ => false
  end.

Definition prop_b (c : case) : bool :=
  match c with
  | CDirect cfg init ops os => prop_direct cfg (ostate_init init) ops os
  | CRun cfg init bs os => prop_run cfg (ostate_init init) (map (aw_of cfg) bs) os
  end.

Definition known_b (c : case) : N := 0%N.

(** cases outside the input requirement (negative price / quantity / fee, accounts the code
    panics on) are only compared with the model *)
Definition judge (c : case) : N :=
  if in_domain c then judge_code (corr_b c) (prop_b c) (known_b c)
  else if corr_b c then 0%N else 1%N.
