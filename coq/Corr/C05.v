(** C05 correspondence: case type, [corr_b] (model = implementation on this case) and
    [prop_b] (the OBSERVED behaviour satisfies the property's executable oracle, evaluated
    against the map specification, not against the list model). *)
From BV Require Export Base.Common Model.Book.

Inductive vw_obs := OVwNone | OVwValue (q : Q) | OVwPanic.

Record obs := mkObs {
  o_seq : N; o_time : option Z;
  o_bids : list (Z * Z); o_asks : list (Z * Z);
  o_mid : option Q; o_vw : vw_obs;
  o_snap_bids : list (Z * Z); o_snap_asks : list (Z * Z) }.

Inductive case :=
| CBook (evs : list event) (depth : N) (observed : list obs)
    (* events applied one by one to OrderBook::default(); observation after each *)
| CSide (s : side) (init ups result : list (Z * Z))
    (* OrderBookSide::{bids,asks}(init) then .upsert(ups) ; result = levels() *)
| CManager (n : N) (mevs : list (option N * event)) (finals : list (N * option Z * list (Z * Z) * list (Z * Z)))
    (* OrderBookL2Manager::run over an OrderBookMapMulti of n default books keyed 0..n-1, fed a
       stream of items (Some key, event) and reconnecting notices (None); finals = (sequence,
       time, bids, asks) of every book afterwards, in key order *)
| CBookPanic (evs : list event) (depth : N)
| CSidePanic (s : side) (init ups : list (Z * Z)).
    (* the implementation panicked while applying the events / the depth-limited snapshot
       (the only panic the model knows, vw-mid with nothing to weigh by, is observed
       separately as [OVwPanic]) *)

Definition scale : Q := inject_Z (10 ^ 8).
Definition level_eqb := pair_eqb Z.eqb Z.eqb.
Definition levels_eqb := list_eqb level_eqb.

Definition vw_close (m : vw_result) (o : vw_obs) : bool :=
  match m, o with
  | VwNone, OVwNone => true
  | VwValue q, OVwValue r => Qclose tol18 (q / scale) r
  | VwDivZero, OVwPanic => true
  | _, _ => false
  end.

Definition obs_matches (d : nat) (b : book) (o : obs) : bool :=
  N.eqb (bseq b) (o_seq o) && option_eqb Z.eqb (btime b) (o_time o) &&
  levels_eqb (bids b) (o_bids o) && levels_eqb (asks b) (o_asks o) &&
  oQclose tol18 (option_map (fun q => q / scale) (mid_price b)) (o_mid o) &&
  vw_close (vw_mid_price b) (o_vw o) &&
  levels_eqb (bids (snapshot b d)) (o_snap_bids o) &&
  levels_eqb (asks (snapshot b d)) (o_snap_asks o).

Fixpoint corr_run (d : nat) (b : book) (evs : list event) (os : list obs) : bool :=
  match evs, os with
  | [], [] => true
  | e :: evs', o :: os' => let b' := update b e in obs_matches d b' o && corr_run d b' evs' os'
  | _, _ => false
  end.

Definition wf_case (c : case) : bool :=
  match c with
  | CBook evs _ _ => forallb wf_event evs
  | CSide _ init _ _ | CSidePanic _ init _ => nodup_prices init
  | CBookPanic evs _ => forallb wf_event evs
  | CManager _ mevs _ => forallb (fun me => wf_event (snd me)) mevs
  end.

Definition mgr_events (mevs : list (option N * event)) : list (option nat * event) :=
  map (fun me => (option_map N.to_nat (fst me), snd me)) mevs.

Definition book_matches (b : book) (f : N * option Z * list (Z * Z) * list (Z * Z)) : bool :=
  let '(sq, t, bs, as_) := f in
  N.eqb (bseq b) sq && option_eqb Z.eqb (btime b) t && levels_eqb (bids b) bs && levels_eqb (asks b) as_.

Fixpoint all2 {A B} (p : A -> B -> bool) (l1 : list A) (l2 : list B) : bool :=
  match l1, l2 with
  | [], [] => true
  | x :: t1, y :: t2 => p x y && all2 p t1 t2
  | _, _ => false
  end.

Definition corr_b (c : case) : bool :=
  match c with
  | CBook evs d os => corr_run (N.to_nat d) empty_book evs os
  | CSide s init ups res => levels_eqb (upsert s (sort_levels s init) ups) res
  | CBookPanic _ _ | CSidePanic _ _ _ => false
  | CManager n mevs finals =>
      all2 book_matches (fold_left mgr_step (mgr_events mevs) (repeat empty_book (N.to_nat n))) finals
  end.

(* ---- oracle --------------------------------------------------------------------------- *)

Definition ev_prices (e : event) : list Z :=
  match e with Snapshot _ _ bs as_ | Update _ _ bs as_ => map fst bs ++ map fst as_ end.

(** observed side [l] represents map [m]: strictly sorted, every listed level is in the map,
    every mentioned price of the map is listed *)
Definition side_is_map (s : side) (mentioned : list Z) (m : pmap) (l : list (Z * Z)) : bool :=
  strict_sorted s l &&
  forallb (fun x => option_eqb Z.eqb (m (fst x)) (Some (snd x))) l &&
  forallb (fun p => option_eqb Z.eqb (m p) (lookup l p)) mentioned.

Definition mid_of_obs (o : obs) : option Q :=
  match o_bids o, o_asks o with
  | (bp, _) :: _, (ap, _) :: _ => Some ((zq bp + zq ap) / 2 / scale)
  | (bp, _) :: _, [] => Some (zq bp / scale)
  | [], (ap, _) :: _ => Some (zq ap / scale)
  | [], [] => None
  end.

Definition vw_ok (o : obs) : bool :=
  match o_bids o, o_asks o, o_vw o with
  | (bp, ba) :: _, (ap, aa) :: _, OVwValue r =>
      negb (Z.eqb (ba + aa) 0) &&
      Qclose tol18 ((zq bp * zq aa + zq ap * zq ba) / zq (ba + aa) / scale) r
  | (bp, ba) :: _, (ap, aa) :: _, OVwPanic => Z.eqb (ba + aa) 0   (* nothing to weigh by *)
  | (bp, _) :: _, [], OVwValue r => Qclose tol18 (zq bp / scale) r
  | [], (ap, _) :: _, OVwValue r => Qclose tol18 (zq ap / scale) r
  | [], [], OVwNone => true
  | _, _, _ => false
  end.

Definition obs_ok (d : nat) (mentioned : list Z) (sb : sbook) (o : obs) : bool :=
  N.eqb (sseq sb) (o_seq o) && option_eqb Z.eqb (stime sb) (o_time o) &&
  side_is_map Bid mentioned (sbids sb) (o_bids o) &&
  side_is_map Ask mentioned (sasks sb) (o_asks o) &&
  oQclose tol18 (mid_of_obs o) (o_mid o) && vw_ok o &&
  levels_eqb (firstn d (o_bids o)) (o_snap_bids o) &&
  levels_eqb (firstn d (o_asks o)) (o_snap_asks o).

Fixpoint prop_run (d : nat) (mentioned : list Z) (sb : sbook) (evs : list event) (os : list obs) : bool :=
  match evs, os with
  | [], [] => true
  | e :: evs', o :: os' =>
      let sb' := spec_update sb e in obs_ok d mentioned sb' o && prop_run d mentioned sb' evs' os'
  | _, _ => false
  end.

Definition final_ok (evs : list (option nat * event)) (mentioned : list Z) (i : nat)
           (f : N * option Z * list (Z * Z) * list (Z * Z)) : bool :=
  let '(sq, t, bs, as_) := f in
  let sb := fold_left spec_update (route i evs) (abs_book empty_book) in
  N.eqb (sseq sb) sq && option_eqb Z.eqb (stime sb) t &&
  side_is_map Bid mentioned (sbids sb) bs && side_is_map Ask mentioned (sasks sb) as_.

Fixpoint mgr_ok (evs : list (option nat * event)) (mentioned : list Z) (i : nat)
         (finals : list (N * option Z * list (Z * Z) * list (Z * Z))) : bool :=
  match finals with
  | [] => true
  | f :: t => final_ok evs mentioned i f && mgr_ok evs mentioned (S i) t
  end.

Definition prop_b (c : case) : bool :=
  match c with
  | CBook evs d os =>
      prop_run (N.to_nat d) (flat_map ev_prices evs) (abs_book empty_book) evs os
  | CSide s init ups res =>
      side_is_map s (map fst init ++ map fst ups) (spec_upsert (lookup init) ups) res
  | CBookPanic _ _ | CSidePanic _ _ _ => false   (* a book that panicked holds no levels at all *)
  | CManager n mevs finals =>
      (* every book must represent the map obtained from ITS OWN events only *)
      Nat.eqb (length finals) (N.to_nat n) &&
      mgr_ok (mgr_events mevs) (flat_map (fun me => ev_prices (snd me)) mevs) 0 finals
  end.

(** cases outside the property's input requirement (a snapshot listing a price twice) are
    not judged *)
Definition judge (c : case) : N :=
  if wf_case c then judge_code (corr_b c) (prop_b c) 0 else 0%N.
