(** C10 correspondence: case type, [corr_b] (the model of Model/Replica.v, run on the case's
    input, reproduces every observation made on the implementation) and [prop_b] (the OBSERVED
    ticks and states satisfy the property's oracle, written against the statement: consecutive
    numbering after the snapshot, one tick per event carrying it, last tick terminal, replica equal
    to the engine on every component and on the orders modulo in-flight markers, gap => Err,
    repeat => skipped — without running the model's engine or replica step functions). *)
From BV Require Export Base.Common Model.Replica.

(* ---- short constructors used by the harness printer ------------------------------------------ *)
Definition K (i c : Z) : okey := (i, c).
Definition Rq (i c sf q : Z) : oreq := ((i, c), (sf, q)).
Definition Od (i c sf q : Z) (s : ostate) : okey * order := ((i, c), mkOrder sf q s).
Definition M := mkMeta.

Notation ev := (event unit).
Definition EA (ops : list order_op) : ev := EvAccount tt ops.
Definition EM : ev := EvMarket tt.

(** what the scripted strategy returns when asked at a tick: algo cancels / opens,
    close-positions cancels / opens *)
Record strat := mkStrat {
  st_ac : list okey; st_ao : list oreq; st_cc : list okey; st_co : list oreq }.
Definition S0 := mkStrat [] [] [] [].

Inductive mode := Manual | Sync | Async.
Inductive perturb := PNone | PDelete (i : N) | PDup (i : N) | PSwap (i : N) | PReplay (i : N)
  | PWindow (i n : N)    (* the [n] ticks from position [i] are replayed after the stream *)
  | PTriple (i : N).     (* tick [i] three times in a row *)

(** observed audit tick: sequence, Process (true) / FeedEnded, carried event == fed event,
    is_terminal(), errors non-empty, outputs *)
Record tobs := mkT {
  t_seq : N; t_proc : bool; t_same : bool; t_term : bool; t_errs : bool; t_outs : outs }.
(** observed engine after a tick: meta.sequence, trading enabled, orders *)
Record eobs := mkE { eo_seq : N; eo_trading : bool; eo_orders : omap }.
(** engine == replica on: trading, connectivity, assets (balances), positions, market data,
    tear sheets, whole state with the orders blanked *)
Record cmp := mkC { c_trading : bool; c_conn : bool; c_assets : bool; c_pos : bool;
                    c_data : bool; c_tear : bool; c_rest : bool }.
(** observed replica after being fed one tick: the fed tick's sequence and kind, run() = Ok,
    replica context sequence, trading, orders, state_replica unchanged, comparison *)
Record robs := mkR {
  ro_fseq : N; ro_fproc : bool; ro_ok : bool; ro_seq : N; ro_trading : bool;
  ro_orders : omap; ro_unchanged : bool; ro_cmp : option cmp }.

Inductive case :=
| mkCase (c_mode : mode) (c_sinit : N) (c_trading0 : bool) (c_bad : list Z) (c_hook : bool)
         (c_pre c_feed : list (ev * strat)) (c_perturb : perturb)
         (* observed *)
         (c_snap_seq : N) (c_snap_trading : bool) (c_snap_orders : omap) (c_snap_eq : bool)
         (c_ticks : list tobs) (c_eng : list (option eobs)) (c_rep : list robs) (c_whole : robs)
| CPanic
| CExcluded.   (* the engine panicked on an input outside the input requirements: a fill of
                  quantity zero (position.rs divides by the fill / position quantity) *)

(* ---- the model instantiated: [rest] and the item payload carry nothing ------------------------- *)
Definition u_z (r : unit) (x : Z) : unit := tt.
Definition u_p (r : unit) (p : unit) : unit := tt.
Notation m_process := (process unit unit u_z u_z u_p u_p).
Notation m_pwa := (process_with_audit unit unit u_z u_z u_p u_p).
Notation m_run_loop := (run_loop unit unit u_z u_z u_p u_p).
Notation m_run_manual := (run_manual unit unit u_z u_z u_p u_p).
Notation m_replica_step := (replica_step unit unit u_z u_z u_p u_p).
Notation m_replica_run := (replica_run unit unit u_z u_z u_p u_p).
Notation m_replica_update := (replica_update_from_event unit unit u_z u_z u_p u_p).
Notation m_hyps := (hyps unit unit u_z u_z u_p u_p).
Notation mtick := (N * audit unit)%type.

(** requests reach the execution link unless their instrument's exchange link is broken *)
Definition link_ok (bad : list Z) (k : okey) : bool := negb (existsb (Z.eqb (fst k)) bad).
Definition mk_sent (bad : list Z) (cs : list okey) (os : list oreq) : sent :=
  mkSent (filter (link_ok bad) cs) (filter (fun r => link_ok bad (fst r)) os)
         (existsb (fun k => negb (link_ok bad k)) cs ||
          existsb (fun r => negb (link_ok bad (fst r))) os).
Definition in_filter (f : ifilter) (i : Z) : bool :=
  match f with FAll => true | FInstruments l => existsb (Z.eqb i) l end.
(** Engine::cancel_orders: every order of a matching instrument that is not CancelInFlight *)
Definition cancel_reqs (om : omap) (f : ifilter) : list okey :=
  map fst (filter (fun p => in_filter f (fst (fst p)) && cancellable (snd p)) om).

Definition derive (bad : list Z) (hook : bool) (st : state unit) (e : ev) (s : strat) : script :=
  mkScript
    (match e with
     | EvCommand (CmdSendCancels ks) => mk_sent bad ks []
     | EvCommand (CmdSendOpens rs) => mk_sent bad [] rs
     | EvCommand (CmdClosePositions _) => mk_sent bad (st_cc s) (st_co s)
     | EvCommand (CmdCancelOrders f) => mk_sent bad (cancel_reqs (orders st) f) []
     | _ => no_sent
     end)
    (if hook then mk_sent bad (cancel_reqs (orders st) FAll) [] else no_sent)
    (mk_sent bad (st_ac s) (st_ao s)).

Fixpoint derive_feed (bad : list Z) (hook : bool) (st : state unit) (f : list (ev * strat))
  : list (ev * script) :=
  match f with
  | [] => []
  | (e, s) :: f' =>
      let sc := derive bad hook st e s in
      (e, sc) :: derive_feed bad hook (fst (m_process st e sc)) f'
  end.

Fixpoint m_trace (e : engine unit) (f : list (ev * script)) : list (engine unit) :=
  match f with
  | [] => []
  | (x, sc) :: f' => let e' := fst (m_pwa e x sc) in e' :: m_trace e' f'
  end.

(* ---- comparisons ----------------------------------------------------------------------------------- *)
Definition meta_eqb (a b : meta) : bool :=
  Z.eqb (m_oid a) (m_oid b) && Z.eqb (m_t a) (m_t b) && Z.eqb (m_filled a) (m_filled b).
Definition ostate_eqb (a b : ostate) : bool :=
  match a, b with
  | OIF, OIF => true
  | Open x, Open y => meta_eqb x y
  | CIF x, CIF y => option_eqb meta_eqb x y
  | _, _ => false
  end.
Definition order_eqb (a b : order) : bool :=
  Z.eqb (o_sf a) (o_sf b) && Z.eqb (o_qty a) (o_qty b) && ostate_eqb (o_st a) (o_st b).
Definition okey_mem (k : okey) (l : list okey) : bool := existsb (okey_eqb k) l.
Fixpoint keys_nodup (l : list okey) : bool :=
  match l with [] => true | k :: t => negb (okey_mem k t) && keys_nodup t end.
(** same map: no key twice in the observed list, equal pointwise on the keys of both *)
Definition omap_eqb (model observed : omap) : bool :=
  keys_nodup (map fst observed) &&
  forallb (fun k => option_eqb order_eqb (ofind model k) (ofind observed k))
          (map fst model ++ map fst observed).

Definition okey_leb (a b : okey) : bool :=
  Z.ltb (fst a) (fst b) || (Z.eqb (fst a) (fst b) && Z.leb (snd a) (snd b)).
Fixpoint kinsert (k : okey) (l : list okey) : list okey :=
  match l with
  | [] => [k]
  | x :: t => if okey_leb k x then k :: l else x :: kinsert k t
  end.
Definition ksort (l : list okey) : list okey := fold_right kinsert [] l.
Definition keys_eqb := list_eqb okey_eqb.
Definition keypair_eqb (m o : list okey * list okey) : bool :=
  keys_eqb (ksort (fst m)) (fst o) && keys_eqb (ksort (snd m)) (snd o).
Definition outs_eqb (m o : outs) : bool :=
  option_eqb keypair_eqb (out_cmd m) (out_cmd o) && Bool.eqb (out_hook m) (out_hook o) &&
  option_eqb keypair_eqb (out_algo m) (out_algo o).

Definition is_process (a : audit unit) : bool :=
  match a with AFeedEnded => false | AProcess _ _ _ => true end.
Definition audit_errs (a : audit unit) : bool :=
  match a with AFeedEnded => false | AProcess _ e _ => e end.
Definition audit_outs (a : audit unit) : outs :=
  match a with AFeedEnded => no_outs | AProcess _ _ o => o end.

Definition tick_matches (t : mtick) (o : tobs) : bool :=
  N.eqb (fst t) (t_seq o) && Bool.eqb (is_process (snd t)) (t_proc o) && t_same o &&
  Bool.eqb (is_terminal (snd t)) (t_term o) && Bool.eqb (audit_errs (snd t)) (t_errs o) &&
  outs_eqb (audit_outs (snd t)) (t_outs o).

Definition eng_matches (m : option (engine unit)) (o : option eobs) : bool :=
  match m, o with
  | None, None => true
  | Some e, Some x =>
      N.eqb (e_seq e) (eo_seq x) && Bool.eqb (trading (e_state e)) (eo_trading x) &&
      omap_eqb (orders (e_state e)) (eo_orders x)
  | _, _ => false
  end.

Definition cmp_all (c : cmp) : bool :=
  c_trading c && c_conn c && c_assets c && c_pos c && c_data c && c_tear c && c_rest c.

Fixpoint list_match {A B} (f : A -> B -> bool) (l1 : list A) (l2 : list B) : bool :=
  match l1, l2 with
  | [], [] => true
  | x :: t1, y :: t2 => f x y && list_match f t1 t2
  | _, _ => false
  end.

(* ---- perturbed streams -------------------------------------------------------------------------------- *)
Definition perturb_list {A} (p : perturb) (l : list A) : list A :=
  match p with
  | PNone => l
  | PDelete i => firstn (N.to_nat i) l ++ skipn (S (N.to_nat i)) l
  | PDup i => firstn (S (N.to_nat i)) l ++ skipn (N.to_nat i) l
  | PSwap i => match skipn (N.to_nat i) l with
               | a :: b :: r => firstn (N.to_nat i) l ++ b :: a :: r
               | _ => l
               end
  | PReplay i => match nth_error l (N.to_nat i) with Some t => l ++ [t] | None => l end
  | PWindow i n => l ++ firstn (N.to_nat n) (skipn (N.to_nat i) l)
  | PTriple i =>
      let l1 := firstn (S (N.to_nat i)) l ++ skipn (N.to_nat i) l in
      firstn (S (N.to_nat i)) l1 ++ skipn (N.to_nat i) l1
  end.
Definition is_pnone (p : perturb) : bool := match p with PNone => true | _ => false end.

(* ---- corr_b ------------------------------------------------------------------------------------------------ *)

(** the replica fed tick by tick (each call of run() consumes one tick; it goes on after Err) *)
Fixpoint rep_matches (r : replica unit) (fed : list (mtick * bool)) (os : list robs) : bool :=
  match fed, os with
  | [], [] => true
  | (t, want_cmp) :: fed', o :: os' =>
      let (r', res) := m_replica_step r t in
      N.eqb (fst t) (ro_fseq o) && Bool.eqb (is_process (snd t)) (ro_fproc o) &&
      Bool.eqb (match res with RErr => false | _ => true end) (ro_ok o) &&
      N.eqb (r_seq r') (ro_seq o) && Bool.eqb (trading (r_state r')) (ro_trading o) &&
      omap_eqb (orders (r_state r')) (ro_orders o) &&
      Bool.eqb (match res with RApplied => false | _ => true end) (ro_unchanged o) &&
      match ro_cmp o with Some c => want_cmp && cmp_all c | None => negb want_cmp end &&
      rep_matches r' fed' os'
  | _, _ => false
  end.

Record mrun := mkMrun {
  mr_snap : N * state unit; mr_ticks : list mtick; mr_eng : list (option (engine unit));
  mr_final : engine unit; mr_feed : list (ev * script) }.

Definition model_run (md : mode) (sinit : N) (tr0 : bool) (bad : list Z) (hook : bool)
                     (pre feed : list (ev * strat)) : mrun :=
  let e0 := mkEngine (mkState tr0 tt []) sinit in
  let pre' := derive_feed bad hook (e_state e0) pre in
  let e_pre := fst (m_run_manual e0 pre') in
  let (e1, snap) := audit_snapshot e_pre in
  let feed' := derive_feed bad hook (e_state e1) feed in
  match md with
  | Manual =>
      let (e2, ticks) := m_run_manual e1 feed' in
      mkMrun snap ticks (map Some (m_trace e1 feed')) e2 feed'
  | _ =>
      let (e2, ticks) := m_run_loop e1 feed' in
      mkMrun snap ticks (repeat None (pred (length ticks)) ++ [Some e2]) e2 feed'
  end.

Definition corr_b (c : case) : bool :=
  match c with
  | CPanic => false
  | CExcluded => true
  | mkCase md sinit tr0 bad hook pre feed p snap_seq snap_tr snap_orders snap_eq
           ticks engs reps whole =>
      let m := model_run md sinit tr0 bad hook pre feed in
      let r0 := replica_init (mr_snap m) in
      let fed := perturb_list p (combine (mr_ticks m)
                                   (map (fun e => match e with Some _ => is_pnone p | None => false end)
                                        (mr_eng m))) in
      N.eqb (fst (mr_snap m)) snap_seq && Bool.eqb (trading (snd (mr_snap m))) snap_tr &&
      omap_eqb (orders (snd (mr_snap m))) snap_orders && snap_eq &&
      list_match tick_matches (mr_ticks m) ticks &&
      list_match eng_matches (mr_eng m) engs &&
      rep_matches r0 fed reps &&
      (let (rw, ok) := m_replica_run r0 (map fst fed) in
       Bool.eqb ok (ro_ok whole) && N.eqb (r_seq rw) (ro_seq whole) &&
       Bool.eqb (trading (r_state rw)) (ro_trading whole) &&
       omap_eqb (orders (r_state rw)) (ro_orders whole) &&
       Bool.eqb (N.eqb (r_seq rw) (r_seq r0)) (ro_unchanged whole) &&
       match ro_cmp whole with Some x => is_pnone p && cmp_all x | None => negb (is_pnone p) end)
  end.

(** the input requirements of the simulation theorem hold on the processed part of the feed *)
Definition wf_case (c : case) : bool :=
  match c with
  | CPanic => true
  | CExcluded => true
  | mkCase md sinit tr0 bad hook pre feed _ _ _ _ _ _ _ _ _ =>
      let m := model_run md sinit tr0 bad hook pre feed in
      let n := length (filter (fun t => is_process (snd t)) (mr_ticks m)) in
      m_hyps (snd (mr_snap m)) (snd (mr_snap m)) (firstn n (mr_feed m))
  end.

(* ---- prop_b: the oracle on the observations ----------------------------------------------------------------- *)

Definition all_but_last {A} (l : list A) : list A := removelast l.

(** numbering and shape of the observed tick stream *)
Definition fed_is_shutdown (feed : list (ev * strat)) (k : nat) : bool :=
  match nth_error feed k with Some (EvShutdown, _) => true | _ => false end.

(** a record is terminal exactly when it is the feed-ended record, the record of a shutdown
    event, or carries a fatal error *)
Fixpoint terminal_flags_ok (feed : list (ev * strat)) (k : nat) (ticks : list tobs) : bool :=
  match ticks with
  | [] => true
  | t :: ts =>
      Bool.eqb (t_term t) (negb (t_proc t) || t_errs t || fed_is_shutdown feed k) &&
      terminal_flags_ok feed (S k) ts
  end.

Definition ticks_ok (md : mode) (n_feed : nat) (snap_seq : N) (ticks : list tobs) : bool :=
  list_eqb N.eqb (map t_seq ticks) (seqN (snap_seq + 1) (length ticks)) &&
  match md with
  | Manual =>
      Nat.eqb (length ticks) n_feed && forallb (fun t => t_proc t && t_same t) ticks
  | _ =>
      match rev ticks with
      | [] => false                                    (* a run always ends with a terminal record *)
      | last :: _ =>
          forallb (fun t => t_proc t && t_same t && negb (t_term t)) (all_but_last ticks) &&
          t_term last &&
          (if t_proc last then t_same last && Nat.leb (length ticks) n_feed
           else Nat.eqb (length ticks) (S n_feed))
      end
  end.

Definition eng_seq_ok (ticks : list tobs) (engs : list (option eobs)) : bool :=
  list_match (fun t e => match e with Some x => N.eqb (eo_seq x) (t_seq t + 1) | None => true end)
             ticks engs.

(** every tick fed to the replica is applied iff it is the next one; older / repeated ones are
    skipped, a gap is an error; skipped, rejected and feed-ended ticks leave the replica as it is *)
Fixpoint rep_rule_ok (cur : N) (os : list robs) : bool :=
  match os with
  | [] => true
  | o :: os' =>
      if negb (ro_fproc o) then
        ro_ok o && ro_unchanged o && N.eqb (ro_seq o) cur && rep_rule_ok cur os'
      else if N.leb (ro_fseq o) cur then
        ro_ok o && ro_unchanged o && N.eqb (ro_seq o) cur && rep_rule_ok cur os'
      else if N.eqb (ro_fseq o) (cur + 1) then
        ro_ok o && negb (ro_unchanged o) && N.eqb (ro_seq o) (ro_fseq o) && rep_rule_ok (ro_fseq o) os'
      else
        negb (ro_ok o) && ro_unchanged o && N.eqb (ro_seq o) cur && rep_rule_ok cur os'
  end.

(** a replica that did not move keeps its orders and trading state *)
Fixpoint rep_frame_ok (prev_tr : bool) (prev : omap) (os : list robs) : bool :=
  match os with
  | [] => true
  | o :: os' =>
      (if ro_unchanged o
       then Bool.eqb (ro_trading o) prev_tr && omap_eqb prev (ro_orders o) && omap_eqb (ro_orders o) prev
       else true) &&
      rep_frame_ok (ro_trading o) (ro_orders o) os'
  end.

Definition term_of (ticks : list tobs) (s : N) : bool :=
  existsb (fun t => N.eqb (t_seq t) s && t_term t) ticks.

(** StateReplicaManager::run over the whole fed stream, read off the statement: how many fed
    ticks it consumes (including the one it stops at) and whether it returns Ok *)
Fixpoint whole_walk (ticks : list tobs) (cur : N) (os : list robs) : nat * bool :=
  match os with
  | [] => (O, true)
  | o :: os' =>
      if negb (ro_fproc o) then (1%nat, true)
      else if N.leb (ro_fseq o) cur then
        let (n, ok) := whole_walk ticks cur os' in (S n, ok)
      else if N.eqb (ro_fseq o) (cur + 1) then
        if term_of ticks (ro_fseq o) then (1%nat, true)
        else let (n, ok) := whole_walk ticks (ro_fseq o) os' in (S n, ok)
      else (1%nat, false)
  end.

Definition whole_ok (ticks : list tobs) (snap_seq : N) (snap_tr : bool) (snap_orders : omap)
                    (reps : list robs) (whole : robs) : bool :=
  let (n, ok) := whole_walk ticks snap_seq reps in
  Bool.eqb (ro_ok whole) ok &&
  match n with
  | O => N.eqb (ro_seq whole) snap_seq && Bool.eqb (ro_trading whole) snap_tr &&
         omap_eqb snap_orders (ro_orders whole)
  | S k => match nth_error reps k with
           | Some o => N.eqb (ro_seq whole) (ro_seq o) && Bool.eqb (ro_trading whole) (ro_trading o) &&
                       omap_eqb (ro_orders o) (ro_orders whole) && omap_eqb (ro_orders whole) (ro_orders o)
           | None => false
           end
  end &&
  Bool.eqb (ro_unchanged whole) (N.eqb (ro_seq whole) snap_seq).

(** orders equal once the in-flight markers are set aside *)
Definition orders_related (a b : omap) : bool :=
  keys_nodup (map fst a) && keys_nodup (map fst b) &&
  forallb (fun k => option_eqb order_eqb (proj (ofind a k)) (proj (ofind b k)))
          (map fst a ++ map fst b).
Definition no_markers (a : omap) : bool :=
  forallb (fun p => match o_st (snd p) with Open _ => true | _ => false end) a.

(** engine observation [x] and replica observation [o] agree: trading state, orders modulo
    in-flight markers, and every PartialEq comparison made by the harness *)
Definition eng_rep_ok (x : eobs) (o : robs) : bool :=
  Bool.eqb (eo_trading x) (ro_trading o) && orders_related (eo_orders x) (ro_orders o) &&
  match ro_cmp o with Some c => cmp_all c | None => false end.

Definition sim_tick (snap_markers_free : bool) (te : tobs * option eobs) (o : robs) : bool :=
  N.eqb (ro_fseq o) (t_seq (fst te)) &&
  (if t_proc (fst te) then ro_ok o && negb (ro_unchanged o) else ro_ok o) &&
  (if snap_markers_free then no_markers (ro_orders o) else true) &&
  match snd te with Some x => eng_rep_ok x o | None => true end.

(** unperturbed stream: after every tick the replica equals the engine *)
Definition sim_ok (snap_markers_free : bool) (ticks : list tobs) (engs : list (option eobs))
                  (reps : list robs) : bool :=
  Nat.eqb (length ticks) (length reps) &&
  list_match (sim_tick snap_markers_free) (combine ticks engs) reps.

Definition join_opt {A} (o : option (option A)) : option A :=
  match o with Some x => x | None => None end.

Definition last_eng (engs : list (option eobs)) : option eobs :=
  fold_left (fun acc e => match e with Some _ => e | None => acc end) engs None.

Definition prop_b (c : case) : bool :=
  match c with
  | CPanic => false
  | CExcluded => true
  | mkCase md sinit tr0 bad hook pre feed p snap_seq snap_tr snap_orders snap_eq
           ticks engs reps whole =>
      snap_eq &&
      ticks_ok md (length feed) snap_seq ticks && terminal_flags_ok feed 0 ticks &&
      Nat.eqb (length engs) (length ticks) && eng_seq_ok ticks engs &&
      rep_rule_ok snap_seq reps &&
      rep_frame_ok snap_tr snap_orders reps &&
      whole_ok ticks snap_seq snap_tr snap_orders reps whole &&
      (if is_pnone p && wf_case c then
         sim_ok (no_markers snap_orders) ticks engs reps &&
         ro_ok whole &&
         match (match md with
                | Manual => join_opt (find (fun e => match e with
                                                     | Some x => N.eqb (eo_seq x) (ro_seq whole + 1)
                                                     | None => false end) engs)
                | _ => last_eng engs
                end) with
         | Some e => eng_rep_ok e whole
         | None => match ro_cmp whole with Some x => cmp_all x | None => false end
         end
       else true)
  end.

Definition known_b (c : case) : N := 0.

Definition judge (c : case) : N := judge_code (corr_b c) (prop_b c) (known_b c).
