(** Observed positions / fills shared by the C02 and C15 correspondence files: record types
    printed by the harnesses, conversion to the model's types, tolerance comparison. *)
From Coq Require Import Qcanon.
From BV Require Export Base.Common Model.Position.
Local Close Scope Qc_scope.
Local Open Scope Q_scope.

(* ---- observed values (decimals are exact rationals [dq mantissa scale]) ------------------ *)

Record ofill := mkOF {
  of_id : N; of_inst : N; of_time : Z; of_side : side; of_price : Q; of_qty : Q; of_fee : Q }.

Record opos := mkOP {
  op_inst : N; op_side : side; op_avg : Q; op_qty : Q; op_qmax : Q; op_pnl_u : Q; op_pnl_r : Q;
  op_fin : Q; op_fout : Q; op_tenter : Z; op_tupdate : Z; op_trades : list N }.

Record oexit := mkOX {
  ox_inst : N; ox_side : side; ox_avg : Q; ox_qmax : Q; ox_pnl_r : Q; ox_fin : Q; ox_fout : Q;
  ox_tenter : Z; ox_texit : Z; ox_trades : list N }.

(* ---- helpers ----------------------------------------------------------------------------- *)

Definition fill_of (o : ofill) : fill :=
  mkFill (of_id o) (of_inst o) (of_time o) (of_side o)
         (Q2Qc (of_price o)) (Q2Qc (of_qty o)) (Q2Qc (of_fee o)).

Definition near (tol x y : Q) : bool := Qle_bool (Qabs' (x - y)) tol.
Definition exact (x y : Q) : bool := Qeq_bool x y.
Definition rel20 : Q := Qmake 1 (Z.to_pos (10 ^ 20)).

Definition Qmaxq (a b : Q) : Q := if Qle_bool a b then b else a.

(** tolerance scales of one history: Decimal keeps 28 significant digits, every intermediate
    value is bounded by the gross traded notional (pnl-like fields), the largest price (average
    entry price) or the gross fees (fee fields); 1e-20 of that bound leaves 8 digits of slack.
    Decimal has at most 28 fractional digits, so each operation may also lose 1e-28 absolutely:
    an absolute floor of 1e-24 covers thousands of operations. *)
Definition abs24 : Q := Qmake 1 (Z.to_pos (10 ^ 24)).
Record tols := mkTols { t_pnl : Q; t_price : Q; t_fee : Q }.
Definition tols_of (fs : list ofill) : tols :=
  let notional := fold_right (fun f a => Qabs' (of_price f) * Qabs' (of_qty f) + Qabs' (of_fee f) + a) 0 fs in
  let pmax := fold_right (fun f a => Qmaxq (Qabs' (of_price f)) a) 0 fs in
  let fees := fold_right (fun f a => Qabs' (of_fee f) + a) 0 fs in
  (* the average entry price is a quotient by (open quantity + fill quantity) >= smallest fill
     quantity: the 1e-28 lost in the numerator is amplified by at most 1 / that quantity *)
  let qmin := fold_right (fun f a => if Qle_bool (Qabs' (of_qty f)) a then Qabs' (of_qty f) else a) 1 fs in
  mkTols (Qred (notional * rel20 + abs24))
         (Qred (pmax * rel20 + (if Qle_bool qmin 0 then abs24 else abs24 / qmin)))
         (Qred (fees * rel20 + abs24)).

Definition N_list_eqb := list_eqb N.eqb.

Definition pos_matches (t : tols) (m : position) (o : opos) : bool :=
  N.eqb (p_inst m) (op_inst o) && side_eqb (p_side m) (op_side o) &&
  near (t_price t) (this (p_avg m)) (op_avg o) &&
  exact (this (p_qty m)) (op_qty o) && exact (this (p_qmax m)) (op_qmax o) &&
  near (t_pnl t) (this (p_pnl_u m)) (op_pnl_u o) &&
  near (t_pnl t) (this (p_pnl_r m)) (op_pnl_r o) &&
  near (t_fee t) (this (p_fin m)) (op_fin o) && near (t_fee t) (this (p_fout m)) (op_fout o) &&
  Z.eqb (p_tenter m) (op_tenter o) && Z.eqb (p_tupdate m) (op_tupdate o) &&
  N_list_eqb (p_trades m) (op_trades o).

Definition exit_matches (t : tols) (m : exited) (o : oexit) : bool :=
  N.eqb (x_inst m) (ox_inst o) && side_eqb (x_side m) (ox_side o) &&
  near (t_price t) (this (x_avg m)) (ox_avg o) && exact (this (x_qmax m)) (ox_qmax o) &&
  near (t_pnl t) (this (x_pnl_r m)) (ox_pnl_r o) &&
  near (t_fee t) (this (x_fin m)) (ox_fin o) && near (t_fee t) (this (x_fout m)) (ox_fout o) &&
  Z.eqb (x_tenter m) (ox_tenter o) && Z.eqb (x_texit m) (ox_texit o) &&
  N_list_eqb (x_trades m) (ox_trades o).

Definition omatch {A B} (f : A -> B -> bool) (x : option A) (y : option B) : bool :=
  match x, y with
  | Some a, Some b => f a b
  | None, None => true
  | _, _ => false
  end.

(* ---- spec-side helpers on observed values ---------------------------------------------------- *)

Definition osq (f : ofill) : Q := match of_side f with Buy => of_qty f | Sell => - of_qty f end.
Definition ocashflow (f : ofill) : Q :=
  match of_side f with
  | Sell => of_price f * of_qty f - of_fee f
  | Buy => - (of_price f * of_qty f) - of_fee f
  end.
Definition qcrosses (n s : Q) : bool :=
  (negb (Qle_bool n 0) && Qle_bool (n + s) 0) || (negb (Qle_bool 0 n) && Qle_bool 0 (n + s)).
Definition qcrosses_strictly (n s : Q) : bool :=
  (negb (Qle_bool n 0) && negb (Qle_bool 0 (n + s))) || (negb (Qle_bool 0 n) && negb (Qle_bool (n + s) 0)).

Definition osq_pos (p : option opos) : Q :=
  match p with
  | Some p => match op_side p with Buy => op_qty p | Sell => - op_qty p end
  | None => 0
  end.

