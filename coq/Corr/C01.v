(** C01 correspondence: case type, [corr_b] (the model reproduces exactly the active-order maps
    observed on the implementation after every input) and [prop_b] (the OBSERVED maps obey the
    documented lifecycle table, the frame rule and the monotone exchange timestamp; evaluated
    with the abstract specification [allowed] / [reach], never by calling the model's [step]). *)
From BV Require Export Base.Common Model.Orders.
Local Open Scope Z_scope.

(** one entry of the observed hash map: map key + tracked order (sorted by key by the harness) *)
Inductive entry := E (c : Z) (o : order).
Definition ekey (e : entry) : Z := match e with E c _ => c end.

(** a step of a case: an input of the model, or a persist / restore of the state (the harness
    serialises the [Orders] to JSON, deserialises them back and continues with the restored
    value; [same] = restored == original as decided by the implementation's own PartialEq).
    The model treats it as a no-op. *)
Inductive xop := XOp (o : op) | XPersist (same : bool).
Inductive xeop := XE (x : eop) | XEPersist (same : bool).

Inductive case :=
| COrders (init : list entry) (xs : list xop) (obs : list (list entry))
    (* [Orders(init)] ; every op applied through OrderManager / InFlightRequestRecorder ;
       [obs] = the whole map after each step *)
| CEngine (ninst : N) (xs : list xeop) (obs : list (list (list entry)))
    (* an [EngineState] with [ninst] instruments built by the public builder ; every input
       applied through EngineState::update_from_account / InFlightRequestRecorder for
       EngineState ; [obs] = after each step, every instrument's map (by instrument index) *)
| CPanic
    (* the implementation panicked on an input of the property's domain *).

Definition entry_eqb (a b : entry) : bool :=
  match a, b with E c o, E c' o' => Z.eqb c c' && order_eqb o o' end.

(** model semantics of a step list *)
Definition xstep (s : orders) (x : xop) : orders :=
  match x with XOp o => step s o | XPersist _ => s end.
Definition ops_of (xs : list xop) : list op :=
  flat_map (fun x => match x with XOp o => [o] | XPersist _ => [] end) xs.
Definition xestep (e : estate) (x : xeop) : estate :=
  match x with XE y => estep e y | XEPersist _ => e end.
Definition eops_of (xs : list xeop) : list eop :=
  flat_map (fun x => match x with XE y => [y] | XEPersist _ => [] end) xs.

(** check the persist steps (the round trip reported no difference and the observed maps are
    exactly the previous ones) and drop them: what is left is judged as before.  [None] = a
    persist / restore changed the state (or the case is malformed). *)
Fixpoint strip_orders (prev : list entry) (xs : list xop) (obs : list (list entry))
  : option (list op * list (list entry)) :=
  match xs, obs with
  | [], [] => Some ([], [])
  | XOp o :: xs', cur :: obs' =>
      match strip_orders cur xs' obs' with
      | Some (ops, os) => Some (o :: ops, cur :: os)
      | None => None
      end
  | XPersist same :: xs', cur :: obs' =>
      if same && list_eqb entry_eqb prev cur then strip_orders prev xs' obs' else None
  | _, _ => None
  end.

Fixpoint strip_engine (prev : list (list entry)) (xs : list xeop) (obs : list (list (list entry)))
  : option (list eop * list (list (list entry))) :=
  match xs, obs with
  | [], [] => Some ([], [])
  | XE x :: xs', cur :: obs' =>
      match strip_engine cur xs' obs' with
      | Some (ys, os) => Some (x :: ys, cur :: os)
      | None => None
      end
  | XEPersist same :: xs', cur :: obs' =>
      if same && list_eqb (list_eqb entry_eqb) prev cur then strip_engine prev xs' obs' else None
  | _, _ => None
  end.

Fixpoint lookup (l : list entry) (c : Z) : option order :=
  match l with
  | [] => None
  | E c' o :: t => if Z.eqb c' c then Some o else lookup t c
  end.

Fixpoint of_entries (l : list entry) : orders :=
  match l with
  | [] => empty
  | E c o :: t => upd (of_entries t) c (Some o)
  end.

Fixpoint strictly_sorted (l : list entry) : bool :=
  match l with
  | e1 :: ((e2 :: _) as t) => Z.ltb (ekey e1) (ekey e2) && strictly_sorted t
  | _ => true
  end.

Definition keys_in (U : list Z) (l : list entry) : bool :=
  forallb (fun e => existsb (Z.eqb (ekey e)) U) l.

(** the observed map [l] is the map [s] (U = every client order id mentioned in the case) *)
Definition view_eq (U : list Z) (s : orders) (l : list entry) : bool :=
  keys_in U l && strictly_sorted l && forallb (fun c => oorder_eqb (s c) (lookup l c)) U.

Definition snap_cids (l : list isnap) : list Z :=
  flat_map (fun x => map (fun sn => k_cid (o_key sn)) (is_orders x)) l.
Definition eop_cids (x : eop) : list Z :=
  match x with EOrd o => [cid_of o] | EAcctSnapshot l => snap_cids l end.

Definition u_orders (init : list entry) (ops : list op) : list Z := map ekey init ++ map cid_of ops.
Definition u_engine (xs : list eop) : list Z := flat_map eop_cids xs.

(* ---- model = implementation ----------------------------------------------------------------- *)

Fixpoint corr_run (U : list Z) (s : orders) (ops : list op) (obs : list (list entry)) : bool :=
  match ops, obs with
  | [], [] => true
  | o :: ops', l :: obs' => let s' := step s o in view_eq U s' l && corr_run U s' ops' obs'
  | _, _ => false
  end.

Fixpoint eview_eq (U : list Z) (e : estate) (i : Z) (ls : list (list entry)) : bool :=
  match ls with
  | [] => true
  | l :: t => view_eq U (e i) l && eview_eq U e (i + 1) t
  end.

Fixpoint ecorr_run (n : N) (U : list Z) (e : estate) (xs : list eop)
    (obs : list (list (list entry))) : bool :=
  match xs, obs with
  | [], [] => true
  | x :: xs', ls :: obs' =>
      let e' := estep e x in
      N.eqb (N.of_nat (length ls)) n && eview_eq U e' 0 ls && ecorr_run n U e' xs' obs'
  | _, _ => false
  end.

Definition corr_b (c : case) : bool :=
  match c with
  | COrders init xs obs =>
      match strip_orders init xs obs with
      | Some (ops, os) =>
          strictly_sorted init && corr_run (u_orders init ops) (of_entries init) ops os
      | None => false
      end
  | CEngine n xs obs =>
      match strip_engine (repeat [] (N.to_nat n)) xs obs with
      | Some (ys, os) => ecorr_run n (u_engine ys) eempty ys os
      | None => false
      end
  | CPanic => false
  end.

(* ---- the property oracle on the observed maps -------------------------------------------------- *)

(** one input [o] took the observed map from [prev] to [cur] : the addressed id moved along the
    lifecycle table without its exchange timestamp going back, every other id is untouched *)
Definition step_ok (U : list Z) (prev cur : list entry) (o : op) : bool :=
  keys_in U cur &&
  forallb (fun c =>
    let a := lookup prev c in
    let b := lookup cur c in
    if Z.eqb (cid_of o) c
    then lifecycle_b (pst a) (abs_op o) (pst b) && mono_b (pst a) (pst b)
    else oorder_eqb a b) U.

Fixpoint prop_run (U : list Z) (prev : list entry) (ops : list op) (obs : list (list entry)) : bool :=
  match ops, obs with
  | [], [] => true
  | o :: ops', cur :: obs' => step_ok U prev cur o && prop_run U cur ops' obs'
  | _, _ => false
  end.

(** the order reports a full account snapshot carries for instrument [i], in the order listed *)
Definition reports_of (i : Z) (l : list isnap) : list osnap :=
  flat_map is_orders (filter (fun x => Z.eqb (is_inst x) i) l).

(** instrument [i] under one engine input *)
Definition inst_ok (U : list Z) (i : Z) (prev cur : list entry) (x : eop) : bool :=
  match x with
  | EOrd o => if Z.eqb (inst_of o) i then step_ok U prev cur o else list_eqb entry_eqb prev cur
  | EAcctSnapshot l =>
      let reps := reports_of i l in
      keys_in U cur &&
      forallb (fun c =>
        let a := lookup prev c in
        let b := lookup cur c in
        if existsb (fun sn => Z.eqb (k_cid (o_key sn)) c) reps
        then existsb (pstate_eqb (pst b)) (reach c reps (pst a))
        else oorder_eqb a b) U
  end.

Fixpoint insts_ok (U : list Z) (i : Z) (prevs curs : list (list entry)) (x : eop) : bool :=
  match prevs, curs with
  | [], [] => true
  | p :: ps, c :: cs => inst_ok U i p c x && insts_ok U (i + 1) ps cs x
  | _, _ => false
  end.

Fixpoint eprop_run (U : list Z) (prevs : list (list entry)) (xs : list eop)
    (obs : list (list (list entry))) : bool :=
  match xs, obs with
  | [], [] => true
  | x :: xs', curs :: obs' => insts_ok U 0 prevs curs x && eprop_run U curs xs' obs'
  | _, _ => false
  end.

(** a persist / restore that changes the tracked orders breaks the property outright *)
Definition prop_b (c : case) : bool :=
  match c with
  | COrders init xs obs =>
      match strip_orders init xs obs with
      | Some (ops, os) => prop_run (u_orders init ops) init ops os
      | None => false
      end
  | CEngine n xs obs =>
      match strip_engine (repeat [] (N.to_nat n)) xs obs with
      | Some (ys, os) => eprop_run (u_engine ys) (repeat [] (N.to_nat n)) ys os
      | None => false
      end
  | CPanic => false
  end.

Definition known_b (c : case) : N := 0.

Definition judge (c : case) : N := judge_code (corr_b c) (prop_b c) (known_b c).
