(** C13 correspondence: case type, [corr_b] (model = implementation on this case) and [prop_b]
    (the OBSERVED behaviour satisfies the property's executable oracle, written against the
    venue conventions [venue_symbol] / [venue_channel] and the subscribed set - it uses neither
    the model's subscription ids, nor its table, nor its [transform]). *)
From BV Require Export Base.Common Model.SubId Model.SubIdL2.
From Coq Require Export String Ascii.

(** One case = one (connector, subscription kind) stream: the subscriptions handed to the real
    [WebSocketSubMapper::map] (key, instrument data), for Bitfinex the confirmations
    (channel, symbol, chanId) the simulated venue sent in answer to the connector's own
    requests and that went through the real validator, the instrument table the transformer was
    initialised with (observed, sorted by id), and the messages with the outcome observed from
    [serde_json::from_str] + [StatelessTransformer::transform]. *)
Record stream_case := mkCase {
  c_exch : exch; c_sk : skind; c_subs : list sub; c_confs : list conf;
  c_map : list (string * N); c_msgs : list (msg * outcome) }.

(* ---- decidable equalities ---------------------------------------------------------------- *)

Definition side_eqb (a b : side) : bool :=
  match a, b with Buy, Buy | Sell, Sell => true | _, _ => false end.
Definition optZ_eqb := option_eqb Z.eqb.
Definition level_eqb := option_eqb (pair_eqb Z.eqb Z.eqb).

Definition body_eqb (a b : body) : bool :=
  match a, b with
  | BTrade i p q s, BTrade i' p' q' s' => String.eqb i i' && Z.eqb p p' && Z.eqb q q' && side_eqb s s'
  | BL1 t b1 a1, BL1 t' b2 a2 => optZ_eqb t t' && level_eqb b1 b2 && level_eqb a1 a2
  | BLiq s p q t, BLiq s' p' q' t' => side_eqb s s' && Z.eqb p p' && Z.eqb q q' && optZ_eqb t t'
  | _, _ => false
  end.
Definition event_eqb (a b : event) : bool :=
  N.eqb (e_key a) (e_key b) && exch_eqb (e_exch a) (e_exch b) && optZ_eqb (e_time a) (e_time b)
  && body_eqb (e_body a) (e_body b).
Definition oitem_eqb (a b : oitem) : bool :=
  match a, b with
  | OEv x, OEv y => event_eqb x y
  | OUnident x, OUnident y => String.eqb x y
  | OErr x, OErr y => String.eqb x y
  | _, _ => false
  end.
Definition outcome_eqb (a b : outcome) : bool :=
  match a, b with
  | ODeser, ODeser | OPanic, OPanic => true
  | OOut x, OOut y => list_eqb oitem_eqb x y
  | _, _ => false
  end.

Fixpoint lookup (l : list (string * N)) (id : string) : option N :=
  match l with
  | [] => None
  | (i, k) :: t => if String.eqb i id then Some k else lookup t id
  end.

(* ---- input requirements ------------------------------------------------------------------- *)

(** the (exchange, kind) pairs of the dynamic builder that are served by StatelessTransformer *)
Definition supported (e : exch) (sk : skind) : bool :=
  match e, sk with
  | BinanceSpot, (PublicTrades | OrderBooksL1) => true
  | BinanceFuturesUsd, _ => true
  | Kraken, (PublicTrades | OrderBooksL1) => true
  | ExOther, _ => false
  | _, PublicTrades => true
  | _, _ => false
  end.
(** [exchange_supports_instrument_kind_sub_kind] *)
Definition supported_kind (e : exch) (k : ikind) : bool :=
  match e, k with
  | (BinanceSpot | Bitfinex | BybitSpot | Coinbase | GateioSpot | Kraken), KSpot => true
  | (BinanceFuturesUsd | Bitmex | BybitPerpetualsUsd | GateioPerpetualsUsd | GateioPerpetualsBtc), KPerp => true
  | (GateioFuturesUsd | GateioFuturesBtc), KFuture _ => true
  | GateioOptions, KOption _ _ _ => true
  | Okx, _ => true
  | _, _ => false
  end.

(** payload shapes: these connectors' messages are a single object (exactly one item) *)
Definition single_item (e : exch) (sk : skind) : bool :=
  match family_of e, sk with
  | FBinance, _ | FBitfinex, _ | FCoinbase, _ => true
  | FKraken, OrderBooksL1 => true
  | FGateio, _ => exch_eqb e GateioSpot
  | _, _ => false
  end.

Definition expiry_ok (k : ikind) : bool :=
  match k with
  | KFuture x | KOption _ x _ => Z.leb 946684800000 x && Z.ltb x 4102444800000  (* 2000 .. 2099 *)
  | _ => true
  end.

Definition item_ok (it : item) : bool := Z.ltb 0 (i_amount it) && Z.leb 0 (i_price it) && Z.leb 0 (i_price2 it).

Definition msg_ok (e : exch) (sk : skind) (m : msg) : bool :=
  match m with
  | MControl _ => true
  | MData _ _ _ items =>
      forallb item_ok items && (if single_item e sk then Nat.eqb (List.length items) 1 else true)
  end.

Definition wf_case (c : stream_case) : bool :=
  supported (c_exch c) (c_sk c)
  && forallb (fun s => supported_kind (c_exch c) (kind_of (snd s)) && expiry_ok (kind_of (snd s))) (c_subs c)
  && forallb (fun mo => msg_ok (c_exch c) (c_sk c) (fst mo)) (c_msgs c).

(* ---- model = implementation ---------------------------------------------------------------- *)

Definition corr_b (c : stream_case) : bool :=
  let e := c_exch c in
  let sk := c_sk c in
  let m := transformer_map e sk (c_subs c) (c_confs c) in
  let ids := map (sid e sk) (c_subs c) ++ map (fun cf => dec (snd cf)) (c_confs c) ++ map fst (c_map c) in
  forallb (fun id => option_eqb N.eqb (m id) (lookup (c_map c) id)) ids
  && forallb (fun mo => outcome_eqb (transform e sk m (fst mo)) (snd mo)) (c_msgs c).

(* ---- oracle -------------------------------------------------------------------------------- *)

Definition chan_matches (e : exch) (k : ikind) (chan : string) : bool :=
  match venue_channel e k with Some c => String.eqb c chan | None => true end.

(** which symbol fields the venue's payload has *)
Definition has_envelope_sym (e : exch) : bool :=
  match family_of e with FBybit | FKraken | FOkx => true | _ => false end.
Definition has_item_syms (e : exch) : bool :=
  match family_of e with FKraken | FBitfinex => false | _ => true end.

Definition mentioned (e : exch) (sym : string) (items : list item) : list string :=
  (if has_envelope_sym e then [sym] else []) ++ (if has_item_syms e then map i_sym items else []).

(** the market the message is about, when all its symbol fields agree *)
Definition target (e : exch) (sym : string) (items : list item) : option string :=
  match mentioned e sym items with
  | [] => None
  | s :: t => if forallb (String.eqb s) t then Some s else None
  end.

(** Bitfinex: the venue confirmed this instrument's market on channel id [cid] *)
Definition bfx_confirmed (confs : list conf) (cid : N) (d : idata) : bool :=
  existsb (fun cf => match cf with (ch, sy, c) =>
     N.eqb c cid && String.eqb ch "trades" && String.eqb sy (venue_symbol Bitfinex d) end) confs.

(** subscriptions of this stream the venue means by (payload channel, symbol) / channel id *)
Definition subs_for (e : exch) (subs : list sub) (confs : list conf) (chan sym : string) (cid : N) : list sub :=
  match e with
  | Bitfinex => filter (fun s => bfx_confirmed confs cid (snd s)) subs
  | _ => filter (fun s => chan_matches e (kind_of (snd s)) chan && String.eqb (venue_symbol e (snd s)) sym) subs
  end.

Definition keys_of (l : list sub) : list N := map fst l.
Definition key_in (k : N) (l : list sub) : bool := existsb (N.eqb k) (keys_of l).

(** amount: the magnitude stated in the message; a sell may also be reported with the sign the
    venue itself uses (the property text does not choose) *)
Definition amount_ok (it : item) (a : Z) : bool :=
  Z.eqb a (i_amount it) || (side_eqb (i_side it) Sell && Z.eqb a (- i_amount it)).
Definition level_ok (p a : Z) (l : option (Z * Z)) : bool :=
  match l with
  | Some (p', a') => Z.eqb p p' && Z.eqb a a'
  | None => Z.eqb p 0                      (* "no level" only for a zero price *)
  end.
Definition body_ok (sk : skind) (it : item) (b : body) : bool :=
  match sk, b with
  | PublicTrades, BTrade id p a sd =>
      String.eqb id (i_id it) && Z.eqb p (i_price it) && amount_ok it a && side_eqb sd (i_side it)
  | OrderBooksL1, BL1 t bid ask =>
      optZ_eqb t (i_time it) && level_ok (i_price it) (i_amount it) bid && level_ok (i_price2 it) (i_amount2 it) ask
  | Liquidations, BLiq sd p q t =>
      side_eqb sd (i_side it) && Z.eqb p (i_price it) && Z.eqb q (i_amount it) && optZ_eqb t (i_time it)
  | _, _ => false
  end.

Fixpoint events_ok (e : exch) (sk : skind) (ss : list sub) (key : option N) (items : list item) (obs : list oitem) : bool :=
  match items, obs with
  | [], [] => true
  | it :: items', OEv ev :: obs' =>
      key_in (e_key ev) ss
      && (match key with Some k => N.eqb k (e_key ev) | None => true end)
      && exch_eqb (e_exch ev) e && optZ_eqb (e_time ev) (i_time it) && body_ok sk it (e_body ev)
      && events_ok e sk ss (Some (e_key ev)) items' obs'
  | _, _ => false
  end.

Definition no_events (o : outcome) : bool :=
  match o with
  | OOut l => forallb (fun x => match x with OEv _ => false | _ => true end) l
  | ODeser => true
  | OPanic => false
  end.

(** every reported event is for a subscribed instrument whose venue market is named in the
    message (Bitfinex: whose channel id the message carries) *)
Definition only_named (e : exch) (subs : list sub) (confs : list conf) (sym : string) (cid : N)
           (items : list item) (o : outcome) : bool :=
  match o with
  | OOut l =>
      forallb (fun x => match x with
         | OEv ev =>
             existsb (fun s => N.eqb (fst s) (e_key ev) &&
                match e with
                | Bitfinex => bfx_confirmed confs cid (snd s)
                | _ => existsb (String.eqb (venue_symbol e (snd s))) (mentioned e sym items)
                end) subs
         | _ => true end) l
  | ODeser => true
  | OPanic => false
  end.

Definition msg_prop (e : exch) (sk : skind) (subs : list sub) (confs : list conf) (m : msg) (o : outcome) : bool :=
  match m with
  | MControl _ => no_events o && negb (match o with ODeser => true | _ => false end)
  | MData chan sym cid items =>
      only_named e subs confs sym cid items o &&
      let tgt := match e with Bitfinex => Some EmptyString | _ => target e sym items end in
      match tgt with
      | None => true                       (* not a venue-format message about one market *)
      | Some s =>
          let ss := subs_for e subs confs chan s cid in
          match ss with
          | _ :: _ =>                      (* a subscribed market: attributed *)
              match o with OOut l => events_ok e sk ss None items l | _ => false end
          | [] =>                          (* not subscribed: rejected *)
              match o with
              | OOut [OUnident _] => true
              | ODeser => negb (existsb (fun su => chan_matches e (kind_of (snd su)) chan) subs)
              | _ => false
              end
          end
      end
  end.

(** Bitfinex: the connector asked the venue for the market of every subscribed instrument *)
Definition requests_ok (e : exch) (subs : list sub) (confs : list conf) : bool :=
  match e with
  | Bitfinex => forallb (fun s => existsb (fun cf => match cf with (ch, sy, _) =>
                   String.eqb ch "trades" && String.eqb sy (venue_symbol Bitfinex (snd s)) end) confs) subs
  | _ => true
  end.

Definition prop_b (c : stream_case) : bool :=
  requests_ok (c_exch c) (c_subs c) (c_confs c) &&
  forallb (fun mo => msg_prop (c_exch c) (c_sk c) (c_subs c) (c_confs c) (fst mo) (snd mo)) (c_msgs c).

(* ---- domain of the oracle-soundness theorem (Props/C13.v, C13_oracle_sound) ----------------- *)

Definition strike_plain_b (k : ikind) : bool :=
  match k with KOption _ _ strike => String.eqb (upper strike) strike | _ => true end.

Fixpoint nodup_b {A : Type} (eqb : A -> A -> bool) (l : list A) : bool :=
  match l with
  | [] => true
  | x :: t => negb (existsb (eqb x) t) && nodup_b eqb t
  end.

(** payload channel names contain no '|', Bybit symbols no '.' *)
Definition msg_plain_b (e : exch) (m : msg) : bool :=
  match m with
  | MControl _ => true
  | MData chan sym _ _ =>
      negb (has_bar chan) &&
      match family_of e with FBybit => negb (has_char "."%char sym) | _ => true end
  end.

(** Bitfinex: the venue handed out distinct channel ids, confirmed each market once, on the
    trades channel, and was asked for the market of every subscribed instrument *)
Definition confs_ok_b (e : exch) (subs : list sub) (confs : list conf) : bool :=
  match e with
  | Bitfinex =>
      nodup_b N.eqb (map (fun cf : conf => snd cf) confs) &&
      nodup_b String.eqb (map (fun cf : conf => sub_id (fst (fst cf)) (snd (fst cf))) confs) &&
      forallb (fun cf : conf => String.eqb (fst (fst cf)) "trades") confs &&
      requests_ok e subs confs
  | _ => true
  end.

Definition in_domain (c : stream_case) : bool :=
  wf_case c &&
  forallb (fun s => strike_plain_b (kind_of (snd s))) (c_subs c) &&
  forallb (fun mo => msg_plain_b (c_exch c) (fst mo)) (c_msgs c) &&
  confs_ok_b (c_exch c) (c_subs c) (c_confs c).

(** no recorded finding class for this property *)
Definition known_b (c : stream_case) : N := 0%N.

(** cases outside the stated input requirements are not judged *)
Definition stream_judge (c : stream_case) : N :=
  if wf_case c then judge_code (corr_b c) (prop_b c) (known_b c) else 0%N.

(* ---- which subscriptions the dynamic builder accepts ----------------------------------------- *)

Inductive sobs := SYes | SNo | SPanic.
Inductive vres := VOk (ids : list N) (strictly_sorted : bool) | VErr | VPanic.

Definition sobs_is (b : bool) (o : sobs) : bool :=
  match o, b with SYes, true | SNo, false => true | _, _ => false end.

Definition same_ids (a b : list N) : bool :=
  Nat.eqb (List.length a) (List.length b) &&
  forallb (fun x => existsb (N.eqb x) b) a && forallb (fun x => existsb (N.eqb x) a) b.

Notation triple_obs := (exch * ikind * subkind * sobs * sobs)%type.

Definition triple_corr (t : triple_obs) : bool :=
  match t with (e, k, sk, o3, o2) => sobs_is (supports_triple e k sk) o3 && sobs_is (supports_kind e k) o2 end.
(** accepted exactly when [DynamicStreams::init] has a connector arm for the (exchange, kind) pair
    and the venue endpoint serves the instrument kind; the typed validation must at least
    accept what the venue serves *)
Definition triple_prop (t : triple_obs) : bool :=
  match t with (e, k, sk, o3, o2) =>
    sobs_is (routed_pair e sk && venue_serves e k) o3 &&
    (match o2 with SPanic => false | SNo => negb (venue_serves e k) | SYes => true end)
  end.

Definition batch_corr (b : list dsub * vres) : bool :=
  match validate_batch (fst b), snd b with
  | Some ids, VOk obs sorted => same_ids ids obs && sorted
  | None, VErr => true
  | _, _ => false
  end.
Definition batch_prop (b : list dsub * vres) : bool :=
  let ok := forallb (fun s : dsub => match s with (_, e, k, sk) => routed_pair e sk && venue_serves e k end) (fst b) in
  let ids := map (fun s : dsub => fst (fst (fst s))) (fst b) in
  match snd b with
  | VOk obs sorted =>
      ok && sorted && nodup_b N.eqb obs &&
      forallb (fun x => existsb (N.eqb x) ids) obs && forallb (fun x => existsb (N.eqb x) obs) ids
  | VErr => negb ok
  | VPanic => false
  end.

(* ---- Binance OrderBooksL2: attribution of depth updates ----------------------------------- *)

Definition levels_eqb := list_eqb (pair_eqb Z.eqb Z.eqb).
Definition l2item_eqb (a b : l2item) : bool :=
  match a, b with
  | L2Ev k e t sq te bs as_, L2Ev k' e' t' sq' te' bs' as' =>
      N.eqb k k' && exch_eqb e e' && Z.eqb t t' && N.eqb sq sq' && optZ_eqb te te'
      && levels_eqb bs bs' && levels_eqb as_ as'
  | L2Unident x, L2Unident y => String.eqb x y
  | L2InvalidSeq p f, L2InvalidSeq p' f' => N.eqb p p' && N.eqb f f'
  | L2Err x, L2Err y => String.eqb x y
  | _, _ => false
  end.
Definition l2out_eqb (a b : l2out) : bool :=
  match a, b with
  | L2Deser, L2Deser | L2Panic, L2Panic => true
  | L2Out x, L2Out y => list_eqb l2item_eqb x y
  | _, _ => false
  end.

Definition l2_wf (e : exch) (subs : list sub) : bool :=
  match e with
  | BinanceSpot => forallb (fun s => match kind_of (snd s) with KSpot => true | _ => false end) subs
  | BinanceFuturesUsd => forallb (fun s => match kind_of (snd s) with KPerp => true | _ => false end) subs
  | _ => false
  end.

Definition l2_corr (e : exch) (subs : list sub) (omap : list (string * N)) (snaps : list snap)
           (init_ok : bool) (msgs : list (l2msg * l2out)) : bool :=
  let m := l2_map_subs e subs in
  forallb (fun id => option_eqb N.eqb (m id) (lookup omap id)) (map (l2_sid e) subs ++ map fst omap) &&
  match l2_init e subs snaps, init_ok with
  | Some t, true => list_eqb l2out_eqb (l2_run e t (map fst msgs)) (map snd msgs)
  | None, false => true
  | _, _ => false
  end.

(** oracle.  A depth update names its market by "s".  If no subscribed instrument has that
    venue symbol: unidentifiable.  Otherwise every event it yields carries the key of a
    subscription with that symbol, and if it is the first update for that market in the case
    and valid per the venue rule against the snapshot fetched FOR THAT INSTRUMENT, it yields
    exactly one update event with that key, the connector's exchange id, sequence = u, the
    message's event time, engine time (futures) and levels. *)
Definition l2_expected_engine_time (e : exch) (m : l2msg) : option Z :=
  match e with BinanceFuturesUsd => Some (l_T m) | _ => None end.

Definition l2_only_keys (ss : list sub) (o : l2out) : bool :=
  match o with
  | L2Out l => forallb (fun x => match x with L2Ev k _ _ _ _ _ _ => key_in k ss | L2Unident _ => false | _ => true end) l
  | L2Deser | L2Panic => false
  end.

Fixpoint l2_prop_run (e : exch) (subs : list sub) (snaps : list snap) (seen : list string)
         (msgs : list (l2msg * l2out)) : bool :=
  match msgs with
  | [] => true
  | (m, o) :: tl =>
      let ss := filter (fun s => String.eqb (venue_symbol e (snd s)) (l_sym m)) subs in
      (match ss with
       | [] => match o with L2Out [L2Unident _] => true | _ => false end
       | _ :: _ =>
           l2_only_keys ss o &&
           (if negb (existsb (String.eqb (l_sym m)) seen) &&
               forallb (fun s => match snap_of snaps (fst s) with
                                 | Some sn => first_update_valid e (snd sn) m
                                 | None => false
                                 end) ss
            then match o with
                 | L2Out [L2Ev k ex te sq ten bs as_] =>
                     key_in k ss && exch_eqb ex e && Z.eqb te (l_E m) && N.eqb sq (l_u m)
                     && optZ_eqb ten (l2_expected_engine_time e m)
                     && levels_eqb bs (l_bids m) && levels_eqb as_ (l_asks m)
                 | _ => false
                 end
            else true)
       end) && l2_prop_run e subs snaps (l_sym m :: seen) tl
  end.

Definition l2_prop (e : exch) (subs : list sub) (snaps : list snap) (init_ok : bool)
           (msgs : list (l2msg * l2out)) : bool :=
  (* a snapshot for every subscribed instrument: init must succeed *)
  (if forallb (fun s => match snap_of snaps (fst s) with Some _ => true | None => false end) subs
   then init_ok else true) &&
  l2_prop_run e subs snaps [] msgs.

(** the driver's case type: one market stream, or one batch of builder-validation observations *)
Inductive case :=
| CStream (c : stream_case)
| CSupport (triples : list triple_obs) (batches : list (list dsub * vres))
| CL2 (e : exch) (subs : list sub) (omap : list (string * N)) (snaps : list snap) (init_ok : bool)
      (msgs : list (l2msg * l2out)).

Definition judge (c : case) : N :=
  match c with
  | CStream s => stream_judge s
  | CSupport ts bs =>
      judge_code (forallb triple_corr ts && forallb batch_corr bs)
                 (forallb triple_prop ts && forallb batch_prop bs) 0
  | CL2 e subs omap snaps init_ok msgs =>
      if l2_wf e subs
      then judge_code (l2_corr e subs omap snaps init_ok msgs) (l2_prop e subs snaps init_ok msgs) 0
      else 0%N
  end.
