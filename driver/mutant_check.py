#!/usr/bin/env python3
"""Run a check against a PATCHED PRIVATE COPY of /repo (development aid for canaries and seeded
changes; never part of a registered check). Nothing under /repo is touched and no lock is taken,
so any number of these can run in parallel.

  driver/mutant_check.py NAME [--reverse] PATCH -- Cxx [--tier quick|thorough]

NAME    a label for messages. The run takes a free slot of a fixed pool of 5 sandboxes
        /tmp/mut-pool-K/{repo,harness,build,...} (git worktree of /repo HEAD + copy of
        /verif/harness with its path dependencies rewritten + a copy of the warmed cargo target
        dir, created on first use) and waits when all slots are busy: disk use stays bounded.
PATCH   unified diff relative to the repository root (git apply); --reverse applies it with -R.
Exit status = the check's (1 + VIOLATION line when the change is detected). Evidence / replays
of the run land in the sandbox (path printed), not in /verif."""
import os
import re
import shutil
import subprocess
import sys

ROOT = os.path.dirname(os.path.dirname(os.path.abspath(__file__)))


def run(cmd, **kw):
    return subprocess.run(cmd, text=True, capture_output=True, **kw)


def main():
    a = sys.argv[1:]
    if len(a) < 4 or "--" not in a:
        sys.exit(__doc__)
    name = a[0]
    rest = a[1:a.index("--")]
    chk = a[a.index("--") + 1:]
    reverse = "--reverse" in rest
    patch = os.path.abspath([x for x in rest if x != "--reverse"][0])
    # a fixed pool of sandboxes bounds disk use (each holds a ~7 GB cargo target dir): take the
    # first free slot, wait if all are busy. NAME is only used in messages.
    import fcntl
    import time
    POOL = 3
    lockf = None
    while lockf is None:
        for k in range(POOL):
            f = open("/tmp/mut-pool-%d.lock" % k, "a")
            try:
                fcntl.flock(f, fcntl.LOCK_EX | fcntl.LOCK_NB)
                lockf, alt = f, "/tmp/mut-pool-%d" % k
                break
            except OSError:
                f.close()
        if lockf is None:
            time.sleep(5)
    print("[mutant_check] %s: using sandbox %s" % (name, alt), flush=True)
    repo = os.path.join(alt, "repo")
    os.makedirs(alt, exist_ok=True)
    for d in ("evidence", "replays", os.path.join("build", "cases")):
        shutil.rmtree(os.path.join(alt, d), ignore_errors=True)
    head = run(["git", "-C", "/repo", "rev-parse", "HEAD"]).stdout.strip()
    if not os.path.isdir(repo):
        r = run(["git", "-C", "/repo", "worktree", "add", "--detach", repo, head])
        if r.returncode != 0:
            sys.exit("worktree add failed: " + r.stderr)
    run(["git", "-C", repo, "checkout", "--detach", "-q", head])
    run(["git", "-C", repo, "checkout", "-q", "--", "."])
    run(["git", "-C", repo, "clean", "-fdq"])
    if os.path.basename(patch) != "none":      # PATCH "none": unpatched copy (seed / tier sweeps)
        r = run(["git", "-C", repo, "apply"] + (["-R"] if reverse else []) + [patch])
        if r.returncode != 0:
            sys.exit("patch does not apply to /repo HEAD: " + r.stderr)
    # private harness copy with rewritten path dependencies
    h = os.path.join(alt, "harness")
    run(["rsync", "-a", "--delete", "--exclude", "target", os.path.join(ROOT, "harness") + "/", h + "/"])
    for fn in ("Cargo.toml",):
        p = os.path.join(h, fn)
        s = open(p).read().replace('path = "/repo/', 'path = "%s/' % repo)
        open(p, "w").write(s)
    cfgp = os.path.join(h, ".cargo", "config.toml")
    s = open(cfgp).read().replace("/verif/build/target", os.path.join(alt, "build", "target"))
    open(cfgp, "w").write(s)
    tgt = os.path.join(alt, "build", "target")
    if not os.path.isdir(tgt):
        os.makedirs(os.path.join(alt, "build"), exist_ok=True)
        src = os.path.join(ROOT, "build", "target")
        if os.path.isdir(src):  # reuse the compiled registry crates
            subprocess.run(["cp", "-a", "--reflink=auto", src, tgt])
    env = dict(os.environ, VERIF_ALT=alt)
    rc = subprocess.run([os.path.join(ROOT, "check")] + chk, cwd=ROOT, env=env).returncode
    run(["git", "-C", repo, "checkout", "-q", "--", "."])
    run(["git", "-C", repo, "clean", "-fdq"])
    print("[mutant_check] %s: check exit status %d (1 = change detected)" % (os.path.basename(patch), rc))
    return rc


if __name__ == "__main__":
    sys.exit(main())
