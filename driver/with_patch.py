#!/usr/bin/env python3
"""Run a command with a patch temporarily applied to /repo's working tree (development aid for
testing the checks against seeded changes; never part of a registered check).

  driver/with_patch.py [--reverse] PATCH -- ./check C05 --tier quick

Takes the exclusive lock on /repo (running checks hold it shared), applies the patch with
`git -C /repo apply [-R]`, runs the command with VERIF_REPO_LOCK_HELD=1, and ALWAYS restores the
working tree afterwards (git apply -R of the same patch; falls back to `git checkout -- .`).
Exit status = the command's."""
import os
import subprocess
import sys

sys.path.insert(0, os.path.dirname(os.path.abspath(__file__)))
import core  # noqa: E402


def main():
    args = sys.argv[1:]
    reverse = False
    if args and args[0] == "--reverse":
        reverse = True
        args = args[1:]
    if "--" not in args:
        sys.exit(__doc__)
    k = args.index("--")
    patch = os.path.abspath(args[0])
    cmd = args[k + 1:]
    with core.Lock("repo"):
        st = subprocess.run(["git", "-C", "/repo", "status", "--porcelain", "--untracked-files=no"],
                            capture_output=True, text=True).stdout.strip()
        if st:
            sys.exit("refusing: /repo working tree has uncommitted changes:\n" + st)
        ap = ["git", "-C", "/repo", "apply"] + (["-R"] if reverse else []) + [patch]
        r = subprocess.run(ap, capture_output=True, text=True)
        if r.returncode != 0:
            sys.exit("patch does not apply: " + r.stderr)
        try:
            env = dict(os.environ, VERIF_REPO_LOCK_HELD="1")
            rc = subprocess.run(cmd, cwd=core.ROOT, env=env).returncode
        finally:
            un = ["git", "-C", "/repo", "apply"] + ([] if reverse else ["-R"]) + [patch]
            if subprocess.run(un, capture_output=True).returncode != 0:
                subprocess.run(["git", "-C", "/repo", "checkout", "--", "."])
            left = subprocess.run(["git", "-C", "/repo", "status", "--porcelain", "--untracked-files=no"],
                                  capture_output=True, text=True).stdout.strip()
            if left:
                print("WARNING: /repo not clean after restore:\n" + left, file=sys.stderr)
    print("[with_patch] command exit status: %d" % rc)
    return rc


if __name__ == "__main__":
    sys.exit(main())
