import json,sys,os,shutil
name=sys.argv[1]; detected=sys.argv[2] if len(sys.argv)>2 else "pending"
src="/tmp/seed-out/"+name
n=json.load(open(src+"/notes.json"))
dst="/verif/seeded/"+name
os.makedirs(dst,exist_ok=True)
shutil.copy(src+"/patch.diff",dst+"/patch.diff")
shutil.copy(src+"/demo.rs",dst+"/demo.rs")
meta={"property":n["property"],"what_it_breaks":n.get("what_it_breaks"),"needs_to_manifest":n.get("needs_to_manifest"),
 "why_existing_tests_pass":n.get("why_existing_tests_pass"),"demo_path":n.get("demo_path"),"demo_cmd":n.get("demo_cmd"),
 "author":"independent sub-agent given only the property text and a scratch worktree",
 "confirmed_by_coordinator":{"how":"build/confirm_seed.sh in scratch worktree /tmp/confirm: demo passes on the unchanged tree; with patch.diff applied `cargo test --workspace --lib --tests --no-fail-fast --offline` passes every pre-existing test (64+1+58+15+1) and only the demo fails","ok":True},
 "check_result":detected}
json.dump(meta,open(dst+"/meta.json","w"),indent=1)
print("kept",dst)
