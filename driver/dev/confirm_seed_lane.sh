#!/bin/bash
# usage: confirm_seed.sh <name e.g. c05-1>   ; confirms a seeded change in the scratch worktree /tmp/confirm
set -u
lane=$1; name=$2
src=/tmp/seed-out/$name
wt=/tmp/confirm-$lane
export CARGO_NET_OFFLINE=true CARGO_TARGET_DIR=/tmp/confirm-target-$lane CARGO_PROFILE_DEV_DEBUG=0 CARGO_PROFILE_TEST_DEBUG=0
[ -d $wt ] || git -C /repo worktree add -q --detach $wt HEAD
cd $wt && git checkout -q --detach $(git -C /repo rev-parse HEAD) && git checkout -q -- . && git clean -fdq
demo_path=$(python3 -c "import json;print(json.load(open('$src/notes.json'))['demo_path'])")
crate=$(echo $demo_path | cut -d/ -f1)
tname=$(basename $demo_path .rs)
mkdir -p $(dirname $demo_path) && cp $src/demo.rs $demo_path
echo "== [$name] demo WITHOUT change (expect pass)"
cargo test -p $crate --test $tname --offline 2>&1 | grep -E "^test result|error(\[|:)" | head -5
git apply $src/patch.diff || { echo "PATCH DOES NOT APPLY"; exit 1; }
echo "== [$name] full suite WITH change (expect only demo failing)"
cargo test --workspace --lib --tests --no-fail-fast --offline 2>&1 | grep -E "^test result|^test .* FAILED|error(\[|:)|Running" | head -40
git checkout -q -- . && git clean -fdq
