import json,sys
pid, k, angle = sys.argv[1], sys.argv[2], sys.argv[3] if len(sys.argv)>3 else ""
props={json.loads(l)['id']:json.loads(l) for l in open('/verif/properties.jsonl')}
p=props[pid]
wt="/tmp/seed-%s-%s"%(pid.lower(),k)
out="/tmp/seed-out/%s-%s"%(pid.lower(),k)
print(f"""You are helping test a verification tool. You have your own scratch git worktree of the Rust repository barter-rs (an event-driven algorithmic trading engine) at {wt} (a detached checkout of the current HEAD; work ONLY inside it and inside {out}; do not look at or touch /repo, /verif or any other directory).

The following semantic property is supposed to hold of this codebase:

  TITLE: {p['title']}
  STATEMENT: {p['statement']}
  IT QUANTIFIES OVER: {p['quantifier']['text']}

YOUR TASK: produce ONE realistic change to the repository's source code (a plausible-looking refactor, optimisation, "bug fix" or off-by-one that a reviewer could let through) that BREAKS this property while the workspace still compiles and the existing test suite still passes. The change should need something specific to manifest — a multi-step sequence of operations, an unusual input, a particular ordering/interleaving, a boundary value, or two cooperating sites that each look fine alone — not something ordinary use would expose at once. {angle}

Steps:
1. Read the relevant source in {wt} (find the code that makes the property hold) and the existing tests around it, so your change does not trip them.
2. Make the change (source files only: do not edit or delete existing tests; do not add cfg flags; keep it small — typically 1-15 changed lines, possibly in two places).
3. Write a demonstration: a NEW Rust integration test file placed in the appropriate crate's `tests/` directory (e.g. {wt}/barter/tests/seeded_demo.rs or {wt}/barter-data/tests/seeded_demo.rs; use only the crate's public API and its existing dev-dependencies) that exercises the public API with the specific input/sequence and asserts the property's expectation. It must FAIL with your change and PASS on the unchanged code.
4. Verify all of it yourself, offline, using a private target directory and no debug info to save disk:
     export CARGO_NET_OFFLINE=true CARGO_TARGET_DIR=/tmp/seedtarget-{pid.lower()}-{k} CARGO_PROFILE_DEV_DEBUG=0 CARGO_PROFILE_TEST_DEBUG=0
     cd {wt} && cargo test --workspace --lib --tests --no-fail-fast --offline      # with your change: every pre-existing test passes (clock::tests::test_historical_clock_time_delta_calculation is known-flaky, ignore it), only your demo fails
     save the source change with `git diff > /tmp/seed-out/<id>/patch.diff`, undo it with `git apply -R` of that file (keep the demo), run the demo test alone: it passes; then re-apply it with `git apply`. Do NOT use `git stash` (the stash is shared between worktrees and other people are working in sibling worktrees).
   NEVER run `cargo test --workspace` without `--lib --tests` (the examples take 50 GB).
5. Write the deliverables to {out}/ :
     patch.diff   — `git diff` of the SOURCE change only (without the demo file), applicable with `git apply` at the repository root
     demo.rs      — the demonstration test file, plus in notes.json its intended path relative to the repository root
     notes.json   — {{"property":"{pid}","demo_path":"<crate>/tests/seeded_demo.rs","demo_cmd":"cargo test -p <crate> --test seeded_demo --offline","what_it_breaks":"…","needs_to_manifest":"…","why_existing_tests_pass":"…","commands_run":["…"]}}
6. Clean up: `rm -rf /tmp/seedtarget-{pid.lower()}-{k}` when you are done (leave the worktree; the coordinator removes it).

Finish with a short report: the diff, the demo's essence, and the evidence (test output summaries) that (a) the suite passes with the change, (b) the demo fails with it, (c) the demo passes without it. If you cannot find a change that keeps the existing tests green, say so and explain which tests pin the behaviour.""")
