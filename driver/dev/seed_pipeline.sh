#!/bin/bash
# usage: seed_pipeline.sh <lane> name:PROP [name:PROP ...]   (confirm, run the check, keep)
lane=$1; shift
for s in "$@"; do n=${s%%:*}; p=${s##*:}
  echo "##### $n $p"
  CARGO_TARGET_DIR=/tmp/confirm-target-$lane /verif/driver/dev/confirm_seed_lane.sh $lane $n 2>&1 | grep -E "^== |FAILED$|DOES NOT APPLY|test result: ok. [1-9]|test result: FAILED" 
  VERIF_NPROC=8 /verif/driver/mutant_check.py lane$lane /tmp/seed-out/$n/patch.diff -- $p --tier quick 2>&1 | tail -4
  git -C /repo worktree remove --force /tmp/seed-$n 2>/dev/null
done
