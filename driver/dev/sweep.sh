#!/bin/bash
# usage: sweep.sh <tier> <seed> [props...]  — runs the checks on an UNPATCHED private copy (evidence in /verif untouched)
tier=$1; seed=$2; shift 2
props=${@:-C01 C02 C03 C04 C05 C06 C07 C08 C09 C10 C11 C12 C13 C14 C15 C16 C17 C18 C19 C20}
for p in $props; do
  VERIF_SEED=$seed VERIF_NPROC=${VERIF_NPROC:-8} /verif/driver/mutant_check.py sweep none -- $p --tier $tier 2>&1 | grep -E "tier=$tier|VIOLATION|BROKEN|Traceback|Error" 
done
