#!/usr/bin/env python3
"""Regenerate /verif/MANIFEST.json from driver/props/*.json (claimed properties) and
properties.jsonl (everything else goes to not_applicable with the reason given in
driver/not_applicable.json, default: not built yet). Usage: driver/mkmanifest.py [Cxx ...]
(optional list restricts the claimed set to those ids)."""
import json
import os
import sys

ROOT = os.path.dirname(os.path.dirname(os.path.abspath(__file__)))
props = [json.loads(l) for l in open(os.path.join(ROOT, "properties.jsonl"))]
cfg_dir = os.path.join(ROOT, "driver", "props")
have = {f[:-5] for f in os.listdir(cfg_dir) if f.endswith(".json")}
if len(sys.argv) > 1:
    have &= set(sys.argv[1:])
na_path = os.path.join(ROOT, "driver", "not_applicable.json")
na_reasons = json.load(open(na_path)) if os.path.exists(na_path) else {}
claimed = sorted(have - set(na_reasons))

m = {
    "version": 1,
    "setup_cmd": "./check --setup",
    "hooks": {
        "guard": "barter_rs_barter_rs_verif",
        "enable": "RUSTFLAGS=\"--cfg barter_rs_barter_rs_verif\" (set in /verif/harness/.cargo/config.toml and exported by /verif/driver/core.py for every harness build); no hook was needed: every observation point is public API",
        "baseline_off_cmd": "cd /repo && CARGO_NET_OFFLINE=true cargo test --workspace --lib --tests --no-fail-fast --offline",
        "source_commits": [],
        "add_only": True,
    },
    "engines": [
        {"name": "coq-development", "path": "/verif/coq", "serves_properties": claimed,
         "kind_free_text": "Coq 8.16.1 project: hand-written Gallina models (Model/), lemmas (Proofs/), property theorems (Props/), statement pins (Pins/), correspondence judges (Corr/)"},
        {"name": "rust-harness", "path": "/verif/harness", "serves_properties": claimed,
         "kind_free_text": "cargo workspace with path dependencies on /repo crates; one binary per property drives the real API on generated inputs and prints inputs + observed outputs as Coq terms"},
        {"name": "driver", "path": "/verif/driver", "serves_properties": claimed,
         "kind_free_text": "python3 stdlib driver: builds proofs, checks Print Assumptions / forbidden constructs, runs harness, shards cases over coqc, searches and shrinks failing inputs, writes evidence and replays"},
    ],
    "checks": [],
    "not_applicable": [],
    "notes": "See DESIGN.md. Each check = (1) machine-checked Coq theorems about a hand-written model of the anchored code, (2) differential correspondence of model vs /repo's working tree judged inside Coq (vm_compute), (3) known findings from known_findings.json.",
}
for p in props:
    pid = p["id"]
    if pid in claimed:
        cfg = json.load(open(os.path.join(cfg_dir, pid + ".json")))
        label = cfg.get("label", "full")
        text = ("Coq theorems (coq/Props/%s.v; kernel-checked, no axioms beyond those listed in the evidence) state the property "
                "for every input/history over a hand-written executable model of the anchored code; the model is tied to /repo's "
                "current source on every run by a differential correspondence check evaluated inside Coq (model output = "
                "implementation output, and the observed output satisfies an independent executable oracle of the property). "
                "Scope label: %s." % (pid, label))
        m["checks"].append({
            "property_id": pid,
            "quick_cmd": "./check %s --tier quick" % pid,
            "thorough_cmd": "./check %s --tier thorough" % pid,
            "evidence_file": "/verif/evidence/%s.json" % pid,
            "replay_cmd_template": "./check %s --replay {path}" % pid,
            "engine": "coq-development",
            "level_claimed": {"category": "proof", "text": text, "design_ref": "DESIGN.md section 6, %s" % pid},
            "level_note": ("Trusted: Coq kernel + vm_compute; the hand-written model and the modelling conventions of DESIGN.md section 3; "
                           "the Rust harness and Python driver; assurance for the code itself is bounded by the correspondence runs "
                           "(counts in the evidence). Hypotheses: " + "; ".join(cfg.get("assumptions", []))[:1500]),
            "technique": "machine-checked proof in Coq (Rocq) over a Gallina model + model/implementation correspondence check",
        })
    else:
        m["not_applicable"].append({"property_id": pid, "reason": na_reasons.get(
            pid, "check not built yet in this revision (the technique applies, see DESIGN.md section 6); not claimed")})
json.dump(m, open(os.path.join(ROOT, "MANIFEST.json"), "w"), indent=1)
print("claimed:", " ".join(claimed))
