"""Generic driver for the per-property checks (see DESIGN.md section 2).

Proof side   : make the property's Coq targets, scan for forbidden constructs, Print Assumptions.
Impl side    : cargo-build the property's harness against /repo's working tree, run it.
Judgement    : cases.v shards evaluated by coqc (vm_compute): the Coq definitions in Corr/Cxx.v
               decide, for every case, model-vs-implementation agreement and the property oracle.
Verdict      : VIOLATION / KNOWN-FINDING lines, replay files, evidence file.
Python standard library only.
"""
import concurrent.futures
import fcntl
import hashlib
import json
import os
import re
import shutil
import subprocess
import sys
import time

ROOT = os.path.dirname(os.path.dirname(os.path.abspath(__file__)))
COQ = os.path.join(ROOT, "coq")
# VERIF_ALT (development aid, set only by driver/mutant_check.py): run the check against a private
# copy of the harness whose path dependencies point to a patched scratch worktree of /repo, with
# private build / evidence / replay directories, so that seeded changes can be tested in parallel
# without ever touching /repo. Registered checks never set it.
ALT = os.environ.get("VERIF_ALT")
HARNESS = os.path.join(ALT or ROOT, "harness")
BUILD = os.path.join(ALT or ROOT, "build")
TARGET = os.path.join(BUILD, "target")
EVIDENCE = os.path.join(ALT or ROOT, "evidence")
REPLAYS = os.path.join(ALT or ROOT, "replays")
CORPUS = os.path.join(ROOT, "corpus")
GUARD = "barter_rs_barter_rs_verif"
NPROC = min(int(os.environ.get("VERIF_NPROC", "16")), os.cpu_count() or 4)
SHARD = 300
SHARD_BYTES = 150000

ENV = dict(os.environ)
ENV.update({"CARGO_NET_OFFLINE": "true", "CARGO_TARGET_DIR": TARGET,
            "RUSTFLAGS": (os.environ.get("RUSTFLAGS", "") + " --cfg " + GUARD).strip(),
            "CARGO_TERM_COLOR": "never"})


def log(msg):
    print(msg, flush=True)


def sh(cmd, timeout, cwd=None, env=None):
    """run a command under a hard timeout; returns (rc, combined output)"""
    try:
        p = subprocess.run(cmd, cwd=cwd, env=env or ENV, stdout=subprocess.PIPE,
                           stderr=subprocess.STDOUT, timeout=timeout, text=True, errors="replace")
        return p.returncode, p.stdout
    except subprocess.TimeoutExpired as e:
        out = e.stdout if isinstance(e.stdout, str) else (e.stdout or b"").decode(errors="replace")
        return 124, (out or "") + "\n[timeout after %ss]" % timeout


class Lock:
    def __init__(self, name, shared=False, root=None):
        d = os.path.join(root, "build") if root else BUILD
        os.makedirs(d, exist_ok=True)
        self.path = os.path.join(d, "lock." + name)
        self.shared = shared

    def __enter__(self):
        self.f = open(self.path, "a")
        fcntl.flock(self.f, fcntl.LOCK_SH if self.shared else fcntl.LOCK_EX)
        return self

    def __exit__(self, *a):
        fcntl.flock(self.f, fcntl.LOCK_UN)
        self.f.close()


# ---------------------------------------------------------------------------------------------
# Coq side
# ---------------------------------------------------------------------------------------------

def strip_coq_comments(src):
    """remove (* ... *) comments (nested) and string literals"""
    out = []
    i, n, depth = 0, len(src), 0
    in_str = False
    while i < n:
        c = src[i]
        if in_str:
            if c == '"':
                in_str = False
            i += 1
            continue
        if src.startswith("(*", i):
            depth += 1
            i += 2
            continue
        if depth and src.startswith("*)", i):
            depth -= 1
            i += 2
            continue
        if depth:
            if c == "\n":
                out.append("\n")
            i += 1
            continue
        if c == '"':
            in_str = True
            i += 1
            continue
        out.append(c)
        i += 1
    return "".join(out)


FORBIDDEN = re.compile(
    r"\b(Admitted|admit|Axiom|Axioms|Parameter|Parameters|Conjecture|Conjectures|Admit\s+Obligations)\b"
    r"|Unset\s+Guard\s+Checking|Unset\s+Positivity\s+Checking|Unset\s+Universe\s+Checking"
    r"|bypass_check|type-in-type|impredicative-set|native_compute")
SECTION_ONLY = re.compile(r"^\s*(Variable|Variables|Hypothesis|Hypotheses|Context)\b", re.M)


def scan_forbidden():
    """scan every .v of the development (and _CoqProject); returns list of findings"""
    bad = []
    for d, _, fs in os.walk(COQ):
        for f in fs:
            if not f.endswith(".v"):
                continue
            p = os.path.join(d, f)
            src = strip_coq_comments(open(p).read())
            for m in FORBIDDEN.finditer(src):
                line = src.count("\n", 0, m.start()) + 1
                bad.append("%s:%d: %s" % (os.path.relpath(p, ROOT), line, m.group(0)))
            # Variable / Hypothesis are allowed only between Section ... End
            depth = 0
            for ln, text in enumerate(src.split("\n"), 1):
                if re.match(r"^\s*Section\b", text):
                    depth += 1
                elif re.match(r"^\s*End\b", text) and depth:
                    depth -= 1
                elif SECTION_ONLY.match(text) and depth == 0:
                    bad.append("%s:%d: %s outside a Section" % (os.path.relpath(p, ROOT), ln, text.strip()))
    proj = open(os.path.join(COQ, "_CoqProject")).read()
    for m in re.finditer(r"type-in-type|impredicative-set|bypass", proj):
        bad.append("_CoqProject: " + m.group(0))
    return bad


def coq_makefile():
    mk = os.path.join(COQ, "Makefile")
    proj = os.path.join(COQ, "_CoqProject")
    if (not os.path.exists(mk)) or os.path.getmtime(mk) < os.path.getmtime(proj):
        rc, out = sh(["coq_makefile", "-f", "_CoqProject", "-o", "Makefile"], 120, cwd=COQ)
        if rc != 0:
            raise RuntimeError("coq_makefile failed:\n" + out)


def coq_make(targets, timeout=1500):
    """full .vo build of the given targets (never -vos). returns (ok, output)"""
    with Lock("coq", root=ROOT):
        coq_makefile()
        rc, out = sh(["make", "-j%d" % NPROC] + targets, timeout, cwd=COQ)
    return rc == 0, out


def coq_run(vfile, timeout=600):
    return sh(["coqc", "-noglob", "-w", "none", "-Q", COQ, "BV", vfile], timeout, cwd=os.path.dirname(vfile))


def print_assumptions(pid, module, theorems):
    """returns {theorem: [axiom names]} using a generated file that imports the compiled Props"""
    d = os.path.join(BUILD, "assump")
    os.makedirs(d, exist_ok=True)
    vf = os.path.join(d, "A_%s_%d.v" % (pid, os.getpid()))
    with open(vf, "w") as f:
        f.write("From BV Require Import %s.\n" % module)
        for t in theorems:
            f.write("Print Assumptions %s.\n" % t)
    rc, out = coq_run(vf, 300)
    for ext in (".v", ".vo", ".vok", ".vos", ".glob"):
        try:
            os.remove(vf[:-2] + ext)
        except OSError:
            pass
    if rc != 0:
        return None, out
    res, cur, idx = {}, None, -1
    for line in out.split("\n"):
        if line.startswith("Closed under the global context"):
            idx += 1
            res[theorems[idx]] = []
            cur = None
        elif line.startswith("Axioms:"):
            idx += 1
            cur = res.setdefault(theorems[idx], [])
        elif cur is not None:
            m = re.match(r"^([A-Za-z_][\w.']*)\s*:", line)
            if m:
                cur.append(m.group(1))
    if len(res) != len(theorems):
        return None, "could not parse Print Assumptions output:\n" + out
    return res, out


def coqchk(modules, timeout=1800):
    rc, out = sh(["coqchk", "-silent", "-o", "-Q", COQ, "BV"] + modules, timeout, cwd=COQ)
    return rc == 0, out


# ---------------------------------------------------------------------------------------------
# Harness side
# ---------------------------------------------------------------------------------------------

def cargo_build(pkg, timeout=2400):
    with Lock("cargo"):
        rc, out = sh(["cargo", "build", "--offline", "-p", pkg], timeout, cwd=HARNESS)
    return rc == 0, out


def harness_bin(pkg):
    return os.path.join(TARGET, "debug", pkg)


def harness_gen(pkg, seed, tier, out, timeout=1800):
    rc, o = sh([harness_bin(pkg), "gen", "--seed", str(seed), "--tier", tier, "--out", out], timeout)
    return rc == 0, o


def harness_exec(pkg, infile, out, timeout=900):
    rc, o = sh([harness_bin(pkg), "exec", "--in", infile, "--out", out], timeout)
    return rc == 0, o


def read_cases(path):
    cases = []
    with open(path) as f:
        for line in f:
            line = line.strip()
            if line:
                cases.append(json.loads(line))
    return cases


# ---------------------------------------------------------------------------------------------
# Judgement
# ---------------------------------------------------------------------------------------------

PAIR = re.compile(r"\(\s*(\d+)(?:%N)?\s*,\s*(\d+)(?:%N)?\s*\)")
SENTINEL = 4000000007  # a pair (SENTINEL, 7) is appended to every verdict list: parsing is checked, not assumed


def judge_cases(pid, corr_module, cases, workdir, timeout=900):
    """evaluate Corr.judge on every case inside coqc. returns ({index: code}, errors)"""
    os.makedirs(workdir, exist_ok=True)
    # shard by size: coqc spends ~40 s per MB of case text, so keep shards small and run 16 at once
    shards, cur, cur_bytes = [], [], 0
    for idx, c in enumerate(cases):
        if cur and (cur_bytes + len(c["coq"]) > SHARD_BYTES or len(cur) >= SHARD):
            shards.append(cur)
            cur, cur_bytes = [], 0
        cur.append((idx, c))
        cur_bytes += len(c["coq"])
    if cur:
        shards.append(cur)
    jobs = []
    for k, sh_cases in enumerate(shards):
        vf = os.path.join(workdir, "cases_%s_%d.v" % (pid, k))
        with open(vf, "w") as f:
            f.write("From BV Require Import Base.Common %s.\n" % corr_module)
            f.write("Definition cases : list (N * case) := [\n")
            f.write(";\n".join("(%d%%N, %s)" % (idx, c["coq"]) for idx, c in sh_cases))
            f.write("\n].\n")
            f.write("Definition verdicts := Eval vm_compute in (judge_all judge cases ++ [(%d%%N, 7%%N)])%%list.\n" % SENTINEL)
            f.write("Print verdicts.\n")
        jobs.append(vf)
    codes, errors = {}, []

    def run(vf):
        return vf, coq_run(vf, timeout)

    with concurrent.futures.ThreadPoolExecutor(max_workers=NPROC) as ex:
        for vf, (rc, out) in ex.map(run, jobs):
            if rc != 0:
                errors.append("%s: rc=%d\n%s" % (os.path.basename(vf), rc, out[-3000:]))
                continue
            if "verdicts =" not in out:
                errors.append("%s: no verdicts in output\n%s" % (os.path.basename(vf), out[-2000:]))
                continue
            seen_sentinel = False
            for m in PAIR.finditer(out[out.index("verdicts ="):]):
                if int(m.group(1)) == SENTINEL and int(m.group(2)) == 7:
                    seen_sentinel = True
                else:
                    codes[int(m.group(1))] = int(m.group(2))
            if not seen_sentinel:
                errors.append("%s: verdict list could not be parsed (sentinel missing)\n%s" % (os.path.basename(vf), out[-1500:]))
    return codes, errors


# ---------------------------------------------------------------------------------------------
# Shrinking (generic over the JSON input: delete array elements while the verdict class stays)
# ---------------------------------------------------------------------------------------------

def _arrays(v, path=()):
    if isinstance(v, list):
        yield path, v
        for i, x in enumerate(v):
            yield from _arrays(x, path + (i,))
    elif isinstance(v, dict):
        for k, x in v.items():
            yield from _arrays(x, path + (k,))


def _delete(v, path, idx):
    v = json.loads(json.dumps(v))
    cur = v
    for p in path:
        cur = cur[p]
    del cur[idx]
    return v


def shrink(cfg, case, code, workdir, rounds=12, max_cands=120, known=()):
    """greedy delta-debugging: returns the smallest input found that still gets a verdict in the
    same class (violation stays violation, disagreement stays disagreement; a case that only
    exhibits a listed known finding counts as ok, so a genuine violation is never shrunk down
    to the known one)."""
    def klass(c):
        if c == 0 or (c >= 100 and (c - 100) in known):
            return "ok"
        return "corr" if c == 1 else "prop"
    want = klass(code)
    best = case
    os.makedirs(workdir, exist_ok=True)
    for rnd in range(rounds):
        cands = []
        for path, arr in _arrays(best["input"]):
            if len(arr) == 0 or (arr and not isinstance(arr[0], (list, dict)) and len(path) and False):
                continue
            for i in range(len(arr)):
                cands.append(_delete(best["input"], path, i))
                if len(cands) >= max_cands:
                    break
            if len(cands) >= max_cands:
                break
        if not cands:
            break
        inf = os.path.join(workdir, "shrink_in_%d.jsonl" % rnd)
        outf = os.path.join(workdir, "shrink_out_%d.jsonl" % rnd)
        with open(inf, "w") as f:
            for c in cands:
                f.write(json.dumps({"input": c}) + "\n")
        ok, _ = harness_exec(cfg["pkg"], inf, outf, 300)
        if not ok:
            break
        got = read_cases(outf)
        codes, errs = judge_cases(cfg["id"], cfg["corr_module"], got, os.path.join(workdir, "shrink_%d" % rnd), 300)
        if errs:
            break
        found = None
        for i, g in enumerate(got):
            if klass(codes.get(i, 0)) == want:
                if found is None or len(json.dumps(g["input"])) < len(json.dumps(found[0]["input"])):
                    found = (g, codes.get(i, 0))
        if found is None:
            break
        best = found[0]
        best["code"] = found[1]
    return best


# ---------------------------------------------------------------------------------------------
# Known findings
# ---------------------------------------------------------------------------------------------

def load_known():
    p = os.path.join(ROOT, "known_findings.json")
    if not os.path.exists(p):
        return {"findings": [], "fixed": []}
    return json.load(open(p))


# ---------------------------------------------------------------------------------------------
# The check
# ---------------------------------------------------------------------------------------------

def write_replay(pid, seed, name, payload):
    os.makedirs(REPLAYS, exist_ok=True)
    p = os.path.join(REPLAYS, "%s-%s-%s.json" % (pid, seed, name))
    with open(p, "w") as f:
        json.dump(payload, f, indent=1)
    return p


def run_check(cfg, tier, seed):
    """Holds a shared lock on /repo for the duration of the check so that driver/with_patch.py
    (which temporarily patches /repo under an exclusive lock while testing a seeded change) never
    changes the sources under a running check."""
    if os.environ.get("VERIF_REPO_LOCK_HELD") == "1" or ALT:
        return _run_check(cfg, tier, seed)
    with Lock("repo", shared=True):
        return _run_check(cfg, tier, seed)


def _run_check(cfg, tier, seed):
    t0 = time.time()
    pid = cfg["id"]
    work = os.path.join(BUILD, "cases", pid, tier)
    shutil.rmtree(work, ignore_errors=True)
    os.makedirs(work, exist_ok=True)
    violations = []       # (replay_path, suffix)
    known_lines = []
    broken = []           # names of theorems / correspondences that no longer check
    notes = []

    # ---- 1. proof side -------------------------------------------------------------------
    targets = cfg["coq_targets"]
    ok, out = coq_make(targets)
    obligations = list(cfg["theorems"]) + ["Pins/%s.v (statement pins)" % pid]
    discharged = 0
    assumptions = {}
    if not ok:
        broken.append("coq build of %s failed" % " ".join(targets))
        notes.append(out[-4000:])
    else:
        bad = scan_forbidden()
        if bad:
            broken.append("forbidden construct in the Coq development: " + "; ".join(bad[:10]))
        res, aout = print_assumptions(pid, cfg["props_module"], cfg["theorems"])
        if res is None:
            broken.append("Print Assumptions failed")
            notes.append(aout[-3000:])
        else:
            assumptions = res
            allow = set(cfg.get("axiom_allowlist", []))
            for t, axs in res.items():
                extra = [a for a in axs if a not in allow]
                if extra:
                    broken.append("theorem %s depends on unlisted axioms %s" % (t, extra))
                else:
                    discharged += 1
            if not bad and os.path.exists(os.path.join(COQ, "Pins", pid + ".vo")):
                discharged += 1
    chk_out = None
    if tier == "thorough" and ok:
        cok, chk_out = coqchk(cfg["coqchk_modules"])
        if not cok:
            broken.append("coqchk failed")
            notes.append(chk_out[-3000:])
        else:
            m = re.search(r"\* Axioms:\s*(.*?)(\n\s*\n|\Z)", chk_out, re.S)
            notes.append("coqchk axioms: " + (m.group(1).strip() if m else "?"))

    # ---- 2. implementation side ------------------------------------------------------------
    cases = []
    harness_ok, bout = cargo_build(cfg["pkg"])
    if not harness_ok:
        broken.append("correspondence harness %s no longer builds against /repo" % cfg["pkg"])
        notes.append(bout[-4000:])
    else:
        corpus_dir = os.path.join(CORPUS, pid)
        if os.path.isdir(corpus_dir):
            cin = os.path.join(work, "corpus_in.jsonl")
            with open(cin, "w") as f:
                for fn in sorted(os.listdir(corpus_dir)):
                    if fn.endswith(".json"):
                        j = json.load(open(os.path.join(corpus_dir, fn)))
                        f.write(json.dumps({"input": j["input"], "stream": "corpus"}) + "\n")
            cout = os.path.join(work, "corpus_out.jsonl")
            okc, o = harness_exec(cfg["pkg"], cin, cout)
            if okc:
                cases += read_cases(cout)
            else:
                broken.append("harness exec on corpus failed")
                notes.append(o[-2000:])
        gout = os.path.join(work, "gen.jsonl")
        okg, o = harness_gen(cfg["pkg"], seed, tier, gout)
        if okg:
            cases += read_cases(gout)
        else:
            broken.append("harness gen failed (rc!=0)")
            notes.append(o[-3000:])

    # ---- 3. judgement ------------------------------------------------------------------------
    codes = {}
    judged = False
    if cases and ok:
        codes, errs = judge_cases(pid, cfg["corr_module"], cases, os.path.join(work, "judge"))
        judged = not errs
        if errs:
            broken.append("coqc failed on generated cases (%d shards)" % len(errs))
            notes += errs[:3]

    known = load_known()
    known_classes = {f["class"]: f for f in known.get("findings", []) if f["property"] == pid}
    prop_fail = [(i, c) for i, c in sorted(codes.items()) if c == 2 or c >= 100]
    corr_fail = [(i, c) for i, c in sorted(codes.items()) if c == 1]
    unknown_fail = []
    seen_known = {}
    for i, c in prop_fail:
        if c >= 100 and (c - 100) in known_classes:
            seen_known.setdefault(c - 100, []).append(i)
        else:
            unknown_fail.append((i, c))
    for k in sorted(known_classes):
        known_lines.append("KNOWN-FINDING: property=%s %s (class %d; observed in %d cases this run)"
                           % (pid, known_classes[k]["what"], k, len(seen_known.get(k, []))))

    # ---- 4. verdict ---------------------------------------------------------------------------
    def case_payload(c, code):
        return {"input": c["input"], "coq": c["coq"], "stream": c.get("stream"), "verdict_code": code}

    if unknown_fail:
        i, c = min(unknown_fail, key=lambda ic: len(cases[ic[0]]["coq"]))
        small = shrink(cfg, dict(cases[i], code=c), c, os.path.join(work, "shrink"), known=set(known_classes))
        rp = write_replay(pid, seed, "violation", {
            "property": pid, "kind": "failing-input", "tier": tier, "seed": seed,
            "what": "the implementation's observed behaviour violates the property oracle (Corr/%s.v prop_b)" % pid,
            "case": case_payload(small, small.get("code", c)),
            "original_case": case_payload(cases[i], c),
            "failing_cases_this_run": len(unknown_fail),
            "replay_cmd": "./check %s --replay <this file>" % pid})
        violations.append((rp, ""))
    elif corr_fail or broken:
        # the property is no longer shown to hold: search for a failing input
        found = None
        if harness_ok and ok:
            extra = 6 if tier == "thorough" else 3
            for s in range(1, extra + 1):
                g2 = os.path.join(work, "search_%d.jsonl" % s)
                okg, _ = harness_gen(cfg["pkg"], seed + 7919 * s, "thorough" if s > 1 else tier, g2)
                if not okg:
                    continue
                cs2 = read_cases(g2)
                codes2, errs2 = judge_cases(pid, cfg["corr_module"], cs2, os.path.join(work, "search_%d" % s))
                bad2 = [(i, c) for i, c in sorted(codes2.items())
                        if c == 2 or (c >= 100 and (c - 100) not in known_classes)]
                if bad2:
                    i, c = min(bad2, key=lambda ic: len(cs2[ic[0]]["coq"]))
                    found = (cs2[i], c)
                    break
                if time.time() - t0 > (1500 if tier == "thorough" else 420):
                    break
        if found:
            small = shrink(cfg, dict(found[0], code=found[1]), found[1], os.path.join(work, "shrink"), known=set(known_classes))
            rp = write_replay(pid, seed, "violation", {
                "property": pid, "kind": "failing-input", "tier": tier, "seed": seed,
                "what": "model/implementation disagreement led to a failing input found by search",
                "case": case_payload(small, small.get("code", found[1])),
                "broken": broken, "replay_cmd": "./check %s --replay <this file>" % pid})
            violations.append((rp, ""))
        else:
            payload = {"property": pid, "kind": "no-failing-input-found", "tier": tier, "seed": seed,
                       "broken": broken or ["correspondence Corr/%s.v corr_b : model and implementation disagree" % pid],
                       "theorems_affected": cfg["theorems"],
                       "disagreeing_cases_this_run": len(corr_fail), "notes": notes[:3]}
            if corr_fail:
                i, c = min(corr_fail, key=lambda ic: len(cases[ic[0]]["coq"]))
                small = shrink(cfg, dict(cases[i], code=c), c, os.path.join(work, "shrink"), known=set(known_classes))
                payload["smallest_disagreeing_case"] = case_payload(small, 1)
                payload["replay_cmd"] = "./check %s --replay <this file>" % pid
            rp = write_replay(pid, seed, "unproved", payload)
            violations.append((rp, " no-failing-input-found"))

    # ---- 5. evidence ----------------------------------------------------------------------------
    nontrivial = set()
    tags, streams = {}, {}
    for c in cases:
        if c.get("nontrivial"):
            nontrivial.add(hashlib.sha1(c["coq"].encode()).hexdigest())
        for t in c.get("tags", []):
            tags[t] = tags.get(t, 0) + 1
        streams[c.get("stream", "?")] = streams.get(c.get("stream", "?"), 0) + 1
    samples = []
    for st in ("table", "random", "adversarial", "corpus"):
        for c in cases:
            if c.get("stream") == st and len(c["coq"]) < 1500:
                samples.append({"stream": st, "input": c["input"], "coq_case": c["coq"]})
                break
    if not samples and cases:
        samples.append({"input": cases[0]["input"], "coq_case": cases[0]["coq"][:2000]})
    if not samples:
        samples.append({"note": "no cases could be run", "broken": broken})
    wall = time.time() - t0
    ev = {
        "property_id": pid, "tier": tier, "seed": seed, "level": "proof",
        "coverage": {
            "obligations": len(obligations), "discharged": discharged,
            "obligation_names": obligations,
            "checker_cmd": "make -C /verif/coq %s  (coqc 8.16.1, full .vo build) + Print Assumptions per theorem%s"
                           % (" ".join(targets), "; coqchk -o on the closure" if tier == "thorough" else ""),
            "trusted_base": cfg["trusted_base"],
            "print_assumptions": {t: (a if a else "Closed under the global context") for t, a in assumptions.items()},
            "label": cfg.get("label", "full"),
            "evaluations": len(cases),
            "traces_validated_against_impl": (len(cases) - len([1 for c in codes.values() if c != 0])) if judged else 0,
            "distinct_nontrivial": len(nontrivial),
            "rule": cfg["rule"],
            "input_distribution": {"streams": streams, "tags": tags},
            "model_impl_disagreements": len(corr_fail),
            "oracle_failures": len(unknown_fail),
            "known_finding_cases": {str(k): len(v) for k, v in seen_known.items()},
            "samples": samples,
            "notes": notes[:5],
        },
        "assumptions": cfg.get("assumptions", []),
        "wall_s": round(wall, 1),
        "violations": len(violations),
    }
    os.makedirs(EVIDENCE, exist_ok=True)
    with open(os.path.join(EVIDENCE, pid + ".json"), "w") as f:
        json.dump(ev, f, indent=1)

    for l in known_lines:
        log(l)
    n_known = sum(len(v) for v in seen_known.values())
    log("%s tier=%s seed=%d: obligations %d/%d, cases %d (distinct non-trivial %d), disagreements %d, oracle failures %d%s, %.0fs"
        % (pid, tier, seed, discharged, len(obligations), len(cases), len(nontrivial), len(corr_fail), len(unknown_fail),
           (" (+%d cases of listed known findings)" % n_known) if n_known else "", wall))
    for b in broken:
        log("BROKEN: " + b)
    for rp, suffix in violations:
        log("VIOLATION property=%s replay=%s%s" % (pid, rp, suffix))
    return 1 if violations else 0


def run_replay(cfg, path):
    pid = cfg["id"]
    j = json.load(open(path))
    c = j.get("case") or j.get("smallest_disagreeing_case")
    if c is None:
        log("replay file names what no longer checks, there is no input to replay: %s" % j.get("broken"))
        return 1
    work = os.path.join(BUILD, "cases", pid, "replay")
    shutil.rmtree(work, ignore_errors=True)
    os.makedirs(work, exist_ok=True)
    ok, out = coq_make(cfg["coq_targets"])
    if not ok:
        log(out[-3000:])
        return 1
    okb, bout = cargo_build(cfg["pkg"])
    if not okb:
        log(bout[-3000:])
        return 1
    inf = os.path.join(work, "in.jsonl")
    with open(inf, "w") as f:
        f.write(json.dumps({"input": c["input"]}) + "\n")
    outf = os.path.join(work, "out.jsonl")
    okx, o = harness_exec(cfg["pkg"], inf, outf)
    if not okx:
        log(o[-3000:])
        return 1
    got = read_cases(outf)
    codes, errs = judge_cases(pid, cfg["corr_module"], got, os.path.join(work, "judge"))
    if errs:
        log("\n".join(errs))
        return 1
    code = codes.get(0, 0)
    log("input: " + json.dumps(c["input"]))
    log("observed (Coq case): " + got[0]["coq"])
    meaning = {0: "ok: model and implementation agree and the oracle holds",
               1: "model and implementation disagree (oracle still satisfied)",
               2: "PROPERTY ORACLE FAILS on the implementation's behaviour"}
    log("verdict code %d: %s" % (code, meaning.get(code, "oracle fails inside known-finding class %d" % (code - 100))))
    if code == 0:
        return 0
    known_classes = {f["class"]: f for f in load_known().get("findings", []) if f["property"] == pid}
    if code >= 100 and (code - 100) in known_classes:
        log("KNOWN-FINDING: property=%s %s" % (pid, known_classes[code - 100]["what"]))
        return 0
    log("VIOLATION property=%s replay=%s" % (pid, path))
    return 1
