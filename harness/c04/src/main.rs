//! C04 correspondence harness: generate_execution_instrument_map for every exchange of generated
//! instrument collections, every find_xxx of the map, AccountEventIndexer::{order_request,
//! order_key, trade, asset_balance, account_event}, and the running execution system
//! (ExecutionBuilder + ExecutionManager around recording stub clients). Printed as Coq terms of
//! type `case` (Corr/C04.v).
use barter::{
    engine::execution_tx::ExecutionTxMap,
    execution::{AccountStreamEvent, builder::ExecutionBuilder, request::ExecutionRequest},
};
use barter_execution::{
    AccountEvent, AccountEventKind, AccountSnapshot, InstrumentAccountSnapshot,
    balance::{AssetBalance, Balance},
    error::{ApiError, ConnectivityError, KeyError, OrderError},
    indexer::AccountEventIndexer,
    map::{ExecutionInstrumentMap, generate_execution_instrument_map},
    order::{
        Order, OrderEvent, OrderKey, OrderKind, TimeInForce,
        id::{ClientOrderId, OrderId, StrategyId},
        request::{OrderResponseCancel, RequestCancel, RequestOpen},
        state::{ActiveOrderState, CancelInFlight, Cancelled, InactiveOrderState, Open, OpenInFlight, OrderState},
    },
    trade::{AssetFees, Trade, TradeId},
};
use barter_data::streams::reconnect::Event;
use barter_instrument::{
    Side,
    asset::{AssetIndex, QuoteAsset, name::AssetNameExchange},
    exchange::{ExchangeId, ExchangeIndex},
    index::{IndexedInstruments, error::IndexError},
    instrument::{InstrumentIndex, name::InstrumentNameExchange},
};
use barter_integration::{channel::Tx, snapshot::Snapshot};
use rust_decimal::Decimal;
use serde_json::json;
use std::{
    panic::AssertUnwindSafe,
    sync::{Arc, Mutex},
    time::Duration,
};
use verif_c11::{stub::*, *};
use vh_common::*;

const BAD: u128 = 1_000_000; // payload was not carried through unchanged

fn pairs(v: &[(String, String)]) -> String {
    list(&v.iter().map(|(a, b)| format!("({}, {})", a, b)).collect::<Vec<_>>())
}
fn cid(tag: u64) -> ClientOrderId {
    ClientOrderId::new(format!("c{tag}"))
}
fn tag_of(prefix: char, s: &str) -> u128 {
    s.strip_prefix(prefix).and_then(|t| t.parse::<u128>().ok()).unwrap_or(BAD)
}
fn strategy() -> StrategyId {
    StrategyId::new("strat")
}

// ---- generic printers over the key types (used for the input and for the output) -------------

struct Keys<'a, E, A, I> {
    e: &'a dyn Fn(&E) -> String,
    a: &'a dyn Fn(&A) -> String,
    i: &'a dyn Fn(&I) -> String,
}

fn coq_api<E, A, I>(e: &ApiError<A, I>, k: &Keys<E, A, I>) -> String {
    match e {
        ApiError::RateLimit => "AERateLimit".into(),
        ApiError::AssetInvalid(a, s) if s == "v" => format!("(AEAssetInvalid {})", (k.a)(a)),
        ApiError::InstrumentInvalid(i, s) if s == "v" => format!("(AEInstrumentInvalid {})", (k.i)(i)),
        ApiError::BalanceInsufficient(a, s) if s == "v" => format!("(AEBalanceInsufficient {})", (k.a)(a)),
        ApiError::OrderRejected(s) if s == "v" => "(AEOther 0)".into(),
        ApiError::OrderAlreadyCancelled => "(AEOther 1)".into(),
        ApiError::OrderAlreadyFullyFilled => "(AEOther 2)".into(),
        _ => format!("(AEOther {})", BAD),
    }
}
fn coq_order_error<E, A, I>(e: &OrderError<A, I>, k: &Keys<E, A, I>) -> String {
    match e {
        OrderError::Connectivity(_) => "OEConnectivity".into(),
        OrderError::Rejected(a) => format!("(OERejected {})", coq_api(a, k)),
    }
}
fn coq_key<E, A, I>(key: &OrderKey<E, I>, k: &Keys<E, A, I>) -> String {
    let t = if key.strategy == strategy() { tag_of('c', key.cid.0.as_str()) } else { BAD };
    format!("({}, {}, {})", (k.e)(&key.exchange), (k.i)(&key.instrument), t)
}
fn coq_state<E, A, I>(s: &OrderState<A, I>, k: &Keys<E, A, I>) -> String {
    match s {
        OrderState::Active(_) => "OSActive".into(),
        OrderState::Inactive(InactiveOrderState::OpenFailed(e)) => {
            format!("(OSOpenFailed {})", coq_order_error(e, k))
        }
        OrderState::Inactive(InactiveOrderState::Cancelled(_)) => "OSCancelled".into(),
        OrderState::Inactive(InactiveOrderState::FullyFilled) => "OSFullyFilled".into(),
        OrderState::Inactive(InactiveOrderState::Expired) => "OSExpired".into(),
    }
}
fn payload_ok<E, I, S>(o: &Order<E, I, S>) -> bool {
    o.side == Side::Buy
        && o.price == Decimal::new(100, 0)
        && o.quantity == Decimal::new(2, 0)
        && o.kind == OrderKind::Limit
        && o.time_in_force == (TimeInForce::GoodUntilCancelled { post_only: false })
}
fn coq_snap<E, A, I>(o: &Order<E, I, OrderState<A, I>>, k: &Keys<E, A, I>) -> String {
    if payload_ok(o) {
        format!("({}, {})", coq_key(&o.key, k), coq_state(&o.state, k))
    } else {
        format!("(({}, {}, {}), {})", (k.e)(&o.key.exchange), (k.i)(&o.key.instrument), BAD, coq_state(&o.state, k))
    }
}
fn coq_balance<E, A, I>(b: &AssetBalance<A>, k: &Keys<E, A, I>) -> String {
    let t = if b.time_exchange == t0() && b.balance.free == Decimal::ZERO {
        u128::try_from(b.balance.total.mantissa()).unwrap_or(BAD)
    } else {
        BAD
    };
    format!("({}, {})", (k.a)(&b.asset), t)
}
fn coq_trade<E, A, I>(t: &Trade<QuoteAsset, I>, k: &Keys<E, A, I>) -> String {
    let ok = t.order_id == OrderId::new("o")
        && t.strategy == strategy()
        && t.time_exchange == t0()
        && t.side == Side::Sell
        && t.price == Decimal::new(7, 0)
        && t.quantity == Decimal::new(3, 0)
        && t.fees == AssetFees::quote_fees(Decimal::new(1, 2));
    let tag = if ok { tag_of('t', t.id.0.as_str()) } else { BAD };
    format!("({}, {})", (k.i)(&t.instrument), tag)
}
fn coq_kind<E, A, I>(kind: &AccountEventKind<E, A, I>, k: &Keys<E, A, I>) -> String {
    match kind {
        AccountEventKind::Snapshot(s) => format!(
            "(EKSnapshot {} {} {})",
            (k.e)(&s.exchange),
            list(&s.balances.iter().map(|b| coq_balance(b, k)).collect::<Vec<_>>()),
            list(
                &s.instruments
                    .iter()
                    .map(|i| format!(
                        "({}, {})",
                        (k.i)(&i.instrument),
                        list(&i.orders.iter().map(|o| coq_snap(o, k)).collect::<Vec<_>>())
                    ))
                    .collect::<Vec<_>>()
            )
        ),
        AccountEventKind::BalanceSnapshot(b) => format!("(EKBalance {})", coq_balance(&b.0, k)),
        AccountEventKind::OrderSnapshot(o) => format!("(EKOrder {})", coq_snap(&o.0, k)),
        AccountEventKind::OrderCancelled(r) => format!(
            "(EKCancelled {} {})",
            coq_key(&r.key, k),
            match &r.state {
                Ok(_) => "None".to_string(),
                Err(e) => format!("(Some {})", coq_order_error(e, k)),
            }
        ),
        AccountEventKind::Trade(t) => format!("(EKTrade {})", coq_trade(t, k)),
    }
}
fn coq_event<E, A, I>(ev: &AccountEvent<E, A, I>, k: &Keys<E, A, I>) -> String {
    format!("({}, {})", (k.e)(&ev.exchange), coq_kind(&ev.kind, k))
}
fn coq_ierr(e: &IndexError) -> String {
    match e {
        IndexError::ExchangeIndex(_) => "(Err IExchangeIndex)".into(),
        IndexError::AssetIndex(_) => "(Err IAssetIndex)".into(),
        IndexError::InstrumentIndex(_) => "(Err IInstrumentIndex)".into(),
    }
}
fn coq_kerr(e: &KeyError) -> String {
    match e {
        KeyError::ExchangeId(_) => "(Err KExchangeId)".into(),
        KeyError::AssetKey(_) => "(Err KAssetKey)".into(),
        KeyError::InstrumentKey(_) => "(Err KInstrumentKey)".into(),
    }
}

// ---- building unindexed values --------------------------------------------------------------

type UKey = OrderKey<ExchangeId, InstrumentNameExchange>;
type UApi = ApiError<AssetNameExchange, InstrumentNameExchange>;
type UOrdErr = OrderError<AssetNameExchange, InstrumentNameExchange>;
type UState = OrderState<AssetNameExchange, InstrumentNameExchange>;
type USnap = Order<ExchangeId, InstrumentNameExchange, UState>;
type UEvent = AccountEvent<ExchangeId, AssetNameExchange, InstrumentNameExchange>;

fn ukey(e: ExchangeId, i: &InstrumentNameExchange, tag: u64) -> UKey {
    OrderKey { exchange: e, instrument: i.clone(), strategy: strategy(), cid: cid(tag) }
}
fn ubalance(a: &AssetNameExchange, tag: u64) -> AssetBalance<AssetNameExchange> {
    AssetBalance {
        asset: a.clone(),
        balance: Balance { total: Decimal::new(tag as i64, 0), free: Decimal::ZERO },
        time_exchange: t0(),
    }
}
fn utrade(i: &InstrumentNameExchange, tag: u64) -> Trade<QuoteAsset, InstrumentNameExchange> {
    Trade {
        id: TradeId::new(format!("t{tag}")),
        order_id: OrderId::new("o"),
        instrument: i.clone(),
        strategy: strategy(),
        time_exchange: t0(),
        side: Side::Sell,
        price: Decimal::new(7, 0),
        quantity: Decimal::new(3, 0),
        fees: AssetFees::quote_fees(Decimal::new(1, 2)),
    }
}
fn usnap(key: UKey, state: UState) -> USnap {
    Order {
        key,
        side: Side::Buy,
        price: Decimal::new(100, 0),
        quantity: Decimal::new(2, 0),
        kind: OrderKind::Limit,
        time_in_force: TimeInForce::GoodUntilCancelled { post_only: false },
        state,
    }
}

struct Names {
    /// (name, weight class): own names first
    assets: Vec<AssetNameExchange>,
    instruments: Vec<InstrumentNameExchange>,
    own_assets: Vec<AssetNameExchange>,
    own_instruments: Vec<InstrumentNameExchange>,
    exchanges: Vec<ExchangeId>,
    own: ExchangeId,
}
impl Names {
    fn asset(&self, r: &mut Rng) -> AssetNameExchange {
        if !self.own_assets.is_empty() && r.chance(4, 5) { r.pick(&self.own_assets).clone() } else { r.pick(&self.assets).clone() }
    }
    fn instrument(&self, r: &mut Rng) -> InstrumentNameExchange {
        if !self.own_instruments.is_empty() && r.chance(4, 5) {
            r.pick(&self.own_instruments).clone()
        } else {
            r.pick(&self.instruments).clone()
        }
    }
    fn exchange(&self, r: &mut Rng) -> ExchangeId {
        if r.chance(9, 10) { self.own } else { *r.pick(&self.exchanges) }
    }
}

fn gen_api(r: &mut Rng, n: &Names) -> UApi {
    match r.below(7) {
        0 => ApiError::RateLimit,
        1 => ApiError::AssetInvalid(n.asset(r), "v".into()),
        2 => ApiError::InstrumentInvalid(n.instrument(r), "v".into()),
        3 => ApiError::BalanceInsufficient(n.asset(r), "v".into()),
        4 => ApiError::OrderRejected("v".into()),
        5 => ApiError::OrderAlreadyCancelled,
        _ => ApiError::OrderAlreadyFullyFilled,
    }
}
fn gen_order_error(r: &mut Rng, n: &Names) -> UOrdErr {
    if r.chance(1, 4) {
        OrderError::Connectivity(match r.below(3) {
            0 => ConnectivityError::Timeout,
            1 => ConnectivityError::ExchangeOffline(n.exchange(r)),
            _ => ConnectivityError::Socket("v".into()),
        })
    } else {
        OrderError::Rejected(gen_api(r, n))
    }
}
fn gen_state(r: &mut Rng, n: &Names) -> UState {
    match r.below(9) {
        8 => OrderState::active(CancelInFlight {
            order: Some(Open { id: OrderId::new("o"), time_exchange: t0(), filled_quantity: Decimal::ZERO }),
        }),
        0 => OrderState::active(ActiveOrderState::OpenInFlight(OpenInFlight)),
        1 => OrderState::active(Open { id: OrderId::new("o"), time_exchange: t0(), filled_quantity: Decimal::ZERO }),
        2 | 3 | 4 => OrderState::inactive(gen_order_error(r, n)),
        5 => OrderState::inactive(Cancelled { id: OrderId::new("o"), time_exchange: t0() }),
        6 => OrderState::fully_filled(),
        _ => OrderState::expired(),
    }
}
/// Deterministic events per map: every event kind tagged with a sibling exchange although it
/// names own assets / instruments; a snapshot with a balance for EVERY own asset (incl.
/// settlement-only ones) whose order lists hold orders of ANOTHER own instrument, of a foreign
/// instrument, with a sibling exchange in the key, and errors naming assets / instruments.
fn fixed_events(e: ExchangeId, u: &Universe, n: &Names, tag: &mut u64) -> Vec<UEvent> {
    let (Some(i0), Some(a0)) = (n.own_instruments.first(), n.own_assets.first()) else {
        return vec![];
    };
    let i1 = n.own_instruments.last().unwrap();
    let a1 = n.own_assets.last().unwrap();
    let sibling = u.exs.iter().copied().find(|v| *v != e).unwrap_or(e);
    let foreign_i = u.ine.iter().find(|x| !n.own_instruments.contains(x)).cloned().unwrap_or(i0.clone());
    let foreign_a = u.ane.iter().find(|x| !n.own_assets.contains(x)).cloned().unwrap_or(a0.clone());
    let mut nt = || {
        *tag += 1;
        *tag
    };
    let open = || OrderState::active(Open { id: OrderId::new("o"), time_exchange: t0(), filled_quantity: Decimal::ZERO });
    let rej = |a: UApi| -> UState { OrderState::inactive(OrderError::Rejected(a)) };
    let mut v = vec![];
    // sibling-tagged events that name own things
    v.push(AccountEvent { exchange: sibling, kind: AccountEventKind::Trade(utrade(i0, nt())) });
    v.push(AccountEvent { exchange: sibling, kind: AccountEventKind::BalanceSnapshot(Snapshot(ubalance(a1, nt()))) });
    v.push(AccountEvent { exchange: sibling, kind: AccountEventKind::OrderSnapshot(Snapshot(usnap(ukey(e, i0, nt()), open()))) });
    // full snapshot, orders grouped under another instrument
    let balances: Vec<_> = n.own_assets.iter().map(|a| ubalance(a, nt())).collect();
    v.push(AccountEvent {
        exchange: e,
        kind: AccountEventKind::Snapshot(AccountSnapshot {
            exchange: e,
            balances,
            instruments: vec![
                InstrumentAccountSnapshot {
                    instrument: i0.clone(),
                    orders: vec![
                        usnap(ukey(e, i1, nt()), open()),
                        usnap(ukey(e, i0, nt()), rej(ApiError::BalanceInsufficient(a1.clone(), "v".into()))),
                    ],
                },
                InstrumentAccountSnapshot {
                    instrument: i1.clone(),
                    orders: vec![usnap(ukey(e, i0, nt()), rej(ApiError::InstrumentInvalid(i1.clone(), "v".into())))],
                },
            ],
        }),
    });
    // a foreign instrument hidden in an own group / a sibling exchange hidden in a nested key /
    // a sibling exchange in the snapshot itself / a foreign asset inside a nested error
    for (k, ex_in, ord_ex, ord_i, st) in [
        (0, e, e, foreign_i.clone(), open()),
        (1, e, sibling, i0.clone(), open()),
        (2, sibling, e, i0.clone(), open()),
        (3, e, e, i0.clone(), rej(ApiError::AssetInvalid(foreign_a.clone(), "v".into()))),
    ] {
        let _ = k;
        v.push(AccountEvent {
            exchange: e,
            kind: AccountEventKind::Snapshot(AccountSnapshot {
                exchange: ex_in,
                balances: vec![ubalance(a0, nt())],
                instruments: vec![InstrumentAccountSnapshot {
                    instrument: i1.clone(),
                    orders: vec![usnap(ukey(ord_ex, &ord_i, nt()), st)],
                }],
            }),
        });
    }
    v.push(AccountEvent {
        exchange: e,
        kind: AccountEventKind::OrderCancelled(OrderResponseCancel {
            key: ukey(e, i1, nt()),
            state: Err(OrderError::Rejected(ApiError::AssetInvalid(a1.clone(), "v".into()))),
        }),
    });
    v
}

fn gen_snap(r: &mut Rng, n: &Names, tag: &mut u64) -> USnap {
    *tag += 1;
    usnap(ukey(n.exchange(r), &n.instrument(r), *tag), gen_state(r, n))
}
fn gen_event(r: &mut Rng, n: &Names, tag: &mut u64) -> UEvent {
    let kind = match r.below(10) {
        0 | 1 => {
            let nb = r.below(4);
            let ni = r.below(4);
            AccountEventKind::Snapshot(AccountSnapshot {
                exchange: n.exchange(r),
                balances: (0..nb)
                    .map(|_| {
                        *tag += 1;
                        ubalance(&n.asset(r), *tag)
                    })
                    .collect(),
                instruments: (0..ni)
                    .map(|_| {
                        let k = r.below(3);
                        InstrumentAccountSnapshot {
                            instrument: n.instrument(r),
                            orders: (0..k).map(|_| gen_snap(r, n, tag)).collect(),
                        }
                    })
                    .collect(),
            })
        }
        2 | 3 => {
            *tag += 1;
            AccountEventKind::BalanceSnapshot(Snapshot(ubalance(&n.asset(r), *tag)))
        }
        4 | 5 => AccountEventKind::OrderSnapshot(Snapshot(gen_snap(r, n, tag))),
        6 | 7 => {
            *tag += 1;
            AccountEventKind::OrderCancelled(OrderResponseCancel {
                key: ukey(n.exchange(r), &n.instrument(r), *tag),
                state: if r.chance(1, 2) {
                    Ok(Cancelled { id: OrderId::new("o"), time_exchange: t0() })
                } else {
                    Err(gen_order_error(r, n))
                },
            })
        }
        _ => {
            *tag += 1;
            AccountEventKind::Trade(utrade(&n.instrument(r), *tag))
        }
    };
    AccountEvent { exchange: n.exchange(r), kind }
}

// ---- observation of one map -------------------------------------------------------------------

fn observe_map(
    x: &IndexedInstruments,
    u: &Universe,
    e: ExchangeId,
    map: ExecutionInstrumentMap,
    r: &mut Rng,
    tags: &mut Vec<String>,
) -> String {
    let ke = |v: &ExchangeId| u.ex(v).to_string();
    let ka = |v: &AssetNameExchange| u.ane(v).to_string();
    let ki = |v: &InstrumentNameExchange| u.ine(v).to_string();
    let kin = Keys { e: &ke, a: &ka, i: &ki };
    let oe = |v: &ExchangeIndex| v.0.to_string();
    let oa = |v: &AssetIndex| v.0.to_string();
    let oi = |v: &InstrumentIndex| v.0.to_string();
    let kout = Keys { e: &oe, a: &oa, i: &oi };

    let key = format!("({}, {})", map.exchange.key.0, u.ex(&map.exchange.value));
    let assets: Vec<String> = map.exchange_assets().map(|n| u.ane(n).to_string()).collect();
    let instruments: Vec<String> = map.exchange_instruments().map(|n| u.ine(n).to_string()).collect();
    let mut an: Vec<(&AssetNameExchange, &AssetIndex)> = map.asset_names.iter().collect();
    an.sort();
    let asset_names: Vec<(String, String)> = an.iter().map(|(n, k)| (u.ane(n).to_string(), k.0.to_string())).collect();
    let mut inn: Vec<(&InstrumentNameExchange, &InstrumentIndex)> = map.instrument_names.iter().collect();
    inn.sort();
    let instrument_names: Vec<(String, String)> =
        inn.iter().map(|(n, k)| (u.ine(n).to_string(), k.0.to_string())).collect();

    let nx = x.exchanges().len();
    let na = x.assets().len();
    let ni = x.instruments().len();
    let ex_id: Vec<(String, String)> = (0..nx + 2)
        .map(|k| (k.to_string(), opt(map.find_exchange_id(ExchangeIndex(k)).ok().map(|v| u.ex(&v).to_string()))))
        .collect();
    let ex_ix: Vec<(String, String)> = u
        .exs
        .iter()
        .map(|v| (u.ex(v).to_string(), coq_opt_n(map.find_exchange_index(*v).ok().map(|i| i.0))))
        .collect();
    let as_name: Vec<(String, String)> = (0..na + 2)
        .map(|k| {
            (k.to_string(), opt(map.find_asset_name_exchange(AssetIndex(k)).ok().map(|n| u.ane(n).to_string())))
        })
        .collect();
    let as_ix: Vec<(String, String)> = u
        .ane
        .iter()
        .map(|n| (u.ane(n).to_string(), coq_opt_n(map.find_asset_index(n).ok().map(|i| i.0))))
        .collect();
    let in_name: Vec<(String, String)> = (0..ni + 2)
        .map(|k| {
            (
                k.to_string(),
                opt(map.find_instrument_name_exchange(InstrumentIndex(k)).ok().map(|n| u.ine(n).to_string())),
            )
        })
        .collect();
    let in_ix: Vec<(String, String)> = u
        .ine
        .iter()
        .map(|n| (u.ine(n).to_string(), coq_opt_n(map.find_instrument_index(n).ok().map(|i| i.0))))
        .collect();
    for (_, v) in &in_name {
        tags.push(if v == "None" { "index_to_name_none".into() } else { "index_to_name_some".into() });
    }

    let own_ek = map.exchange.key.0;
    let names = Names {
        assets: u.ane.clone(),
        instruments: u.ine.clone(),
        own_assets: map.exchange_assets().cloned().collect(),
        own_instruments: map.exchange_instruments().cloned().collect(),
        exchanges: u.exs.clone(),
        own: e,
    };
    let indexer = AccountEventIndexer::new(Arc::new(map));

    // outbound: own exchange index x every instrument index, other exchange indices x one each
    let mut rq: Vec<(usize, usize)> = (0..ni + 2).map(|ik| (own_ek, ik)).collect();
    for ek in 0..nx + 2 {
        if ek != own_ek {
            rq.push((ek, r.below(ni as u64 + 2) as usize));
        }
    }
    let mut requests = vec![];
    for (t, (ek, ik)) in rq.iter().enumerate() {
        let key = OrderKey {
            exchange: ExchangeIndex(*ek),
            instrument: InstrumentIndex(*ik),
            strategy: strategy(),
            cid: cid(t as u64),
        };
        let inp = format!("({}, {}, {})", ek, ik, t);
        let out = if t % 2 == 0 {
            let st = RequestOpen {
                side: Side::Buy,
                price: Decimal::new(100, 0),
                quantity: Decimal::new(2, 0),
                kind: OrderKind::Limit,
                time_in_force: TimeInForce::GoodUntilCancelled { post_only: false },
            };
            let req = OrderEvent { key, state: st.clone() };
            match indexer.order_request(&req) {
                Ok(o) => {
                    let tag = if o.state == st && o.key.strategy == strategy() { tag_of('c', o.key.cid.0.as_str()) } else { BAD };
                    format!("(Ok ({}, {}, {}))", u.ex(&o.key.exchange), u.ine(o.key.instrument), tag)
                }
                Err(er) => coq_kerr(&er),
            }
        } else {
            let st = RequestCancel { id: Some(OrderId::new("o")) };
            let req = OrderEvent { key, state: st.clone() };
            match indexer.order_request(&req) {
                Ok(o) => {
                    let tag = if o.state == st && o.key.strategy == strategy() { tag_of('c', o.key.cid.0.as_str()) } else { BAD };
                    format!("(Ok ({}, {}, {}))", u.ex(&o.key.exchange), u.ine(o.key.instrument), tag)
                }
                Err(er) => coq_kerr(&er),
            }
        };
        tags.push(if out.starts_with("(Ok") { "request_ok".into() } else { format!("request_{}", &out[5..out.len() - 1]) });
        requests.push((inp, out));
    }

    // inbound pieces
    let mut keys = vec![];
    let mut t = 100u64;
    let mut key_probes: Vec<(ExchangeId, InstrumentNameExchange)> = u.ine.iter().map(|n| (e, n.clone())).collect();
    for other in u.exs.iter().filter(|v| **v != e).take(2) {
        key_probes.push((*other, names.instrument(r)));
    }
    for (ex, n) in &key_probes {
        t += 1;
        let k = ukey(*ex, n, t);
        let inp = coq_key(&k, &kin);
        let out = match indexer.order_key(k) {
            Ok(o) => format!("(Ok {})", coq_key(&o, &kout)),
            Err(er) => coq_ierr(&er),
        };
        keys.push((inp, out));
    }
    let mut trades = vec![];
    for n in &u.ine {
        t += 1;
        let tr = utrade(n, t);
        let inp = coq_trade(&tr, &kin);
        let out = match indexer.trade(tr) {
            Ok(o) => format!("(Ok {})", coq_trade(&o, &kout)),
            Err(er) => coq_ierr(&er),
        };
        trades.push((inp, out));
    }
    let mut balances = vec![];
    for n in &u.ane {
        t += 1;
        let b = ubalance(n, t);
        let inp = coq_balance(&b, &kin);
        let out = match indexer.asset_balance(b) {
            Ok(o) => format!("(Ok {})", coq_balance(&o, &kout)),
            Err(er) => coq_ierr(&er),
        };
        balances.push((inp, out));
    }
    let mut events = vec![];
    let mut evs: Vec<UEvent> = fixed_events(e, u, &names, &mut t);
    let n_ev = 5 + r.below(4);
    for _ in 0..n_ev {
        evs.push(gen_event(r, &names, &mut t));
    }
    for ev in evs {
        let inp = coq_event(&ev, &kin);
        let kind_tag = match &ev.kind {
            AccountEventKind::Snapshot(_) => "snapshot",
            AccountEventKind::BalanceSnapshot(_) => "balance",
            AccountEventKind::OrderSnapshot(_) => "order",
            AccountEventKind::OrderCancelled(_) => "cancelled",
            AccountEventKind::Trade(_) => "trade",
        };
        let out = match indexer.account_event(ev) {
            Ok(o) => {
                tags.push(format!("event_{}_ok", kind_tag));
                format!("(Ok {})", coq_event(&o, &kout))
            }
            Err(er) => {
                let s = coq_ierr(&er);
                tags.push(format!("event_{}_{}", kind_tag, &s[5..s.len() - 1]));
                s
            }
        };
        events.push((inp, out));
    }
    format!(
        "(mkMapObs {} {} {} {} {} {} {} {} {} {} {} {} {} {} {} {})",
        key,
        list(&assets),
        list(&instruments),
        pairs(&asset_names),
        pairs(&instrument_names),
        pairs(&ex_id),
        pairs(&ex_ix),
        pairs(&as_name),
        pairs(&as_ix),
        pairs(&in_name),
        pairs(&in_ix),
        pairs(&requests),
        pairs(&keys),
        pairs(&trades),
        pairs(&balances),
        pairs(&events)
    )
}

// ---- the running system ---------------------------------------------------------------------

type E2e = (Vec<(ExchangeId, Vec<AssetNameExchange>, Vec<InstrumentNameExchange>)>, Vec<((usize, usize, u64), Option<StubEvent>, Option<(usize, usize, usize, u128)>)>);

fn run_e2e(x: &IndexedInstruments, requests: Vec<(usize, usize, u64)>) -> Option<E2e> {
    let x = x.clone();
    catch(move || {
        let rt = tokio::runtime::Builder::new_current_thread()
            .enable_time()
            .start_paused(true)
            .build()
            .expect("runtime");
        rt.block_on(async move {
            let log: Log = Arc::new(Mutex::new(vec![]));
            let mut b = ExecutionBuilder::new(&x);
            for e in x.exchanges() {
                b = add_stub(b, e.value, log.clone()).expect("add_live");
            }
            let mut exec = b.build().init().await.expect("execution init");
            // every manager first emits its account snapshot
            for _ in 0..x.exchanges().len() {
                let _ = tokio::time::timeout(Duration::from_secs(2), exec.account_channel.rx.rx.recv()).await;
            }
            let snapshots: Vec<_> = log
                .lock()
                .unwrap()
                .iter()
                .filter_map(|ev| match ev {
                    StubEvent::Snapshot { client, assets, instruments } => {
                        Some((*client, assets.clone(), instruments.clone()))
                    }
                    _ => None,
                })
                .collect();
            let mut out = vec![];
            for (ek, ik, tag) in requests {
                let before = log.lock().unwrap().len();
                let req = OrderEvent {
                    key: OrderKey {
                        exchange: ExchangeIndex(ek),
                        instrument: InstrumentIndex(ik),
                        strategy: strategy(),
                        cid: cid(tag),
                    },
                    state: RequestOpen {
                        side: Side::Buy,
                        price: Decimal::new(100, 0),
                        quantity: Decimal::new(2, 0),
                        kind: OrderKind::Limit,
                        time_in_force: TimeInForce::GoodUntilCancelled { post_only: false },
                    },
                };
                let sent = match exec.execution_txs.find(&ExchangeIndex(ek)) {
                    Ok(tx) => tx.send(ExecutionRequest::Open(req)).is_ok(),
                    Err(_) => false,
                };
                let mut resp = None;
                if sent {
                    if let Ok(Some(Event::Item(ev))) =
                        tokio::time::timeout(Duration::from_secs(2), exec.account_channel.rx.rx.recv()).await
                    {
                        let ev: AccountEvent = ev;
                        if let AccountEventKind::OrderSnapshot(Snapshot(o)) = &ev.kind {
                            resp = Some((
                                ev.exchange.0,
                                o.key.exchange.0,
                                o.key.instrument.0,
                                if payload_ok(o) && matches!(o.state, OrderState::Active(_)) {
                                    tag_of('c', o.key.cid.0.as_str())
                                } else {
                                    BAD
                                },
                            ));
                        }
                    }
                }
                let seen = log.lock().unwrap()[before..].iter().find(|e| matches!(e, StubEvent::Open { .. })).cloned();
                out.push(((ek, ik, tag), seen, resp));
            }
            (snapshots, out)
        })
    })
    .ok()
}

// ---- cases ----------------------------------------------------------------------------------

fn emit_case(em: &mut Emitter, stream: &'static str, ds: &[Def], probe_seed: u64, e2e: bool, extra_tags: &[String]) {
    let u = Universe::new(ds);
    let mut r = Rng::new(probe_seed);
    let mut tags = collection_tags(ds);
    tags.extend(extra_tags.iter().cloned());
    let built = build_catching(ds.to_vec(), false);
    let mut maps = vec![];
    let mut snaps_c = vec![];
    let mut e2e_c = vec![];
    if let Some(x) = &built {
        for e in &u.exs {
            let gm = catch(AssertUnwindSafe(|| generate_execution_instrument_map(x, *e)))
                .unwrap_or_else(|_| Err(IndexError::ExchangeIndex("panicked".into())));
            match gm {
                Err(_) => {
                    tags.push("map_err".into());
                    maps.push(format!("({}, None)", u.ex(e)));
                }
                Ok(m) => {
                    tags.push("map_ok".into());
                    // a panic inside a lookup is reported as "no map" for an indexed exchange,
                    // which the oracle rejects
                    let mut t2 = vec![];
                    match catch(AssertUnwindSafe(|| observe_map(x, &u, *e, m, &mut r, &mut t2))) {
                        Ok(o) => maps.push(format!("({}, (Some {}))", u.ex(e), o)),
                        Err(_) => {
                            t2.push("lookup_panicked".into());
                            maps.push(format!("({}, None)", u.ex(e)));
                        }
                    }
                    tags.extend(t2);
                }
            }
        }
        if e2e && !x.exchanges().is_empty() {
            // every instrument through the link of its own exchange, then one misrouted request
            let mut rq: Vec<(usize, usize, u64)> = x
                .instruments()
                .iter()
                .enumerate()
                .map(|(t, kv)| (kv.value.exchange.key.0, kv.key.0, t as u64))
                .collect();
            r.shuffle(&mut rq);
            if x.exchanges().len() >= 2 && !x.instruments().is_empty() {
                let kv = r.pick(x.instruments());
                let other = (kv.value.exchange.key.0 + 1) % x.exchanges().len();
                rq.push((other, kv.key.0, 900));
                tags.push("e2e_misrouted".into());
            }
            if let Some((snaps, res)) = run_e2e(x, rq) {
                tags.push("e2e".into());
                for (c, a, i) in snaps {
                    snaps_c.push(format!(
                        "({}, {}, {})",
                        u.ex(&c),
                        list(&a.iter().map(|n| u.ane(n).to_string()).collect::<Vec<_>>()),
                        list(&i.iter().map(|n| u.ine(n).to_string()).collect::<Vec<_>>())
                    ));
                }
                for ((ek, ik, tag), seen, resp) in res {
                    let seen_c = opt(seen.map(|s| match s {
                        StubEvent::Open { client, exchange, instrument, cid } => format!(
                            "({}, {}, {}, {})",
                            u.ex(&client),
                            u.ex(&exchange),
                            u.ine(&instrument),
                            tag_of('c', &cid)
                        ),
                        _ => unreachable!(),
                    }));
                    let resp_c = opt(resp.map(|(a, b, c, d)| format!("({}, {}, {}, {})", a, b, c, d)));
                    e2e_c.push(format!("(({}, {}, {}), {}, {})", ek, ik, tag, seen_c, resp_c));
                }
            } else {
                tags.push("e2e_failed".into());
                e2e_c.push("((0, 0, 0), None, None)".into());
            }
        }
    }
    let coq = format!(
        "(CMap {} {} {} {} {})%N",
        coq_defs(ds, &u),
        opt(built.as_ref().map(|x| coq_indexed(x, &u))),
        list(&maps),
        list(&snaps_c),
        list(&e2e_c)
    );
    tags.sort();
    tags.dedup();
    em.emit(Case {
        stream,
        input: json!({"instruments": defs_to_json(ds), "probe_seed": probe_seed, "e2e": e2e}),
        coq,
        nontrivial: !ds.is_empty(),
        tags,
    });
}

fn bp(exchange: ExchangeId, spelling: Spelling, base: usize, quote: usize) -> Blueprint {
    Blueprint {
        exchange,
        spelling,
        base,
        quote,
        kind: KindTag::Spot,
        settlement: quote,
        unit: UnitTag::NoSpec,
        variant: 0,
        name_internal: None,
        name_exchange: None,
        base_spelling: None,
    }
}

/// Exhaustive table: every non-empty subset of a catalogue of five spot instruments on three
/// exchanges (two of them share asset names; kraken spells btc as XBT), in catalogue order and
/// reversed.
fn table(em: &mut Emitter) {
    let cat: Vec<Def> = [
        bp(ExchangeId::Kraken, Spelling::Alias, 0, 3),
        bp(ExchangeId::BinanceSpot, Spelling::Upper, 0, 2),
        bp(ExchangeId::Kraken, Spelling::Alias, 1, 3),
        bp(ExchangeId::BinanceSpot, Spelling::Upper, 1, 0),
        bp(ExchangeId::Okx, Spelling::Lower, 0, 2),
    ]
    .iter()
    .map(build_def)
    .collect();
    for mask in 0u32..32 {
        let ds: Vec<Def> = (0..5).filter(|i| mask & (1 << i) != 0).map(|i| cat[i].clone()).collect();
        emit_case(em, "table", &ds, mask as u64, mask % 4 == 3, &[]);
        if ds.len() >= 2 && mask % 3 == 0 {
            let mut rev = ds.clone();
            rev.reverse();
            emit_case(em, "table", &rev, 100 + mask as u64, false, &[]);
        }
    }
}

/// Second exhaustive table: derivatives whose settlement asset / quantity-unit asset is the
/// underlying of NO instrument of their exchange (bnb, usdc are never traded), the same
/// settlement asset shared by two exchanges (quanto style), contract sizes 1 / 0.001 / 0.01 /
/// 100, next to a spot instrument on an exchange whose enum order disagrees with its name (Mock).
fn table2(em: &mut Emitter) {
    let cat: Vec<Def> = [
        Blueprint { kind: KindTag::Perpetual, settlement: 6, unit: UnitTag::Asset(7), variant: 1, ..bp(ExchangeId::Kraken, Spelling::Alias, 1, 3) },
        Blueprint { kind: KindTag::Future, settlement: 6, unit: UnitTag::Contract, variant: 2, ..bp(ExchangeId::BinanceSpot, Spelling::Upper, 0, 2) },
        Blueprint { kind: KindTag::Option, settlement: 2, unit: UnitTag::Asset(6), variant: 3, ..bp(ExchangeId::Kraken, Spelling::Alias, 0, 2) },
        Blueprint { kind: KindTag::Perpetual, settlement: 7, unit: UnitTag::Quote, variant: 4, ..bp(ExchangeId::Mock, Spelling::Lower, 0, 2) },
        bp(ExchangeId::BinanceSpot, Spelling::Upper, 1, 2),
    ]
    .iter()
    .map(build_def)
    .collect();
    for mask in 1u32..32 {
        let ds: Vec<Def> = (0..5).filter(|i| mask & (1 << i) != 0).map(|i| cat[i].clone()).collect();
        emit_case(em, "table", &ds, 1000 + mask as u64, mask % 2 == 1, &["table_settlement_only_assets".to_string()]);
    }
}

fn main() {
    quiet_panics();
    let args = parse_args();
    let mut em = Emitter::create(&args.out);
    match args.mode.as_str() {
        "gen" => {
            let mut r = Rng::new(args.seed);
            let thorough = args.tier == "thorough";
            let (n_wf, n_adv, n_spot) = if thorough { (2500, 1000, 1000) } else { (170, 80, 60) };
            table(&mut em);
            table2(&mut em);
            let wf = GenOpts { adversarial: false, max_exchanges: 4, max_catalogue: 7, max_len: 9, spot_only: false };
            let adv = GenOpts { adversarial: true, ..wf };
            let spot = GenOpts { spot_only: true, max_exchanges: 3, ..wf };
            for i in 0..n_wf {
                let (ds, tags) = gen_collection(&mut r, &wf);
                let s = r.next() >> 12;
                emit_case(&mut em, "random", &ds, s, i % 3 == 0, &tags);
            }
            for i in 0..n_adv {
                let (ds, tags) = gen_collection(&mut r, &adv);
                let s = r.next() >> 12;
                emit_case(&mut em, "adversarial", &ds, s, i % 4 == 0, &tags);
            }
            for _ in 0..n_spot {
                let (ds, tags) = gen_collection(&mut r, &spot);
                let s = r.next() >> 12;
                emit_case(&mut em, "random", &ds, s, true, &tags);
            }
        }
        "exec" => {
            for (inp, stream) in read_inputs(args.input.as_deref().expect("--in")) {
                let st = stream_static(&stream);
                let Some(ds) = defs_from_json(&inp["instruments"]) else { continue };
                emit_case(
                    &mut em,
                    st,
                    &ds,
                    inp["probe_seed"].as_u64().unwrap_or(0),
                    inp["e2e"].as_bool().unwrap_or(false),
                    &[],
                );
            }
        }
        m => panic!("unknown mode {m}"),
    }
    em.finish();
}

#[allow(dead_code)]
fn _unused(_: AccountStreamEvent) {}
