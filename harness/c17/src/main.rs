//! C17 correspondence harness: drives barter::statistic::summary::dataset::{DataSetSummary,
//! dispersion::{Dispersion, Range}} and barter::statistic::algorithm::welford_online on generated
//! datasets and prints inputs + observed outputs as Coq terms (Corr/C17.v).
use barter::statistic::{
    algorithm::welford_online,
    summary::dataset::{
        DataSetSummary,
        dispersion::{Dispersion, Range},
    },
};
use rust_decimal::Decimal;
use serde_json::{Value, json};
use vh_common::*;

fn obs_coq(s: &DataSetSummary) -> String {
    format!(
        "(mkObs {} {} {} {} {} {} {} {} {} {})",
        dec_q(s.count),
        dec_q(s.sum),
        dec_q(s.mean),
        b(s.dispersion.range.activated),
        dec_q(s.dispersion.range.high),
        dec_q(s.dispersion.range.low),
        dec_q(s.dispersion.range.range()),
        dec_q(s.dispersion.recurrence_relation_m),
        dec_q(s.dispersion.variance),
        dec_q(s.dispersion.std_dev),
    )
}

fn qlist(v: &[Decimal]) -> String {
    list(&v.iter().map(|d| dec_q(*d)).collect::<Vec<_>>())
}
fn jlist(v: &[Decimal]) -> Value {
    Value::Array(v.iter().map(|d| dec_json(*d)).collect())
}
fn from_jlist(v: &Value) -> Vec<Decimal> {
    v.as_array().expect("array").iter().map(json_dec).collect()
}

/// which arm of Range::update the value takes
fn range_tag(r: &Range, x: Decimal) -> &'static str {
    if !r.activated {
        "range_first"
    } else if x > r.high && x < r.low {
        "range_both"
    } else if x > r.high {
        "range_new_high"
    } else if x < r.low {
        "range_new_low"
    } else if x == r.high || x == r.low {
        "range_equal_bound"
    } else {
        "range_inside"
    }
}

fn emit_seq(em: &mut Emitter, stream: &'static str, vals: &[Decimal], extra: &[&str]) {
    emit_seq_p(em, stream, vals, &[], extra)
}

/// serialise the summary with serde_json and deserialise it again: (restored value, it differs
/// from the original or could not be (de)serialised)
fn round_trip(s: &DataSetSummary) -> (DataSetSummary, bool) {
    match serde_json::to_string(s)
        .ok()
        .and_then(|js| serde_json::from_str::<DataSetSummary>(&js).ok())
    {
        Some(back) => {
            let changed = back != *s;
            (back, changed)
        }
        None => (s.clone(), true),
    }
}

/// `persist`: step numbers (0 = before the first update, k = after the k-th update) at which the
/// summary is persisted and restored; the history continues on the restored value
fn emit_seq_p(
    em: &mut Emitter,
    stream: &'static str,
    vals: &[Decimal],
    persist: &[usize],
    extra: &[&str],
) {
    let mut tags: Vec<String> = extra.iter().map(|s| s.to_string()).collect();
    let vv = vals.to_vec();
    let pp = persist.to_vec();
    let res = catch(move || {
        let mut s = DataSetSummary::default();
        let o0 = obs_coq(&s);
        let mut os = vec![];
        let mut tg = vec![];
        let mut changed = false;
        if pp.contains(&0) {
            let (back, ch) = round_trip(&s);
            changed |= ch;
            s = back;
        }
        for (i, v) in vv.iter().enumerate() {
            tg.push(range_tag(&s.dispersion.range, *v).to_string());
            s.update(*v);
            os.push(obs_coq(&s));
            if pp.contains(&(i + 1)) {
                let (back, ch) = round_trip(&s);
                changed |= ch;
                s = back;
            }
        }
        (o0, os, tg, changed)
    });
    let coq = match res {
        Ok((o0, os, tg, changed)) => {
            tags.extend(tg);
            let inner = format!("(CSeq {} {} {})", qlist(vals), o0, list(&os));
            if persist.is_empty() {
                inner
            } else {
                if changed {
                    tags.push("roundtrip_changed".into());
                }
                format!(
                    "(CPersist {} {} {})",
                    list(&persist.iter().map(|k| n(*k as u128)).collect::<Vec<_>>()),
                    b(changed),
                    inner
                )
            }
        }
        Err(_) => {
            tags.push("panic".into());
            // a panic on a valid dataset: report as a sequence with no observations
            format!(
                "(CSeq {} {} [])",
                qlist(vals),
                obs_coq(&DataSetSummary::default())
            )
        }
    };
    tags.push(format!("seq_len_{}", bucket(vals.len())));
    if !persist.is_empty() {
        tags.push("persist_restore".into());
    }
    em.emit(Case {
        stream,
        input: json!({"kind": "seq", "values": jlist(vals), "persist": persist}),
        coq,
        nontrivial: !vals.is_empty(),
        tags,
    });
}

/// persist points for a sequence of length n: none / after every step / a random subset
fn gen_persist(r: &mut Rng, n: usize) -> Vec<usize> {
    match r.below(4) {
        0 | 1 => vec![],
        2 => (0..=n).collect(),
        _ => (0..=n).filter(|_| r.chance(1, 4)).collect(),
    }
}

fn bucket(n: usize) -> &'static str {
    match n {
        0 => "0",
        1 => "1",
        2..=5 => "2-5",
        6..=15 => "6-15",
        16..=40 => "16-40",
        _ => "41+",
    }
}

fn permutations(v: &[Decimal]) -> Vec<Vec<Decimal>> {
    if v.len() <= 1 {
        return vec![v.to_vec()];
    }
    let mut out = vec![];
    for i in 0..v.len() {
        let mut rest = v.to_vec();
        let x = rest.remove(i);
        for mut p in permutations(&rest) {
            p.insert(0, x);
            out.push(p);
        }
    }
    out
}

fn emit_perms(em: &mut Emitter, stream: &'static str, base: &[Decimal]) {
    let mut finals = vec![];
    let mut panicked = false;
    for p in permutations(base) {
        let pp = p.clone();
        match catch(move || {
            let mut s = DataSetSummary::default();
            for v in &pp {
                s.update(*v);
            }
            obs_coq(&s)
        }) {
            Ok(o) => finals.push(pair(&qlist(&p), &o)),
            Err(_) => panicked = true,
        }
    }
    let mut tags = vec![format!("perms_of_{}", base.len())];
    if panicked {
        tags.push("panic".into());
        finals.push(pair("[]", &obs_coq(&DataSetSummary::default())));
    }
    em.emit(Case {
        stream,
        input: json!({"kind": "perms", "values": jlist(base)}),
        coq: format!("(CPerms {} {})", qlist(base), list(&finals)),
        nontrivial: base.len() >= 2,
        tags,
    });
}

#[derive(Clone, Copy, Debug)]
struct St {
    count: Decimal,
    sum: Decimal,
    mean: Decimal,
    act: bool,
    high: Decimal,
    low: Decimal,
    m: Decimal,
    var: Decimal,
}
impl St {
    fn to_json(&self) -> Value {
        json!({"count": dec_json(self.count), "sum": dec_json(self.sum), "mean": dec_json(self.mean),
               "act": self.act, "high": dec_json(self.high), "low": dec_json(self.low),
               "m": dec_json(self.m), "var": dec_json(self.var)})
    }
    fn from_json(v: &Value) -> St {
        St {
            count: json_dec(&v["count"]),
            sum: json_dec(&v["sum"]),
            mean: json_dec(&v["mean"]),
            act: v["act"].as_bool().unwrap(),
            high: json_dec(&v["high"]),
            low: json_dec(&v["low"]),
            m: json_dec(&v["m"]),
            var: json_dec(&v["var"]),
        }
    }
    fn summary(&self) -> DataSetSummary {
        DataSetSummary {
            count: self.count,
            sum: self.sum,
            mean: self.mean,
            dispersion: Dispersion {
                range: Range {
                    activated: self.act,
                    high: self.high,
                    low: self.low,
                },
                recurrence_relation_m: self.m,
                variance: self.var,
                std_dev: Decimal::ZERO,
            },
        }
    }
}

fn emit_step(em: &mut Emitter, stream: &'static str, st: &St, x: Decimal) {
    let s0 = st.summary();
    let tag = range_tag(&s0.dispersion.range, x).to_string();
    let mut s = s0.clone();
    let res = catch(move || {
        s.update(x);
        obs_coq(&s)
    });
    let mut tags = vec!["step".to_string(), tag];
    if res.is_err() {
        tags.push("panic".into());
    }
    em.emit(Case {
        stream,
        input: json!({"kind": "step", "state": st.to_json(), "x": dec_json(x)}),
        coq: format!("(CStep {} {} {})", obs_coq(&s0), dec_q(x), opt(res.ok())),
        nontrivial: true,
        tags,
    });
}

fn emit_range(em: &mut Emitter, stream: &'static str, act: bool, hi: Decimal, lo: Decimal, x: Decimal) {
    let mut r = Range {
        activated: act,
        high: hi,
        low: lo,
    };
    let tag = range_tag(&r, x).to_string();
    r.update(x);
    em.emit(Case {
        stream,
        input: json!({"kind": "range", "act": act, "high": dec_json(hi), "low": dec_json(lo), "x": dec_json(x)}),
        coq: format!(
            "(CRange {} {} {} {} {} {} {})",
            b(act),
            dec_q(hi),
            dec_q(lo),
            dec_q(x),
            b(r.activated),
            dec_q(r.high),
            dec_q(r.low)
        ),
        nontrivial: true,
        tags: vec!["fn_range_update".into(), tag],
    });
}

fn emit_range_init(em: &mut Emitter, stream: &'static str, x: Decimal) {
    let r = Range::init(x);
    em.emit(Case {
        stream,
        input: json!({"kind": "range_init", "x": dec_json(x)}),
        coq: format!(
            "(CRangeInit {} {} {} {})",
            dec_q(x),
            b(r.activated),
            dec_q(r.high),
            dec_q(r.low)
        ),
        nontrivial: true,
        tags: vec!["fn_range_init".into()],
    });
}

fn emit_mean(em: &mut Emitter, stream: &'static str, pm: Decimal, x: Decimal, c: Decimal) {
    let r = welford_online::calculate_mean(pm, x, c);
    em.emit(Case {
        stream,
        input: json!({"kind": "mean", "pm": dec_json(pm), "x": dec_json(x), "c": dec_json(c)}),
        coq: format!(
            "(CMean {} {} {} {})",
            dec_q(pm),
            dec_q(x),
            dec_q(c),
            dec_q(r)
        ),
        nontrivial: true,
        tags: vec!["fn_calculate_mean".into()],
    });
}

fn emit_recm(em: &mut Emitter, stream: &'static str, m: Decimal, pm: Decimal, x: Decimal, nm: Decimal) {
    let r = welford_online::calculate_recurrence_relation_m(m, pm, x, nm);
    em.emit(Case {
        stream,
        input: json!({"kind": "recm", "m": dec_json(m), "pm": dec_json(pm), "x": dec_json(x), "nm": dec_json(nm)}),
        coq: format!(
            "(CRecM {} {} {} {} {})",
            dec_q(m),
            dec_q(pm),
            dec_q(x),
            dec_q(nm),
            dec_q(r)
        ),
        nontrivial: true,
        tags: vec!["fn_calculate_recurrence_relation_m".into()],
    });
}

fn emit_popvar(em: &mut Emitter, stream: &'static str, m: Decimal, c: Decimal) {
    let r = welford_online::calculate_population_variance(m, c);
    em.emit(Case {
        stream,
        input: json!({"kind": "popvar", "m": dec_json(m), "c": dec_json(c)}),
        coq: format!("(CPopVar {} {} {})", dec_q(m), dec_q(c), dec_q(r)),
        nontrivial: true,
        tags: vec![
            "fn_calculate_population_variance".into(),
            if c < Decimal::ONE {
                "popvar_count_lt_1"
            } else {
                "popvar_count_ge_1"
            }
            .into(),
        ],
    });
}

fn exec_input(em: &mut Emitter, stream: &'static str, inp: &Value) {
    match inp["kind"].as_str().unwrap_or("") {
        "seq" => {
            let persist: Vec<usize> = inp["persist"]
                .as_array()
                .map(|a| a.iter().filter_map(|x| x.as_u64()).map(|x| x as usize).collect())
                .unwrap_or_default();
            emit_seq_p(em, stream, &from_jlist(&inp["values"]), &persist, &[])
        }
        "perms" => emit_perms(em, stream, &from_jlist(&inp["values"])),
        "step" => emit_step(em, stream, &St::from_json(&inp["state"]), json_dec(&inp["x"])),
        "range" => emit_range(
            em,
            stream,
            inp["act"].as_bool().unwrap(),
            json_dec(&inp["high"]),
            json_dec(&inp["low"]),
            json_dec(&inp["x"]),
        ),
        "range_init" => emit_range_init(em, stream, json_dec(&inp["x"])),
        "mean" => emit_mean(em, stream, json_dec(&inp["pm"]), json_dec(&inp["x"]), json_dec(&inp["c"])),
        "recm" => emit_recm(
            em,
            stream,
            json_dec(&inp["m"]),
            json_dec(&inp["pm"]),
            json_dec(&inp["x"]),
            json_dec(&inp["nm"]),
        ),
        "popvar" => emit_popvar(em, stream, json_dec(&inp["m"]), json_dec(&inp["c"])),
        k => panic!("unknown input kind {k}"),
    }
}

// ---- generators ---------------------------------------------------------------------------------

/// +-m * 10^e, m in 1..=9999, e in -8..=6  (|x| < 1e10, at most 8 fractional digits)
fn gen_wide(r: &mut Rng) -> Decimal {
    let m = r.range(1, 9999);
    let e = r.range(-8, 6);
    let d = if e >= 0 {
        Decimal::new(m * 10i64.pow(e as u32), 0)
    } else {
        Decimal::new(m, (-e) as u32)
    };
    if r.chance(2, 5) { -d } else { d }
}

fn gen_zero(r: &mut Rng) -> Decimal {
    *r.pick(&[Decimal::ZERO, Decimal::new(0, 2), Decimal::new(0, 8)])
}

/// a dataset with a given flavour
fn gen_dataset(r: &mut Rng, len: usize) -> (Vec<Decimal>, &'static str) {
    let flavour = r.below(13);
    let mut v = Vec::with_capacity(len);
    match flavour {
        0 | 1 => {
            // widely different magnitudes, both signs, some zeros
            for _ in 0..len {
                v.push(if r.chance(1, 12) { gen_zero(r) } else { gen_wide(r) });
            }
            (v, "flavour_wide")
        }
        2 => {
            // repeats from a small pool
            let k = 1 + r.below(3) as usize;
            let pool: Vec<Decimal> = (0..k).map(|_| gen_wide(r)).collect();
            for _ in 0..len {
                v.push(*r.pick(&pool));
            }
            (v, "flavour_repeats")
        }
        3 => {
            // nearly identical large values: base + k * 1e-8
            let base = Decimal::new(r.range(1, 9) * 100_000_000 + r.range(0, 99_999_999), 0);
            let neg = r.chance(1, 3);
            for _ in 0..len {
                let d = base + Decimal::new(r.range(0, 50), 8);
                v.push(if neg { -d } else { d });
            }
            (v, "flavour_near_identical_large")
        }
        4 => {
            // small returns-like values around zero
            for _ in 0..len {
                v.push(Decimal::new(r.range(-2000, 2000), 4));
            }
            (v, "flavour_returns")
        }
        5 => {
            // integers, monotone up or down (every step moves a range bound)
            let up = r.chance(1, 2);
            let mut cur = r.range(-50, 50);
            for _ in 0..len {
                v.push(Decimal::new(cur, 0));
                cur += if up { r.range(0, 7) } else { -r.range(0, 7) };
            }
            (v, "flavour_monotone")
        }
        6 => {
            // all negative, mixed scales
            for _ in 0..len {
                v.push(-gen_wide(r).abs());
            }
            (v, "flavour_negative")
        }
        7 => {
            // tiny values only
            for _ in 0..len {
                let d = Decimal::new(r.range(1, 999), 8);
                v.push(if r.chance(1, 2) { -d } else { d });
            }
            (v, "flavour_tiny")
        }
        8 | 9 => {
            // small values around a centre; whenever the running mean of what was fed so far is
            // an exact decimal, the next value lands EXACTLY on it with probability 1/2 (the
            // recurrence M stays, the count grows: variance must still be recomputed)
            let scale = r.below(3) as u32;
            let centre = r.range(-30, 30);
            let mut sum = Decimal::ZERO;
            for i in 0..len {
                let n = Decimal::new(i as i64, 0);
                let on_mean = if i >= 2 && r.chance(1, 2) {
                    sum.checked_div(n).filter(|m| *m * n == sum && m.scale() <= 8)
                } else {
                    None
                };
                let x = match on_mean {
                    Some(m) => m,
                    None => {
                        if i % 2 == 1 && r.chance(1, 2) {
                            // mirror the previous value around the centre: the mean is the centre
                            Decimal::new(2 * centre, scale) - v[i - 1]
                        } else {
                            Decimal::new(centre + r.range(-6, 6), scale)
                        }
                    }
                };
                sum += x;
                v.push(x);
            }
            (v, "flavour_on_running_mean")
        }
        10 => {
            // all equal (zero included, in several representations)
            let x = if r.chance(1, 3) { gen_zero(r) } else { gen_wide(r) };
            for _ in 0..len {
                v.push(if x.is_zero() { gen_zero(r) } else { x });
            }
            (v, "flavour_all_equal")
        }
        11 => {
            // first value 0, then anything (non-positive half of the time)
            v.push(gen_zero(r));
            let nonpos = r.chance(1, 2);
            for _ in 1..len {
                let d = Decimal::new(r.range(0, 500), 2);
                v.push(if nonpos { -d } else if r.chance(1, 2) { -d } else { d });
            }
            (v, "flavour_first_zero")
        }
        _ => {
            // strictly negative small values (a losses-only return dataset)
            for _ in 0..len {
                v.push(-Decimal::new(r.range(1, 9999), 4));
            }
            (v, "flavour_losses_only")
        }
    }
}

fn dec(i: i64, scale: u32) -> Decimal {
    Decimal::new(i, scale)
}

/// Exhaustive tables over the abstract domain the control flow depends on.
fn table(em: &mut Emitter) {
    // Range::update: activated? x (high, low) incl. degenerate and inverted x position of x
    for act in [false, true] {
        for (hi, lo) in [(20, 20), (30, 10), (10, 30), (-10, -30), (0, 0)] {
            for x in [-40, -30, -20, -10, 0, 5, 10, 20, 25, 30, 40] {
                emit_range(em, "table", act, dec(hi, 1), dec(lo, 1), dec(x, 1));
            }
        }
    }
    for x in [-15, 0, 7] {
        emit_range_init(em, "table", dec(x, 1));
    }
    // calculate_population_variance: count below / at / above one
    for m in [0, 7, -3, 123456] {
        for c in ["0", "0.5", "0.99", "1", "1.0", "1.01", "2", "3", "7", "-1"] {
            emit_popvar(em, "table", dec(m, 0), c.parse().unwrap());
        }
    }
    // calculate_mean
    for pm in [-20, 0, 15] {
        for x in [-20, 0, 15, 70] {
            for c in [1, 2, 3, 7] {
                emit_mean(em, "table", dec(pm, 1), dec(x, 1), dec(c, 0));
            }
        }
    }
    // calculate_recurrence_relation_m: all four arguments distinct so that a swapped argument shows
    for m in [0, 5] {
        for pm in [-2, 1] {
            for x in [-3, 4] {
                for nm in [0, 3] {
                    emit_recm(em, "table", dec(m, 0), dec(pm, 0), dec(x, 0), dec(nm, 0));
                }
            }
        }
    }
    // DataSetSummary::update from arbitrary states: count x activated x range shape x position of x
    for count in [0, 1, 2, 5] {
        for act in [false, true] {
            for (hi, lo) in [(20, 20), (30, 10)] {
                for x in [0, 10, 20, 30, 40] {
                    for (mean, m) in [(0, 0), (20, 0), (18, 6), (20, 6)] {
                        let st = St {
                            count: dec(count, 0),
                            sum: dec(mean * count, 1),
                            mean: dec(mean, 1),
                            act,
                            high: dec(hi, 1),
                            low: dec(lo, 1),
                            m: dec(m, 1),
                            var: dec(1, 1),
                        };
                        emit_step(em, "table", &st, dec(x, 1));
                    }
                }
            }
        }
    }
    // the empty dataset and singletons
    emit_seq(em, "table", &[], &["empty"]);
    for x in [-15, 0, 7] {
        emit_seq(em, "table", &[dec(x, 1)], &["singleton"]);
    }
    // values landing exactly on the running mean after a non-zero spread, all-equal, all-zero,
    // all-negative, first value zero: as sequences and in every arrival order
    let named: [&[i64]; 14] = [
        &[10, 30, 20],
        &[-5, 15, 5],
        &[100, 200, 300, 200, 200],
        &[-40, 40, 0, 0, 0],
        &[10, 20, 30],
        &[0],
        &[0, 0, 0],
        &[50, 50, 50],
        &[-425],
        &[-3, -1, -2],
        &[0, -10],
        &[0, 10],
        &[-7, -7],
        &[10, 30, 20, 20, 20, 20],
    ];
    for l in named {
        let v: Vec<Decimal> = l.iter().map(|x| dec(*x, 1)).collect();
        emit_seq(em, "table", &v, &["named_dataset"]);
        // the same with a persist/restore step after every prefix
        let every: Vec<usize> = (0..=v.len()).collect();
        emit_seq_p(em, "table", &v, &every, &["named_dataset"]);
        if v.len() <= 4 {
            emit_perms(em, "table", &v);
        }
    }
}

fn main() {
    quiet_panics();
    let args = parse_args();
    let mut em = Emitter::create(&args.out);
    match args.mode.as_str() {
        "gen" => {
            let mut r = Rng::new(args.seed);
            let thorough = args.tier == "thorough";
            let (n_seq, max_len, n_long, n_perm, max_perm, n_adv) = if thorough {
                (2000, 60, 30, 60, 6, 500)
            } else {
                (210, 30, 2, 40, 4, 60)
            };
            table(&mut em);
            for _ in 0..n_seq {
                let len = 1 + r.below(max_len) as usize;
                let (v, fl) = gen_dataset(&mut r, len);
                let persist = gen_persist(&mut r, v.len());
                emit_seq_p(&mut em, "random", &v, &persist, &[fl]);
            }
            for _ in 0..n_long {
                let len = 150 + r.below(51) as usize;
                let (v, fl) = gen_dataset(&mut r, len);
                emit_seq(&mut em, "random", &v, &[fl, "long"]);
            }
            // every arrival order of small multisets
            for i in 0..n_perm {
                let k = if i < 3 { i as usize } else { 2 + r.below(max_perm - 1) as usize };
                let (mut v, _) = gen_dataset(&mut r, k);
                if k >= 2 && r.chance(1, 3) {
                    v[1] = v[0]; // a repeated value
                }
                emit_perms(&mut em, "random", &v);
            }
            // adversarial: extremes next to each other, equal values, sign flips, zeros in
            // several representations, the same multiset shuffled
            for _ in 0..n_adv {
                let len = 2 + r.below(10) as usize;
                let mut v = vec![];
                let big = Decimal::new(r.range(1, 9_999_999_999), 0);
                let small = Decimal::new(r.range(1, 99), 8);
                for _ in 0..len {
                    v.push(match r.below(7) {
                        0 => big,
                        1 => -big,
                        2 => small,
                        3 => -small,
                        4 => gen_zero(&mut r),
                        5 => big + small,
                        _ => gen_wide(&mut r),
                    });
                }
                let persist = gen_persist(&mut r, v.len());
                emit_seq_p(&mut em, "adversarial", &v, &persist, &["adversarial_extremes"]);
                let mut w = v.clone();
                r.shuffle(&mut w);
                let persist = gen_persist(&mut r, w.len());
                emit_seq_p(&mut em, "adversarial", &w, &persist, &["adversarial_shuffled"]);
            }
        }
        "exec" => {
            for (inp, stream) in read_inputs(args.input.as_deref().expect("--in")) {
                exec_input(&mut em, stream_static(&stream), &inp);
            }
        }
        m => panic!("unknown mode {m}"),
    }
    em.finish();
}
