//! Shared correspondence machinery for the engine-level properties (C03, C19).
//!
//! A case = an initial engine (trading flag, one execution link per exchange index in a chosen
//! condition, instrument states with orders / position / last price written directly into the
//! public fields of the real `EngineState`) + a list of steps. Every step installs a *script*
//! (what the stub `AlgoStrategy` returns, the stub `RiskManager`'s verdict per request, what the
//! `ClosePositionsStrategy` does) and then drives the real `Engine` (`process`, or
//! `generate_algo_orders()` / `action()` directly, or an environment change of a link). After
//! every step the receivers of all links are drained and the whole instrument state is read back.
//! Input and observations are printed as one Gallina term of type `Corr.EngineCase.case`.
use barter::{
    EngineEvent, Timed,
    engine::{
        Engine, EngineOutput, Processor,
        action::{
            ActionOutput,
            cancel_orders::CancelOrders,
            close_positions::ClosePositions,
            generate_algo_orders::{GenerateAlgoOrders, GenerateAlgoOrdersOutput},
            send_requests::SendRequestsOutput,
        },
        audit::EngineAudit,
        clock::HistoricalClock,
        command::Command,
        error::{EngineError, RecoverableEngineError, UnrecoverableEngineError},
        execution_tx::MultiExchangeTxMap,
        state::{
            EngineState,
            global::DefaultGlobalData,
            instrument::{data::DefaultInstrumentMarketData, filter::InstrumentFilter},
            position::Position,
            trading::TradingState,
        },
    },
    execution::{
        AccountStreamEvent,
        builder::{ExecutionBuildFutures, ExecutionBuilder},
        request::ExecutionRequest,
    },
    risk::{RiskApproved, RiskManager, RiskRefused},
    strategy::{
        algo::AlgoStrategy,
        close_positions::{ClosePositionsStrategy, close_open_positions_with_market_orders},
        on_disconnect::OnDisconnectStrategy,
        on_trading_disabled::OnTradingDisabled,
    },
};
use barter_data::{
    event::{DataKind, MarketEvent},
    streams::consumer::MarketStreamEvent,
    books::{Level, OrderBook},
    subscription::{
        book::{OrderBookEvent, OrderBookL1},
        candle::Candle,
        liquidation::Liquidation,
        trade::PublicTrade,
    },
};
use barter_execution::{
    AccountEvent, AccountEventKind, AccountSnapshot, InstrumentAccountSnapshot,
    balance::{AssetBalance, Balance},
    client::mock::MockExecutionConfig,
    error::{ApiError, ConnectivityError, OrderError},
    order::{
        Order, OrderKey, OrderKind, TimeInForce,
        id::{ClientOrderId, OrderId, StrategyId},
        request::{OrderRequestCancel, OrderRequestOpen, RequestCancel, RequestOpen},
        state::{ActiveOrderState, CancelInFlight, Cancelled, InactiveOrderState, Open, OpenInFlight, OrderState},
    },
    trade::{AssetFees, Trade, TradeId},
};
use barter_instrument::{
    Side, Underlying,
    asset::AssetIndex,
    exchange::{ExchangeId, ExchangeIndex},
    index::IndexedInstruments,
    instrument::{
        Instrument, InstrumentIndex,
        kind::{
            InstrumentKind, future::FutureContract, option::{OptionContract, OptionExercise, OptionKind},
            perpetual::PerpetualContract,
        },
        quote::InstrumentQuoteAsset,
    },
};
use barter_integration::{
    Unrecoverable,
    channel::{Tx, UnboundedRx, UnboundedTx, mpsc_unbounded},
    collection::one_or_many::OneOrMany,
    snapshot::Snapshot,
};
use chrono::{DateTime, TimeZone, Utc};
use rust_decimal::Decimal;
use serde::{Deserialize, Serialize};
use std::sync::{
    Arc, Mutex,
    atomic::{AtomicBool, Ordering},
};
use vh_common::{b, dec_scaled, list, opt, pair};

// ---------------------------------------------------------------------------------------------
// Input specification (JSON)
// ---------------------------------------------------------------------------------------------

/// decimals are i64 mantissas at scale 1e-4
pub type D4 = i64;
pub fn d4(m: D4) -> Decimal {
    Decimal::new(m, 4)
}

#[derive(Serialize, Deserialize, Clone, Debug, PartialEq, Eq, Copy)]
pub enum LinkS {
    Open,
    Closed,
    Unhealthy,
    Missing,
}

#[derive(Serialize, Deserialize, Clone, Debug, PartialEq, Eq)]
pub struct KeyS {
    pub ex: usize,
    pub inst: usize,
    pub strat: u32,
    pub cid: u32,
}
#[derive(Serialize, Deserialize, Clone, Debug, PartialEq, Eq)]
pub struct OpenS {
    pub key: KeyS,
    pub buy: bool,
    pub price: D4,
    pub qty: D4,
    pub kind: u8,
    pub tif: u8,
}
#[derive(Serialize, Deserialize, Clone, Debug, PartialEq, Eq)]
pub struct CancelS {
    pub key: KeyS,
    pub id: Option<u32>,
}
#[derive(Serialize, Deserialize, Clone, Debug, PartialEq, Eq)]
pub struct MetaS {
    pub oid: u32,
    /// nanoseconds relative to the harness epoch
    pub t: i64,
    pub filled: D4,
}
/// L1 book: its own last_update_time (ns), best bid / ask as (price, amount)
#[derive(Serialize, Deserialize, Clone, Debug, PartialEq, Eq)]
pub struct L1S {
    pub t: i64,
    pub bid: Option<(D4, D4)>,
    pub ask: Option<(D4, D4)>,
}
#[derive(Serialize, Deserialize, Clone, Debug, PartialEq, Eq)]
pub enum StS {
    Oif,
    Open(MetaS),
    Cif(Option<MetaS>),
}
#[derive(Serialize, Deserialize, Clone, Debug, PartialEq, Eq)]
pub struct OrderS {
    pub key: KeyS,
    pub buy: bool,
    pub price: D4,
    pub qty: D4,
    pub kind: u8,
    pub tif: u8,
    pub st: StS,
}
#[derive(Serialize, Deserialize, Clone, Debug, PartialEq, Eq)]
pub struct PosS {
    pub buy: bool,
    pub qty: D4,
    pub qty_max: D4,
}
#[derive(Serialize, Deserialize, Clone, Debug, PartialEq, Eq)]
pub struct InstS {
    /// position in the harness' fixed ExchangeId table
    pub ex: usize,
    pub base: String,
    pub quote: String,
    pub orders: Vec<OrderS>,
    pub pos: Option<PosS>,
    pub last: Option<(i64, D4)>,
    /// 0 spot, 1 perpetual, 2 future, 3 option
    #[serde(default)]
    pub kind: u8,
    /// contract size (scale 1e-4) and settlement asset name of a derivative
    #[serde(default)]
    pub csize: D4,
    #[serde(default)]
    pub settle: String,
    #[serde(default)]
    pub l1: Option<L1S>,
}
#[derive(Serialize, Deserialize, Clone, Debug, PartialEq, Eq)]
pub enum FilterS {
    None,
    Exchanges(Vec<usize>),
    Instruments(Vec<usize>),
    Underlyings(Vec<(usize, usize)>),
}
#[derive(Serialize, Deserialize, Clone, Debug, PartialEq, Eq)]
pub enum CmdS {
    SendCancels(Vec<CancelS>),
    SendOpens(Vec<OpenS>),
    ClosePositions(FilterS),
    CancelOrders(FilterS),
}
#[derive(Serialize, Deserialize, Clone, Debug, PartialEq, Eq)]
pub enum SnapS {
    Open(MetaS),
    Cancelled,
    FullyFilled,
    Expired,
    /// open failed with the given error class (see `order_error`)
    OpenFailed(u8),
    /// in-flight markers
    Oif,
    Cif(Option<MetaS>),
}
#[derive(Serialize, Deserialize, Clone, Debug, PartialEq, Eq)]
pub enum EvS {
    Shutdown,
    Command(CmdS),
    Trading(bool),
    /// `order.st` is ignored; `snap` is the reported state
    OrderSnapshot { order: OrderS, snap: SnapS },
    /// full account snapshot: order snapshots (grouped by the instrument their key names) and,
    /// if `balances`, a balance for asset 0
    AccountSnapshot { orders: Vec<(OrderS, SnapS)>, balances: bool },
    /// `err`: error class of a failed cancel (see `order_error`), ignored when `ok`
    CancelResponse { key: KeyS, ok: bool, #[serde(default)] err: u8 },
    BalanceSnapshot { total: D4, t: i64 },
    Trade { inst: usize, buy: bool, qty: D4, price: D4, fee: D4 },
    AccountReconnecting,
    /// price must be a multiple of 0.25 (exact f64 -> Decimal conversion)
    MarketTrade { inst: usize, t: i64, price: D4 },
    MarketL1 { inst: usize, t: i64, l1: L1S },
    /// market events without effect on prices: 0 L2 snapshot (empty), 1 L2 update (one-sided),
    /// 2 candle, 3 liquidation
    MarketOther { inst: usize, t: i64, kind: u8 },
    MarketReconnecting,
}
#[derive(Serialize, Deserialize, Clone, Debug, PartialEq, Eq)]
pub enum OpS {
    Process(EvS),
    Generate,
    Action(CmdS),
    SetLink(usize, LinkS),
    /// the public trait method called directly on the Engine: CancelOrders::cancel_orders /
    /// ClosePositions::close_positions (SendCancels / SendOpens fall back to Engine::action)
    Call(CmdS),
    /// Engine::process of the event that triggers the strategy hook, whose code calls the trait
    /// method for the command (0 account Reconnecting, 1 market Reconnecting, 2 TradingStateUpdate(Disabled))
    Hook(u8, CmdS),
}
#[derive(Serialize, Deserialize, Clone, Debug, PartialEq, Eq, Default)]
pub struct GS {
    pub cancels: Vec<CancelS>,
    pub opens: Vec<OpenS>,
    pub cmask: Vec<bool>,
    pub omask: Vec<bool>,
}
#[derive(Serialize, Deserialize, Clone, Debug, PartialEq, Eq)]
pub enum CloseS {
    Default { strat: u32, cid_base: u32 },
    Scripted { cancels: Vec<CancelS>, opens: Vec<OpenS> },
}
#[derive(Serialize, Deserialize, Clone, Debug, PartialEq, Eq)]
pub struct StepS {
    pub op: OpS,
    pub g: GS,
    pub close: CloseS,
    /// build one-element filters / request lists as OneOrMany::Many(vec![x]) instead of One(x)
    #[serde(default)]
    pub many1: bool,
}
#[derive(Serialize, Deserialize, Clone, Debug, PartialEq, Eq)]
pub struct Spec {
    /// build the execution-link map through the public `ExecutionBuilder` (add_mock for the
    /// exchanges whose link is Open, no execution for the others) instead of `from_iter`
    #[serde(default)]
    pub builder: bool,
    /// which exchange-id table the instruments' `ex` indexes (see `EXSETS`)
    #[serde(default)]
    pub exset: u8,
    pub trading: bool,
    pub links: Vec<LinkS>,
    pub instruments: Vec<InstS>,
    pub steps: Vec<StepS>,
}

// ---------------------------------------------------------------------------------------------
// Execution links
// ---------------------------------------------------------------------------------------------

#[derive(Debug)]
pub enum HErr {
    Chan(tokio::sync::mpsc::error::SendError<ExecutionRequest>),
    Unhealthy,
}
impl Unrecoverable for HErr {
    fn is_unrecoverable(&self) -> bool {
        match self {
            // the real classification of a failed channel send
            HErr::Chan(e) => e.is_unrecoverable(),
            HErr::Unhealthy => false,
        }
    }
}

/// The real unbounded transmitter plus a switch that makes `send` fail with a recoverable error.
#[derive(Debug, Clone)]
pub struct HTx {
    tx: UnboundedTx<ExecutionRequest>,
    unhealthy: Arc<AtomicBool>,
    /// sender-side record of every request the real channel accepted (used where the receiver is
    /// owned by an ExecutionManager future built by `ExecutionBuilder`)
    tap: Option<Arc<Mutex<Vec<ExecutionRequest>>>>,
}
impl Tx for HTx {
    type Item = ExecutionRequest;
    type Error = HErr;
    fn send<Item: Into<Self::Item>>(&self, item: Item) -> Result<(), Self::Error> {
        if self.unhealthy.load(Ordering::SeqCst) {
            Err(HErr::Unhealthy)
        } else {
            let item: ExecutionRequest = item.into();
            let copy = self.tap.as_ref().map(|_| item.clone());
            self.tx.send(item).map_err(HErr::Chan)?;
            if let (Some(tap), Some(copy)) = (&self.tap, copy) {
                tap.lock().unwrap().push(copy);
            }
            Ok(())
        }
    }
}

pub struct LinkH {
    pub stat: LinkS,
    rx: Option<UnboundedRx<ExecutionRequest>>,
    tap: Option<Arc<Mutex<Vec<ExecutionRequest>>>>,
}

fn make_link(stat: LinkS) -> (Option<HTx>, LinkH) {
    match stat {
        LinkS::Missing => (None, LinkH { stat, rx: None, tap: None }),
        _ => {
            let (tx, rx) = mpsc_unbounded::<ExecutionRequest>();
            let htx = HTx {
                tx,
                unhealthy: Arc::new(AtomicBool::new(stat == LinkS::Unhealthy)),
                tap: None,
            };
            // a closed channel = the receiver is gone
            let rx = if stat == LinkS::Closed { None } else { Some(rx) };
            (Some(htx), LinkH { stat, rx, tap: None })
        }
    }
}

// ---------------------------------------------------------------------------------------------
// Stub strategy / risk manager
// ---------------------------------------------------------------------------------------------

pub type St = EngineState<DefaultGlobalData, DefaultInstrumentMarketData>;
pub type Txs = MultiExchangeTxMap<HTx>;
pub type Eng = Engine<HistoricalClock, St, Txs, Stub, StubRisk>;

pub enum CloseMode {
    Default { id: StrategyId, cid_base: u32 },
    Scripted(Vec<OrderRequestCancel>, Vec<OrderRequestOpen>),
}
#[derive(Clone)]
pub enum HookCall {
    Cancel(InstrumentFilter),
    Close(InstrumentFilter),
}
pub struct Stub {
    pub cancels: Vec<OrderRequestCancel>,
    pub opens: Vec<OrderRequestOpen>,
    pub close: CloseMode,
    /// what the strategy hooks do when the engine calls them: call the public trait method
    pub hook: Option<HookCall>,
}
fn run_hook(engine: &mut Eng) -> Option<ActionOutput> {
    match engine.strategy.hook.clone() {
        None => None,
        Some(HookCall::Cancel(f)) => Some(ActionOutput::CancelOrders(CancelOrders::cancel_orders(engine, &f))),
        Some(HookCall::Close(f)) => Some(ActionOutput::ClosePositions(ClosePositions::close_positions(engine, &f))),
    }
}
pub struct StubRisk {
    pub cmask: Vec<bool>,
    pub omask: Vec<bool>,
}

impl AlgoStrategy for Stub {
    type State = St;
    fn generate_algo_orders(
        &self,
        _: &Self::State,
    ) -> (
        impl IntoIterator<Item = OrderRequestCancel<ExchangeIndex, InstrumentIndex>>,
        impl IntoIterator<Item = OrderRequestOpen<ExchangeIndex, InstrumentIndex>>,
    ) {
        (self.cancels.clone(), self.opens.clone())
    }
}

impl ClosePositionsStrategy for Stub {
    type State = St;
    fn close_positions_requests<'a>(
        &'a self,
        state: &'a Self::State,
        filter: &'a InstrumentFilter<ExchangeIndex, AssetIndex, InstrumentIndex>,
    ) -> (
        impl IntoIterator<Item = OrderRequestCancel<ExchangeIndex, InstrumentIndex>> + 'a,
        impl IntoIterator<Item = OrderRequestOpen<ExchangeIndex, InstrumentIndex>> + 'a,
    )
    where
        ExchangeIndex: 'a,
        AssetIndex: 'a,
        InstrumentIndex: 'a,
    {
        match &self.close {
            CloseMode::Default { id, cid_base } => {
                let base = *cid_base;
                let (c, o) = close_open_positions_with_market_orders(id, state, filter, move |st| {
                    ClientOrderId::new((base as usize + st.key.index()).to_string())
                });
                (
                    c.into_iter().collect::<Vec<_>>(),
                    o.into_iter().collect::<Vec<_>>(),
                )
            }
            CloseMode::Scripted(c, o) => (c.clone(), o.clone()),
        }
    }
}

#[derive(Debug, PartialEq, Clone)]
pub struct OnDisconnectOut(pub Option<ActionOutput>);
#[derive(Debug, PartialEq, Clone)]
pub struct OnTradingDisabledOut(pub Option<ActionOutput>);

impl OnDisconnectStrategy<HistoricalClock, St, Txs, StubRisk> for Stub {
    type OnDisconnect = OnDisconnectOut;
    fn on_disconnect(engine: &mut Eng, _: ExchangeId) -> Self::OnDisconnect {
        OnDisconnectOut(run_hook(engine))
    }
}
impl OnTradingDisabled<HistoricalClock, St, Txs, StubRisk> for Stub {
    type OnTradingDisabled = OnTradingDisabledOut;
    fn on_trading_disabled(engine: &mut Eng) -> Self::OnTradingDisabled {
        OnTradingDisabledOut(run_hook(engine))
    }
}

fn verdict(mask: &[bool], i: usize) -> bool {
    mask.get(i).copied().unwrap_or(true)
}

impl RiskManager for StubRisk {
    type State = St;
    fn check(
        &self,
        _: &Self::State,
        cancels: impl IntoIterator<Item = OrderRequestCancel<ExchangeIndex, InstrumentIndex>>,
        opens: impl IntoIterator<Item = OrderRequestOpen<ExchangeIndex, InstrumentIndex>>,
    ) -> (
        impl IntoIterator<Item = RiskApproved<OrderRequestCancel<ExchangeIndex, InstrumentIndex>>>,
        impl IntoIterator<Item = RiskApproved<OrderRequestOpen<ExchangeIndex, InstrumentIndex>>>,
        impl IntoIterator<Item = RiskRefused<OrderRequestCancel<ExchangeIndex, InstrumentIndex>>>,
        impl IntoIterator<Item = RiskRefused<OrderRequestOpen<ExchangeIndex, InstrumentIndex>>>,
    ) {
        let mut ac = vec![];
        let mut rc = vec![];
        for (i, c) in cancels.into_iter().enumerate() {
            if verdict(&self.cmask, i) {
                ac.push(RiskApproved::new(c))
            } else {
                rc.push(RiskRefused::new(c, "refused"))
            }
        }
        let mut ao = vec![];
        let mut ro = vec![];
        for (i, o) in opens.into_iter().enumerate() {
            if verdict(&self.omask, i) {
                ao.push(RiskApproved::new(o))
            } else {
                ro.push(RiskRefused::new(o, "refused"))
            }
        }
        (ac, ao, rc, ro)
    }
}

// ---------------------------------------------------------------------------------------------
// Spec -> real values
// ---------------------------------------------------------------------------------------------

/// harness epoch in ns since 1970; spec times are ns offsets from it (ns resolution on purpose:
/// comparisons at ms / s granularity must be visible)
const T0: i64 = 1_700_000_000_000_000_000;
pub fn time_of(t: i64) -> DateTime<Utc> {
    Utc.timestamp_nanos(T0 + t)
}
fn ms_of(t: DateTime<Utc>) -> i64 {
    t.timestamp_nanos_opt().expect("time in range") - T0
}

/// exchanges an instrument can live on; the index builder sorts by the enum order, so this table
/// is in enum order and `InstS::ex = k` becomes ExchangeIndex(k) when 0..k are all in use
/// Each table is in enum DECLARATION order (so `InstS::ex = k` becomes ExchangeIndex(k) when 0..k are
/// all in use) while its NAME order differs: {Simulated, Mock, BinanceSpot}, {Mock, BinanceSpot},
/// {Bitstamp, Bitvavo, Bithumb, .., Okx} ...
pub const EXSETS: [[ExchangeId; 6]; 3] = [
    [ExchangeId::Simulated, ExchangeId::Mock, ExchangeId::BinanceSpot, ExchangeId::Bitvavo, ExchangeId::Bithumb, ExchangeId::Kraken],
    [ExchangeId::Mock, ExchangeId::BinanceSpot, ExchangeId::Bitstamp, ExchangeId::Bithumb, ExchangeId::Kraken, ExchangeId::Okx],
    [ExchangeId::Bitstamp, ExchangeId::Bithumb, ExchangeId::Okx, ExchangeId::Poloniex, ExchangeId::Poloniex, ExchangeId::Poloniex],
];
/// ids for link-map entries beyond the engine's exchanges
const SPARE: [ExchangeId; 4] = [ExchangeId::Other, ExchangeId::Gemini, ExchangeId::Htx, ExchangeId::Deribit];
/// receive latencies (ns) of market events: none, tiny, sub-ms, larger than any gap between events,
/// and received BEFORE the exchange time; the engine must use time_exchange only
const LATENCIES: [i64; 10] = [0, 1, 999, 250_000, 1_000_000, 5_000_000_000, 100_000_000_000_000, 17, 0, -2_000_000];

fn side_of(buy: bool) -> Side {
    if buy { Side::Buy } else { Side::Sell }
}
fn kind_of(k: u8) -> OrderKind {
    if k == 0 { OrderKind::Market } else { OrderKind::Limit }
}
fn tif_of(t: u8) -> TimeInForce {
    match t {
        0 => TimeInForce::GoodUntilCancelled { post_only: false },
        1 => TimeInForce::GoodUntilCancelled { post_only: true },
        2 => TimeInForce::GoodUntilEndOfDay,
        3 => TimeInForce::FillOrKill,
        _ => TimeInForce::ImmediateOrCancel,
    }
}
pub fn key_of(k: &KeyS) -> OrderKey {
    OrderKey {
        exchange: ExchangeIndex(k.ex),
        instrument: InstrumentIndex(k.inst),
        strategy: StrategyId::new(k.strat.to_string()),
        cid: ClientOrderId::new(k.cid.to_string()),
    }
}
pub fn open_of(o: &OpenS) -> OrderRequestOpen {
    OrderRequestOpen {
        key: key_of(&o.key),
        state: RequestOpen {
            side: side_of(o.buy),
            price: d4(o.price),
            quantity: d4(o.qty),
            kind: kind_of(o.kind),
            time_in_force: tif_of(o.tif),
        },
    }
}
pub fn cancel_of(c: &CancelS) -> OrderRequestCancel {
    OrderRequestCancel {
        key: key_of(&c.key),
        state: RequestCancel {
            id: c.id.map(|i| OrderId::new(i.to_string())),
        },
    }
}
fn meta_of(m: &MetaS) -> Open {
    Open {
        id: OrderId::new(m.oid.to_string()),
        time_exchange: time_of(m.t),
        filled_quantity: d4(m.filled),
    }
}
fn active_of(st: &StS) -> ActiveOrderState {
    match st {
        StS::Oif => ActiveOrderState::OpenInFlight(OpenInFlight),
        StS::Open(m) => ActiveOrderState::Open(meta_of(m)),
        StS::Cif(m) => ActiveOrderState::CancelInFlight(CancelInFlight {
            order: m.as_ref().map(meta_of),
        }),
    }
}
fn order_of(o: &OrderS) -> Order<ExchangeIndex, InstrumentIndex, ActiveOrderState> {
    Order {
        key: key_of(&o.key),
        side: side_of(o.buy),
        price: d4(o.price),
        quantity: d4(o.qty),
        kind: kind_of(o.kind),
        time_in_force: tif_of(o.tif),
        state: active_of(&o.st),
    }
}
/// `many1`: a single element stays `Many(vec![x])` (the constructors normalise it to `One(x)`)
fn one_or_many<T>(v: Vec<T>, many1: bool) -> OneOrMany<T> {
    if many1 && v.len() == 1 { OneOrMany::Many(v) } else { OneOrMany::from_iter(v) }
}
fn filter_of(f: &FilterS, many1: bool) -> InstrumentFilter {
    let one_or_many = |v| one_or_many(v, many1);
    match f {
        FilterS::None => InstrumentFilter::None,
        FilterS::Exchanges(l) => InstrumentFilter::Exchanges(self::one_or_many(l.iter().map(|e| ExchangeIndex(*e)).collect(), many1)),
        FilterS::Instruments(l) => {
            InstrumentFilter::Instruments(self::one_or_many(l.iter().map(|e| InstrumentIndex(*e)).collect(), many1))
        }
        FilterS::Underlyings(l) => InstrumentFilter::Underlyings(one_or_many(
            l.iter()
                .map(|(b, q)| Underlying {
                    base: AssetIndex(*b),
                    quote: AssetIndex(*q),
                })
                .collect(),
        )),
    }
}
fn command_of(c: &CmdS, many1: bool) -> Command {
    match c {
        CmdS::SendCancels(l) => Command::SendCancelRequests(one_or_many(l.iter().map(cancel_of).collect(), many1)),
        CmdS::SendOpens(l) => Command::SendOpenRequests(one_or_many(l.iter().map(open_of).collect(), many1)),
        CmdS::ClosePositions(f) => Command::ClosePositions(filter_of(f, many1)),
        CmdS::CancelOrders(f) => Command::CancelOrders(filter_of(f, many1)),
    }
}

/// every error class an order response can carry
fn order_error(k: u8) -> OrderError<AssetIndex, InstrumentIndex> {
    match k % 10 {
        0 => OrderError::Connectivity(ConnectivityError::Timeout),
        1 => OrderError::Connectivity(ConnectivityError::ExchangeOffline(ExchangeId::Kraken)),
        2 => OrderError::Connectivity(ConnectivityError::Socket("reset".into())),
        3 => OrderError::Rejected(ApiError::RateLimit),
        4 => OrderError::Rejected(ApiError::AssetInvalid(AssetIndex(0), "x".into())),
        5 => OrderError::Rejected(ApiError::InstrumentInvalid(InstrumentIndex(0), "x".into())),
        6 => OrderError::Rejected(ApiError::BalanceInsufficient(AssetIndex(1), "x".into())),
        7 => OrderError::Rejected(ApiError::OrderRejected("no".into())),
        8 => OrderError::Rejected(ApiError::OrderAlreadyCancelled),
        _ => OrderError::Rejected(ApiError::OrderAlreadyFullyFilled),
    }
}
fn snap_state(snap: &SnapS) -> OrderState<AssetIndex, InstrumentIndex> {
    match snap {
        SnapS::Open(m) => OrderState::active(meta_of(m)),
        SnapS::Cancelled => OrderState::inactive(Cancelled {
            id: OrderId::new("x"),
            time_exchange: time_of(7),
        }),
        SnapS::FullyFilled => OrderState::fully_filled(),
        SnapS::Expired => OrderState::expired(),
        SnapS::OpenFailed(k) => OrderState::Inactive(InactiveOrderState::OpenFailed(order_error(*k))),
        SnapS::Oif => OrderState::active(OpenInFlight),
        SnapS::Cif(m) => OrderState::active(CancelInFlight { order: m.as_ref().map(meta_of) }),
    }
}
fn order_snapshot(order: &OrderS, snap: &SnapS) -> Order<ExchangeIndex, InstrumentIndex, OrderState<AssetIndex, InstrumentIndex>> {
    Order {
        key: key_of(&order.key),
        side: side_of(order.buy),
        price: d4(order.price),
        quantity: d4(order.qty),
        kind: kind_of(order.kind),
        time_in_force: tif_of(order.tif),
        state: snap_state(snap),
    }
}
fn level_of(l: &(D4, D4)) -> Level {
    Level::new(d4(l.0), d4(l.1))
}
fn l1_of(l: &L1S) -> OrderBookL1 {
    OrderBookL1 {
        last_update_time: time_of(l.t),
        best_bid: l.bid.as_ref().map(level_of),
        best_ask: l.ask.as_ref().map(level_of),
    }
}

fn event_of(ev: &EvS, eng: &Eng, many1: bool, step: usize) -> EngineEvent<DataKind> {
    let first_exchange = *eng.state.connectivity.exchange_ids().next().expect("an exchange");
    let n_ex = eng.state.connectivity.exchanges.len();
    let acct = |ex: usize, kind: AccountEventKind<ExchangeIndex, AssetIndex, InstrumentIndex>| {
        EngineEvent::Account(AccountStreamEvent::Item(AccountEvent {
            // the account stream's own exchange tag (only touches connectivity); keep it valid
            exchange: ExchangeIndex(if ex < n_ex { ex } else { 0 }),
            kind,
        }))
    };
    let market = |inst: usize, t: i64, kind: DataKind| {
        let ex = eng
            .state
            .instruments
            .0
            .get_index(inst)
            .map(|(_, s)| s.instrument.exchange.index())
            .unwrap_or(0);
        let exchange = *eng.state.connectivity.exchange_ids().nth(ex).unwrap_or(&first_exchange);
        EngineEvent::Market(MarketStreamEvent::Item(MarketEvent {
            time_exchange: time_of(t),
            // decoy: the engine must use time_exchange
            time_received: time_of(t + LATENCIES[(step + inst + (t.rem_euclid(7) as usize)) % LATENCIES.len()]),
            exchange,
            instrument: InstrumentIndex(inst),
            kind,
        }))
    };
    match ev {
        EvS::Shutdown => EngineEvent::Shutdown(barter::shutdown::Shutdown),
        EvS::Command(c) => EngineEvent::Command(command_of(c, many1)),
        EvS::Trading(b) => EngineEvent::TradingStateUpdate(if *b { TradingState::Enabled } else { TradingState::Disabled }),
        EvS::OrderSnapshot { order, snap } => {
            // the account stream's own exchange tag is a decoy (it only touches connectivity)
            acct(order.key.ex + 1, AccountEventKind::OrderSnapshot(Snapshot(order_snapshot(order, snap))))
        }
        EvS::AccountSnapshot { orders, balances } => {
            // group the order snapshots by the instrument their key names, keeping their order
            let mut groups: Vec<InstrumentAccountSnapshot<ExchangeIndex, AssetIndex, InstrumentIndex>> = vec![];
            for (o, sn) in orders {
                let inst = InstrumentIndex(o.key.inst);
                let snap = order_snapshot(o, sn);
                match groups.last_mut() {
                    Some(g) if g.instrument == inst => g.orders.push(snap),
                    _ => groups.push(InstrumentAccountSnapshot { instrument: inst, orders: vec![snap] }),
                }
            }
            acct(
                0,
                AccountEventKind::Snapshot(AccountSnapshot {
                    exchange: ExchangeIndex(0),
                    balances: if *balances {
                        vec![AssetBalance { asset: AssetIndex(0), balance: Balance::new(d4(50_000), d4(40_000)), time_exchange: time_of(3) }]
                    } else {
                        vec![]
                    },
                    instruments: groups,
                }),
            )
        }
        EvS::BalanceSnapshot { total, t } => acct(
            0,
            AccountEventKind::BalanceSnapshot(Snapshot(AssetBalance {
                asset: AssetIndex(1),
                balance: Balance::new(d4(*total), d4(*total / 2)),
                time_exchange: time_of(*t),
            })),
        ),
        EvS::CancelResponse { key, ok, err } => acct(
            key.ex,
            AccountEventKind::OrderCancelled(barter_execution::order::OrderEvent {
                key: key_of(key),
                state: if *ok {
                    Ok(Cancelled {
                        id: OrderId::new("x"),
                        time_exchange: time_of(9),
                    })
                } else {
                    Err(order_error(*err))
                },
            }),
        ),
        EvS::Trade { inst, buy, qty, price, fee } => acct(
            0,
            AccountEventKind::Trade(Trade {
                id: TradeId::new("t"),
                order_id: OrderId::new("o"),
                instrument: InstrumentIndex(*inst),
                strategy: StrategyId::new("0"),
                time_exchange: time_of(11),
                side: side_of(*buy),
                price: d4(*price),
                quantity: d4(*qty),
                fees: AssetFees::quote_fees(d4(*fee)),
            }),
        ),
        EvS::AccountReconnecting => EngineEvent::Account(AccountStreamEvent::Reconnecting(first_exchange)),
        EvS::MarketTrade { inst, t, price } => market(
            *inst,
            *t,
            DataKind::Trade(PublicTrade {
                id: "m".to_string(),
                price: (*price as f64) / 10000.0,
                amount: 1.0,
                side: Side::Buy,
            }),
        ),
        EvS::MarketL1 { inst, t, l1 } => market(*inst, *t, DataKind::OrderBookL1(l1_of(l1))),
        EvS::MarketOther { inst, t, kind } => market(
            *inst,
            *t,
            match kind % 4 {
                0 => DataKind::OrderBook(OrderBookEvent::Snapshot(OrderBook::new(1, None, Vec::<Level>::new(), Vec::<Level>::new()))),
                1 => DataKind::OrderBook(OrderBookEvent::Update(OrderBook::new(
                    2,
                    Some(time_of(*t)),
                    vec![Level::new(d4(123_400), d4(5_000))],
                    Vec::<Level>::new(),
                ))),
                2 => DataKind::Candle(Candle {
                    close_time: time_of(*t),
                    open: 1.0,
                    high: 4.0,
                    low: 0.5,
                    close: 2.0,
                    volume: 10.0,
                    trade_count: 3,
                }),
                _ => DataKind::Liquidation(Liquidation { side: Side::Sell, price: 3.25, quantity: 2.0, time: time_of(*t) }),
            },
        ),
        EvS::MarketReconnecting => EngineEvent::Market(MarketStreamEvent::Reconnecting(first_exchange)),
    }
}

// ---------------------------------------------------------------------------------------------
// Engine construction
// ---------------------------------------------------------------------------------------------

pub struct Built {
    pub eng: Eng,
    pub links: Vec<LinkH>,
    /// the ExecutionBuilder's account channel and (un-polled) futures, kept alive so that the
    /// execution request receivers they own stay open
    _keep: Option<(barter_integration::channel::Channel<AccountStreamEvent>, ExecutionBuildFutures)>,
}

pub fn build(spec: &Spec) -> Built {
    assert!(!spec.instruments.is_empty(), "at least one instrument");
    let mut bld = IndexedInstruments::builder();
    for (j, i) in spec.instruments.iter().enumerate() {
        let settle = || barter_instrument::asset::Asset::from(if i.settle.is_empty() { i.quote.as_str() } else { i.settle.as_str() });
        let csize = if i.csize == 0 { Decimal::ONE } else { d4(i.csize) };
        // the MockExchange behind ExecutionBuilder::add_mock supports spot instruments only
        let kind = match if spec.builder { 0 } else { i.kind % 4 } {
            0 => InstrumentKind::Spot,
            1 => InstrumentKind::Perpetual(PerpetualContract { contract_size: csize, settlement_asset: settle() }),
            2 => InstrumentKind::Future(FutureContract { contract_size: csize, settlement_asset: settle(), expiry: time_of(86_400_000_000_000) }),
            _ => InstrumentKind::Option(OptionContract {
                contract_size: csize,
                settlement_asset: settle(),
                kind: if j % 2 == 0 { OptionKind::Call } else { OptionKind::Put },
                exercise: OptionExercise::European,
                expiry: time_of(86_400_000_000_000),
                strike: d4(1_000_000),
            }),
        };
        bld = bld.add_instrument(Instrument::new(
            EXSETS[(spec.exset % 3) as usize][i.ex % 6],
            format!("x{}_i{:02}", i.ex, j),
            format!("X{}I{:02}", i.ex, j),
            Underlying::new(i.base.as_str(), i.quote.as_str()),
            InstrumentQuoteAsset::UnderlyingQuote,
            kind,
            None,
        ));
    }
    let instruments = bld.build();
    let mut state: St = EngineState::builder(&instruments, DefaultGlobalData::default(), DefaultInstrumentMarketData::default)
        .time_engine_start(time_of(0))
        .trading_state(if spec.trading { TradingState::Enabled } else { TradingState::Disabled })
        .build();

    // write orders / position / last price straight into the public state fields; the spec's
    // instruments are matched by internal name (the builder sorts)
    for (j, i) in spec.instruments.iter().enumerate() {
        let name = format!("x{}_i{:02}", i.ex, j);
        let (idx, _, ist) = state
            .instruments
            .0
            .get_full_mut(&barter_instrument::instrument::name::InstrumentNameInternal::new(name))
            .expect("instrument by name");
        for o in &i.orders {
            let ord = order_of(o);
            ist.orders.0.insert(ord.key.cid.clone(), ord);
        }
        if let Some(p) = &i.pos {
            ist.position.current = Some(Position {
                instrument: InstrumentIndex(idx),
                side: side_of(p.buy),
                price_entry_average: d4(1_000_000),
                quantity_abs: d4(p.qty),
                quantity_abs_max: d4(p.qty_max),
                pnl_unrealised: Decimal::ZERO,
                pnl_realised: Decimal::ZERO,
                fees_enter: AssetFees::quote_fees(Decimal::ZERO),
                fees_exit: AssetFees::quote_fees(Decimal::ZERO),
                time_enter: time_of(0),
                time_exchange_update: time_of(0),
                trades: vec![],
            });
        }
        if let Some((t, p)) = &i.last {
            ist.data.last_traded_price = Some(Timed::new(d4(*p), time_of(*t)));
        }
        if let Some(l1) = &i.l1 {
            ist.data.l1 = l1_of(l1);
        }
    }

    let ids: Vec<ExchangeId> = state.connectivity.exchange_ids().copied().collect();
    let mut links = vec![];
    let mut keep = None;
    let txs: Txs = if spec.builder {
        // the public construction path: ExecutionBuilder with a mock execution for every exchange
        // whose link is Open, none for the others; the resulting map's entries are wrapped one to one
        let clock = HistoricalClock::new(time_of(0));
        let mut bld = ExecutionBuilder::new(&instruments);
        for (k, st) in spec.links.iter().enumerate() {
            if k < ids.len() && *st == LinkS::Open {
                bld = bld
                    .add_mock(
                        MockExecutionConfig {
                            mocked_exchange: ids[k],
                            initial_state: barter_execution::UnindexedAccountSnapshot {
                                exchange: ids[k],
                                balances: vec![],
                                instruments: vec![],
                            },
                            latency_ms: 0,
                            fees_percent: Decimal::ZERO,
                        },
                        clock.clone(),
                    )
                    .expect("add_mock");
            }
        }
        let built = bld.build();
        let mut entries = vec![];
        let mut taps = vec![];
        for (id, tx) in &built.execution_tx_map {
            let tap = Arc::new(Mutex::new(vec![]));
            entries.push((
                *id,
                tx.clone().map(|tx| HTx { tx, unhealthy: Arc::new(AtomicBool::new(false)), tap: Some(tap.clone()) }),
            ));
            taps.push(tap);
        }
        // one observation slot per CONFIGURED exchange; slot k watches entry k of the real map
        for (k, st) in spec.links.iter().enumerate() {
            let stat = if k < ids.len() && *st == LinkS::Open { LinkS::Open } else { LinkS::Missing };
            links.push(LinkH { stat, rx: None, tap: taps.get(k).cloned() });
        }
        keep = Some((built.account_channel, built.futures));
        MultiExchangeTxMap::from_iter(entries)
    } else {
        // one link per exchange index, in ExchangeIndex order, then spare entries
        let mut entries = vec![];
        for (k, st) in spec.links.iter().enumerate() {
            let id = if k < ids.len() { ids[k] } else { SPARE[(k - ids.len()) % SPARE.len()] };
            let (tx, h) = make_link(*st);
            entries.push((id, tx));
            links.push(h);
        }
        MultiExchangeTxMap::from_iter(entries)
    };
    let eng = Engine::new(
        HistoricalClock::new(time_of(0)),
        state,
        txs,
        Stub {
            cancels: vec![],
            opens: vec![],
            close: CloseMode::Scripted(vec![], vec![]),
            hook: None,
        },
        StubRisk { cmask: vec![], omask: vec![] },
    );
    Built { eng, links, _keep: keep }
}

fn set_link(b: &mut Built, e: usize, st: LinkS) {
    if e >= b.links.len() {
        return;
    }
    let (tx, h) = make_link(st);
    for (k, (_, slot)) in (&mut b.eng.execution_txs).into_iter().enumerate() {
        if k == e {
            *slot = tx.clone();
        }
    }
    b.links[e] = h;
}

// ---------------------------------------------------------------------------------------------
// Observed values -> Coq terms (constructors / abbreviations of Corr/EngineCase.v)
// ---------------------------------------------------------------------------------------------

const SCALE: u32 = 8;
fn zd(d: Decimal) -> String {
    let v = dec_scaled(d, SCALE);
    if v < 0 { format!("({})", v) } else { format!("{}", v) }
}
fn zi(v: i64) -> String {
    if v < 0 { format!("({})", v) } else { format!("{}", v) }
}
fn num(s: &str) -> u64 {
    s.parse::<u64>().unwrap_or_else(|_| panic!("non-numeric id {s:?} in observed output"))
}
fn c_side(s: Side) -> &'static str {
    match s {
        Side::Buy => "Buy",
        Side::Sell => "Sell",
    }
}
fn c_kind(k: OrderKind) -> &'static str {
    match k {
        OrderKind::Market => "Market",
        OrderKind::Limit => "Limit",
    }
}
fn c_tif(t: TimeInForce) -> &'static str {
    match t {
        TimeInForce::GoodUntilCancelled { post_only: false } => "(GTC false)",
        TimeInForce::GoodUntilCancelled { post_only: true } => "(GTC true)",
        TimeInForce::GoodUntilEndOfDay => "GTD",
        TimeInForce::FillOrKill => "FOK",
        TimeInForce::ImmediateOrCancel => "IOC",
    }
}
fn c_key(k: &OrderKey) -> String {
    format!(
        "(K {} {} {} {})",
        k.exchange.index(),
        k.instrument.index(),
        num(k.strategy.0.as_str()),
        num(k.cid.0.as_str())
    )
}
pub fn c_open(o: &OrderRequestOpen) -> String {
    format!(
        "(RO {} {} {} {} {} {})",
        c_key(&o.key),
        c_side(o.state.side),
        zd(o.state.price),
        zd(o.state.quantity),
        c_kind(o.state.kind),
        c_tif(o.state.time_in_force)
    )
}
pub fn c_cancel(c: &OrderRequestCancel) -> String {
    format!(
        "(RC {} {})",
        c_key(&c.key),
        opt(c.state.id.as_ref().map(|i| format!("{}%N", num(i.0.as_str()))))
    )
}
fn c_meta(m: &Open) -> String {
    format!("(Mt {} {} {})", num(m.id.0.as_str()), zi(ms_of(m.time_exchange)), zd(m.filled_quantity))
}
fn c_state(s: &ActiveOrderState) -> String {
    match s {
        ActiveOrderState::OpenInFlight(_) => "OIF".into(),
        ActiveOrderState::Open(m) => format!("(OOpen {})", c_meta(m)),
        ActiveOrderState::CancelInFlight(c) => format!("(CIF {})", opt(c.order.as_ref().map(c_meta))),
    }
}
fn c_order(o: &Order<ExchangeIndex, InstrumentIndex, ActiveOrderState>) -> String {
    format!(
        "(Od {} {} {} {} {} {} {})",
        c_key(&o.key),
        c_side(o.side),
        zd(o.price),
        zd(o.quantity),
        c_kind(o.kind),
        c_tif(o.time_in_force),
        c_state(&o.state)
    )
}
fn c_xreq(x: &ExecutionRequest) -> String {
    match x {
        ExecutionRequest::Shutdown => panic!("unexpected Shutdown request on an execution link"),
        ExecutionRequest::Cancel(c) => format!("(XCancel {})", c_cancel(c)),
        ExecutionRequest::Open(o) => format!("(XOpen {})", c_open(o)),
    }
}
fn c_err(e: &EngineError) -> &'static str {
    match e {
        EngineError::Unrecoverable(u) => c_unrec(u),
        EngineError::Recoverable(RecoverableEngineError::ExecutionChannelUnhealthy(_)) => "KUnhealthy",
    }
}
fn c_unrec(u: &UnrecoverableEngineError) -> &'static str {
    match u {
        UnrecoverableEngineError::IndexError(_) => "KIndex",
        UnrecoverableEngineError::ExecutionChannelTerminated(_) => "KTerminated",
        UnrecoverableEngineError::Custom(_) => panic!("unexpected custom engine error"),
    }
}
fn c_sendout<K>(
    o: &SendRequestsOutput<K>,
    pr: impl Fn(&barter_execution::order::OrderEvent<K>) -> String,
    tags: &mut Vec<String>,
) -> String {
    for _ in o.sent.iter() {
        tags.push("req_sent".into());
    }
    let errs: Vec<String> = o
        .errors
        .iter()
        .map(|(r, e)| {
            tags.push(format!("req_err_{}", c_err(e)));
            pair(&pr(r), c_err(e))
        })
        .collect();
    format!("(SO {} {})", list(&o.sent.iter().map(&pr).collect::<Vec<_>>()), list(&errs))
}
fn c_algo(a: &GenerateAlgoOrdersOutput, tags: &mut Vec<String>) -> String {
    for r in a.cancels_refused.iter().map(|r| &r.reason).chain(a.opens_refused.iter().map(|r| &r.reason)) {
        assert_eq!(r, "refused");
        tags.push("req_refused".into());
    }
    format!(
        "(mkAlgo {} {} {} {})",
        c_sendout(&a.cancels_and_opens.cancels, c_cancel, tags),
        c_sendout(&a.cancels_and_opens.opens, c_open, tags),
        list(&a.cancels_refused.iter().map(|r| c_cancel(&r.item)).collect::<Vec<_>>()),
        list(&a.opens_refused.iter().map(|r| c_open(&r.item)).collect::<Vec<_>>())
    )
}
fn c_action(a: &ActionOutput, tags: &mut Vec<String>) -> String {
    match a {
        ActionOutput::GenerateAlgoOrders(_) => panic!("action() produced GenerateAlgoOrders"),
        ActionOutput::CancelOrders(o) => format!("(AOCancel {})", c_sendout(o, c_cancel, tags)),
        ActionOutput::OpenOrders(o) => format!("(AOOpen {})", c_sendout(o, c_open, tags)),
        ActionOutput::ClosePositions(o) => format!(
            "(AOClose {} {})",
            c_sendout(&o.cancels, c_cancel, tags),
            c_sendout(&o.opens, c_open, tags)
        ),
    }
}
type Audit = EngineAudit<EngineEvent<DataKind>, EngineOutput<OnTradingDisabledOut, OnDisconnectOut>>;
fn c_audit(a: &Audit, tags: &mut Vec<String>) -> String {
    let EngineAudit::Process(p) = a else {
        panic!("process returned FeedEnded")
    };
    let outs: Vec<String> = p
        .outputs
        .iter()
        .map(|o| match o {
            EngineOutput::Commanded(a) => format!("(OutCommanded {})", c_action(a, tags)),
            EngineOutput::OnTradingDisabled(_) => "OutTradingDisabled".into(),
            EngineOutput::AccountDisconnect(_) => "OutAccountDisconnect".into(),
            EngineOutput::PositionExit(p) => format!("(OutPositionExit {}%N)", p.instrument.index()),
            EngineOutput::MarketDisconnect(_) => "OutMarketDisconnect".into(),
            EngineOutput::AlgoOrders(a) => {
                tags.push("audit_algo_output".into());
                format!("(OutAlgo {})", c_algo(a, tags))
            }
        })
        .collect();
    if !p.errors.is_empty() {
        tags.push("audit_fatal".into());
    }
    format!(
        "(mkAudit {} {})",
        list(&outs),
        list(&p.errors.iter().map(|e| c_unrec(e).to_string()).collect::<Vec<_>>())
    )
}

fn c_link(l: LinkS) -> &'static str {
    match l {
        LinkS::Open => "(LOpen [])",
        LinkS::Closed => "LClosed",
        LinkS::Unhealthy => "LUnhealthy",
        LinkS::Missing => "LMissing",
    }
}
fn c_lstat(l: LinkS) -> &'static str {
    match l {
        LinkS::Open => "SOpen",
        LinkS::Closed => "SClosed",
        LinkS::Unhealthy => "SUnhealthy",
        LinkS::Missing => "SMissing",
    }
}

/// (orders sorted by client order id, position, last price) of every instrument, in index order
fn c_insts_obs(eng: &Eng) -> Vec<(String, String, String)> {
    eng.state
        .instruments
        .0
        .values()
        .map(|s| {
            let mut os: Vec<_> = s.orders.0.iter().collect();
            os.sort_by_key(|(cid, _)| num(cid.0.as_str()));
            let orders = list(
                &os.iter()
                    .map(|(cid, o)| pair(&format!("{}%N", num(cid.0.as_str())), &c_order(o)))
                    .collect::<Vec<_>>(),
            );
            let pos = opt(s.position.current.as_ref().map(|p| {
                format!("(mkPos {} {} {})", p.instrument.index(), c_side(p.side), zd(p.quantity_abs))
            }));
            let last = opt(s
                .data
                .last_traded_price
                .as_ref()
                .map(|t| format!("({}%Z, {}%Z)", zi(ms_of(t.time)), zd(t.value))));
            let data = format!("(MD {} {})", c_l1(&s.data.l1), last);
            (orders, pos, data)
        })
        .collect()
}

fn c_level(l: &Option<Level>) -> String {
    opt(l.as_ref().map(|l| format!("({}%Z, {}%Z)", zd(l.price), zd(l.amount))))
}
fn c_l1(l: &OrderBookL1) -> String {
    format!("(L1 {} {} {})", zi(ms_of(l.last_update_time)), c_level(&l.best_bid), c_level(&l.best_ask))
}
fn c_snap(snap: &SnapS) -> String {
    match snap {
        SnapS::Open(m) => format!("(SnOpen {})", c_meta_s(m)),
        SnapS::Oif => "SnOIF".into(),
        SnapS::Cif(m) => format!("(SnCIF {})", opt(m.as_ref().map(c_meta_s))),
        _ => "SnInactive".into(),
    }
}
fn c_snap_order(order: &OrderS) -> String {
    let mut o = order.clone();
    o.st = StS::Oif;
    c_order(&order_of(&o))
}
fn c_filter(f: &FilterS) -> String {
    let ns = |l: &Vec<usize>| list(&l.iter().map(|x| format!("{}%N", x)).collect::<Vec<_>>());
    match f {
        FilterS::None => "FNone".into(),
        FilterS::Exchanges(l) => format!("(FExchanges {})", ns(l)),
        FilterS::Instruments(l) => format!("(FInstruments {})", ns(l)),
        FilterS::Underlyings(l) => format!(
            "(FUnderlyings {})",
            list(&l.iter().map(|(a, b)| format!("({}%N, {}%N)", a, b)).collect::<Vec<_>>())
        ),
    }
}
fn c_cmd(c: &CmdS) -> String {
    match c {
        CmdS::SendCancels(l) => format!("(CSendCancels {})", list(&l.iter().map(|c| c_cancel(&cancel_of(c))).collect::<Vec<_>>())),
        CmdS::SendOpens(l) => format!("(CSendOpens {})", list(&l.iter().map(|c| c_open(&open_of(c))).collect::<Vec<_>>())),
        CmdS::ClosePositions(f) => format!("(CClosePositions {})", c_filter(f)),
        CmdS::CancelOrders(f) => format!("(CCancelOrders {})", c_filter(f)),
    }
}
fn c_meta_s(m: &MetaS) -> String {
    c_meta(&meta_of(m))
}
fn c_event(e: &EvS) -> String {
    match e {
        EvS::Shutdown => "EvShutdown".into(),
        EvS::Command(c) => format!("(EvCommand {})", c_cmd(c)),
        EvS::Trading(x) => format!("(EvTradingState {})", b(*x)),
        EvS::OrderSnapshot { order, snap } => format!("(EvOrderSnapshot {} {})", c_snap_order(order), c_snap(snap)),
        EvS::AccountSnapshot { orders, .. } => format!(
            "(EvAccountSnapshot {})",
            list(&orders.iter().map(|(o, sn)| pair(&c_snap_order(o), &c_snap(sn))).collect::<Vec<_>>())
        ),
        EvS::BalanceSnapshot { .. } => "EvOther".into(),
        EvS::CancelResponse { key, ok, .. } => format!("(EvCancelResponse {} {})", c_key(&key_of(key)), b(*ok)),
        EvS::Trade { inst, buy, qty, .. } => format!("(EvTrade {} {} {})", inst, c_side(side_of(*buy)), zd(d4(*qty))),
        EvS::AccountReconnecting => "EvAccountReconnecting".into(),
        EvS::MarketTrade { inst, t, price } => format!("(EvMarketTrade {} {} {})", inst, zi(*t), zd(d4(*price))),
        EvS::MarketL1 { inst, t, l1 } => format!("(EvMarketL1 {} {} {})", inst, zi(*t), c_l1(&l1_of(l1))),
        EvS::MarketOther { .. } => "EvOther".into(),
        EvS::MarketReconnecting => "EvMarketReconnecting".into(),
    }
}
fn c_op(o: &OpS) -> String {
    match o {
        OpS::Process(e) => format!("(OpProcess {})", c_event(e)),
        OpS::Generate => "OpGenerate".into(),
        OpS::Action(c) => format!("(OpAction {})", c_cmd(c)),
        OpS::SetLink(e, st) => format!("(OpSetLink {} {})", e, c_lstat(*st)),
        // a direct trait-method call is the same action as Engine::action of the command
        OpS::Call(c) => format!("(OpAction {})", c_cmd(c)),
        OpS::Hook(h, c) => format!(
            "(OpHook {} {})",
            ["HAccountReconnecting", "HMarketReconnecting", "HTradingDisabled"][(*h % 3) as usize],
            c_cmd(c)
        ),
    }
}
fn c_gs(g: &GS) -> String {
    format!(
        "(mkGScript {} {} {} {})",
        list(&g.cancels.iter().map(|c| c_cancel(&cancel_of(c))).collect::<Vec<_>>()),
        list(&g.opens.iter().map(|c| c_open(&open_of(c))).collect::<Vec<_>>()),
        list(&g.cmask.iter().map(|x| b(*x)).collect::<Vec<_>>()),
        list(&g.omask.iter().map(|x| b(*x)).collect::<Vec<_>>())
    )
}
fn c_close(c: &CloseS) -> String {
    match c {
        CloseS::Default { strat, cid_base } => format!("(CloseDefault {} {})", strat, cid_base),
        CloseS::Scripted { cancels, opens } => format!(
            "(CloseScripted {} {})",
            list(&cancels.iter().map(|c| c_cancel(&cancel_of(c))).collect::<Vec<_>>()),
            list(&opens.iter().map(|c| c_open(&open_of(c))).collect::<Vec<_>>())
        ),
    }
}

// ---------------------------------------------------------------------------------------------
// Running a case
// ---------------------------------------------------------------------------------------------

pub struct Ran {
    pub coq: String,
    pub tags: Vec<String>,
    pub nontrivial: bool,
}

fn install(eng: &mut Eng, st: &StepS) {
    eng.strategy.hook = match &st.op {
        OpS::Hook(_, CmdS::CancelOrders(f)) => Some(HookCall::Cancel(filter_of(f, st.many1))),
        OpS::Hook(_, CmdS::ClosePositions(f)) => Some(HookCall::Close(filter_of(f, st.many1))),
        _ => None,
    };
    eng.strategy.cancels = st.g.cancels.iter().map(cancel_of).collect();
    eng.strategy.opens = st.g.opens.iter().map(open_of).collect();
    eng.risk.cmask = st.g.cmask.clone();
    eng.risk.omask = st.g.omask.clone();
    eng.strategy.close = match &st.close {
        CloseS::Default { strat, cid_base } => CloseMode::Default {
            id: StrategyId::new(strat.to_string()),
            cid_base: *cid_base,
        },
        CloseS::Scripted { cancels, opens } => {
            CloseMode::Scripted(cancels.iter().map(cancel_of).collect(), opens.iter().map(open_of).collect())
        }
    };
}

fn drain(links: &mut [LinkH]) -> Vec<String> {
    links
        .iter_mut()
        .map(|l| {
            let mut got = vec![];
            if let Some(rx) = l.rx.as_mut() {
                while let Ok(x) = rx.rx.try_recv() {
                    got.push(c_xreq(&x));
                }
            }
            if let Some(tap) = l.tap.as_ref() {
                for x in tap.lock().unwrap().drain(..) {
                    got.push(c_xreq(&x));
                }
            }
            list(&got)
        })
        .collect()
}

fn op_tag(o: &OpS) -> String {
    match o {
        OpS::Process(e) => format!(
            "process_{}",
            match e {
                EvS::Shutdown => "shutdown",
                EvS::Command(CmdS::SendCancels(_)) => "cmd_send_cancels",
                EvS::Command(CmdS::SendOpens(_)) => "cmd_send_opens",
                EvS::Command(CmdS::ClosePositions(_)) => "cmd_close_positions",
                EvS::Command(CmdS::CancelOrders(_)) => "cmd_cancel_orders",
                EvS::Trading(true) => "trading_enable",
                EvS::Trading(false) => "trading_disable",
                EvS::OrderSnapshot { snap: SnapS::Oif, .. } | EvS::OrderSnapshot { snap: SnapS::Cif(_), .. } => "order_snapshot_marker",
                EvS::OrderSnapshot { snap: SnapS::OpenFailed(_), .. } => "order_snapshot_open_failed",
                EvS::OrderSnapshot { .. } => "order_snapshot",
                EvS::AccountSnapshot { .. } => "account_snapshot",
                EvS::BalanceSnapshot { .. } => "balance_snapshot",
                EvS::CancelResponse { ok: false, err, .. } if *err >= 3 => "cancel_response_api_error",
                EvS::CancelResponse { .. } => "cancel_response",
                EvS::Trade { .. } => "trade",
                EvS::AccountReconnecting => "account_reconnecting",
                EvS::MarketTrade { .. } => "market_trade",
                EvS::MarketL1 { l1, .. } if l1.bid.is_some() && l1.ask.is_some() => "market_l1_two_sided",
                EvS::MarketL1 { .. } => "market_l1_one_sided_or_empty",
                EvS::MarketOther { kind, .. } if kind % 4 < 2 => "market_l2_book",
                EvS::MarketOther { kind, .. } if kind % 4 == 2 => "market_candle",
                EvS::MarketOther { .. } => "market_liquidation",
                EvS::MarketReconnecting => "market_reconnecting",
            }
        ),
        OpS::Generate => "direct_generate".into(),
        OpS::Action(_) => "direct_action".into(),
        OpS::SetLink(_, st) => format!("set_link_{}", c_lstat(*st)),
        OpS::Call(_) => "direct_trait_call".into(),
        OpS::Hook(h, _) => format!("hook_{}", ["on_disconnect_account", "on_disconnect_market", "on_trading_disabled"][(*h % 3) as usize]),
    }
}
fn filter_tag(c: &CmdS) -> Option<String> {
    let (n, f) = match c {
        CmdS::ClosePositions(f) => ("close", f),
        CmdS::CancelOrders(f) => ("cancel", f),
        _ => return None,
    };
    Some(format!(
        "{}_filter_{}",
        n,
        match f {
            FilterS::None => "none",
            FilterS::Exchanges(_) => "exchanges",
            FilterS::Instruments(_) => "instruments",
            FilterS::Underlyings(_) => "underlyings",
        }
    ))
}

/// the initial state as Coq term, read back from the real engine (indices as the engine assigned them)
fn c_init(b: &Built) -> String {
    let insts: Vec<String> = b
        .eng
        .state
        .instruments
        .0
        .values()
        .zip(c_insts_obs(&b.eng))
        .map(|(s, (orders, pos, last))| {
            format!(
                "(mkInst {} {} {} {} {} {})",
                s.instrument.exchange.index(),
                s.instrument.underlying.base.index(),
                s.instrument.underlying.quote.index(),
                orders,
                pos,
                last
            )
        })
        .collect();
    format!(
        "(mkState {} {} {})",
        vh_common::b(b.eng.state.trading == TradingState::Enabled),
        list(&b.links.iter().map(|l| c_link(l.stat).to_string()).collect::<Vec<_>>()),
        list(&insts)
    )
}

pub fn run(spec: &Spec) -> Ran {
    let mut bt = build(spec);
    let init = c_init(&bt);
    let mut tags: Vec<String> = vec![];
    let mut steps: Vec<String> = vec![];
    for l in &spec.links {
        tags.push(format!("init_link_{}", c_lstat(*l)));
    }
    if spec.builder {
        tags.push("map_via_execution_builder".into());
        if spec.links.iter().position(|l| *l != LinkS::Open).is_some_and(|k| spec.links[k + 1..].iter().any(|l| *l == LinkS::Open)) {
            tags.push("builder_linkless_before_linked".into());
        }
    }
    for i in &spec.instruments {
        tags.push(format!("inst_kind_{}", ["spot", "perpetual", "future", "option"][if spec.builder { 0 } else { (i.kind % 4) as usize }]));
        if i.kind % 4 != 0 && i.csize != 10_000 && i.csize != 0 {
            tags.push("inst_contract_size_not_1".into());
        }
        if i.kind % 4 != 0 && !i.settle.is_empty() && i.settle != i.quote {
            tags.push("inst_settlement_not_quote".into());
        }
        if i.l1.as_ref().is_some_and(|l| l.bid.is_some() && l.ask.is_some()) {
            tags.push("inst_price_from_l1".into());
        }
    }
    if spec.links.len() >= 3 && spec.links[1..spec.links.len() - 1].iter().any(|l| *l == LinkS::Missing) {
        tags.push("linkless_exchange_in_the_middle".into());
    }
    for (step_idx, st) in spec.steps.iter().enumerate() {
        install(&mut bt.eng, st);
        tags.push(op_tag(&st.op));
        if st.many1 {
            tags.push("one_or_many_many1".into());
        }
        let mut stags = vec![];
        let res: String = match &st.op {
            OpS::SetLink(e, s) => {
                set_link(&mut bt, *e, *s);
                "RNone".into()
            }
            OpS::Generate => {
                let eng = &mut bt.eng;
                let out = vh_common::catch(std::panic::AssertUnwindSafe(|| {
                    GenerateAlgoOrders::<ExchangeIndex, InstrumentIndex>::generate_algo_orders(eng)
                }));
                match out {
                    Ok(o) => format!("(RAlgo {})", c_algo(&o, &mut stags)),
                    Err(_) => "RPanic".into(),
                }
            }
            OpS::Action(c) => {
                if let Some(t) = filter_tag(c) {
                    tags.push(t)
                }
                let cmd = command_of(c, st.many1);
                let eng = &mut bt.eng;
                let out = vh_common::catch(std::panic::AssertUnwindSafe(|| eng.action(&cmd)));
                match out {
                    Ok(o) => format!("(RAction {})", c_action(&o, &mut stags)),
                    Err(_) => "RPanic".into(),
                }
            }
            OpS::Call(c) => {
                if let Some(t) = filter_tag(c) {
                    tags.push(t)
                }
                let eng = &mut bt.eng;
                let many1 = st.many1;
                let out = vh_common::catch(std::panic::AssertUnwindSafe(|| match c {
                    CmdS::CancelOrders(f) => ActionOutput::CancelOrders(CancelOrders::cancel_orders(eng, &filter_of(f, many1))),
                    CmdS::ClosePositions(f) => {
                        ActionOutput::ClosePositions(ClosePositions::close_positions(eng, &filter_of(f, many1)))
                    }
                    other => eng.action(&command_of(other, many1)),
                }));
                match out {
                    Ok(o) => format!("(RAction {})", c_action(&o, &mut stags)),
                    Err(_) => "RPanic".into(),
                }
            }
            OpS::Hook(h, c) => {
                if let Some(t) = filter_tag(c) {
                    tags.push(t)
                }
                let ev = match h % 3 {
                    0 => EvS::AccountReconnecting,
                    1 => EvS::MarketReconnecting,
                    _ => EvS::Trading(false),
                };
                let event = event_of(&ev, &bt.eng, st.many1, step_idx);
                let eng = &mut bt.eng;
                let out = vh_common::catch(std::panic::AssertUnwindSafe(|| eng.process(event)));
                match out {
                    // what the hook's call returned, as the audit carries it; nothing if the hook did not fire
                    Ok(EngineAudit::Process(p)) => {
                        let hook_out = p.outputs.iter().find_map(|o| match o {
                            EngineOutput::AccountDisconnect(OnDisconnectOut(x)) | EngineOutput::MarketDisconnect(OnDisconnectOut(x)) => {
                                x.clone()
                            }
                            EngineOutput::OnTradingDisabled(OnTradingDisabledOut(x)) => x.clone(),
                            _ => None,
                        });
                        match hook_out {
                            Some(a) => format!("(RAction {})", c_action(&a, &mut stags)),
                            None => {
                                tags.push("hook_did_not_fire".into());
                                "RNone".into()
                            }
                        }
                    }
                    Ok(_) => "RNone".into(),
                    Err(_) => "RPanic".into(),
                }
            }
            OpS::Process(ev) => {
                if let EvS::Command(c) = ev {
                    if let Some(t) = filter_tag(c) {
                        tags.push(t)
                    }
                }
                let event = event_of(ev, &bt.eng, st.many1, step_idx);
                let eng = &mut bt.eng;
                let out = vh_common::catch(std::panic::AssertUnwindSafe(|| eng.process(event)));
                match out {
                    Ok(a) => format!("(RAudit {})", c_audit(&a, &mut stags)),
                    Err(_) => "RPanic".into(),
                }
            }
        };
        if res == "RPanic" {
            tags.push("panic".into());
        }
        tags.push(
            if bt.eng.state.trading == TradingState::Enabled { "after_enabled" } else { "after_disabled" }.to_string(),
        );
        let deliv = drain(&mut bt.links);
        let io = c_insts_obs(&bt.eng);
        let obs = format!(
            "(mkObs {} {} {} {})",
            b(bt.eng.state.trading == TradingState::Enabled),
            list(&deliv),
            list(&io.iter().map(|(o, p, l)| format!("({}, {}, {})", o, p, l)).collect::<Vec<_>>()),
            res
        );
        steps.push(format!("(mkStep {} {} {} {})", c_op(&st.op), c_gs(&st.g), c_close(&st.close), obs));
        tags.extend(stags);
    }
    let nontrivial = tags.iter().any(|t| t.starts_with("req_"));
    Ran {
        coq: format!("(mkCase {} {})", init, list(&steps)),
        tags,
        nontrivial,
    }
}

/// A case whose execution panicked outside the caught engine calls: reported as an observed panic
/// (rejected by corr_b; rejected by prop_b where the step is one the property speaks about).
pub fn panicked() -> Ran {
    Ran {
        coq: "(mkCase (mkState false [] [(mkInst 0 0 0 [] None (MD (L1 0 None None) None))]) [(mkStep OpGenerate (mkGScript [] [] [] []) (CloseScripted [] []) (mkObs false [] [([], None, (MD (L1 0 None None) None))] RPanic))])".into(),
        tags: vec!["harness_panic".into()],
        nontrivial: false,
    }
}

/// indices the engine assigns to a spec's instruments: (exchange index, base asset, quote asset) per
/// instrument index, and the number of exchanges — used by the generators to aim filters
pub fn layout(spec: &Spec) -> (Vec<(usize, usize, usize)>, usize) {
    let mut s = spec.clone();
    s.steps.clear();
    let bt = build(&s);
    let v = bt
        .eng
        .state
        .instruments
        .0
        .values()
        .map(|s| {
            (
                s.instrument.exchange.index(),
                s.instrument.underlying.base.index(),
                s.instrument.underlying.quote.index(),
            )
        })
        .collect();
    (v, bt.eng.state.connectivity.exchanges.len())
}
