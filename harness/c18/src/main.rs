//! C18 correspondence harness: drives DrawdownGenerator / MaxDrawdownGenerator /
//! MeanDrawdownGenerator directly, and TearSheetAssetGenerator / TearSheetGenerator (drawdown
//! related fields), on generated timed curves; prints inputs + everything observed as Coq terms
//! of type `case` (Corr/C18.v).
use barter::{
    Timed,
    engine::state::position::PositionExited,
    statistic::{
        metric::drawdown::{
            Drawdown, DrawdownGenerator,
            max::{MaxDrawdown, MaxDrawdownGenerator},
            mean::{MeanDrawdown, MeanDrawdownGenerator},
        },
        summary::{asset::TearSheetAssetGenerator, instrument::TearSheetGenerator},
        time::Daily,
    },
};
use barter_execution::{
    balance::{AssetBalance, Balance},
    trade::AssetFees,
};
use barter_instrument::{
    Side,
    asset::{AssetIndex, QuoteAsset},
    instrument::InstrumentIndex,
};
use barter_integration::snapshot::Snapshot;
use chrono::{DateTime, TimeZone, Utc};
use rust_decimal::Decimal;
use serde_json::{Value, json};
use std::panic::AssertUnwindSafe;
use vh_common::*;

fn time_of(ms: i64) -> DateTime<Utc> {
    Utc.timestamp_millis_opt(ms).unwrap()
}
fn ms_of(t: DateTime<Utc>) -> i64 {
    t.timestamp_millis()
}
fn zt(ms: i64) -> String {
    z(ms as i128)
}

// ---- Coq printers for observed values -------------------------------------------------------

/// (value, start, end) : Q * Z * Z
fn coq_dd(d: &Drawdown) -> String {
    format!(
        "({}, {}, {})",
        dec_q(d.value),
        zt(ms_of(d.time_start)),
        zt(ms_of(d.time_end))
    )
}
fn coq_odd(d: &Option<Drawdown>) -> String {
    opt(d.as_ref().map(coq_dd))
}
fn coq_omax(d: &Option<MaxDrawdown>) -> String {
    opt(d.as_ref().map(|m| coq_dd(&m.0)))
}
fn coq_omean(d: &Option<MeanDrawdown>) -> String {
    opt(d
        .as_ref()
        .map(|m| pair(&dec_q(m.mean_drawdown), &z(m.mean_drawdown_ms as i128))))
}
/// (peak, drawdown_max, time_peak, time_now) : option Q * Q * option Z * Z
fn coq_gstate(g: &DrawdownGenerator) -> String {
    format!(
        "({}, {}, {}, {})",
        opt(g.peak.map(dec_q)),
        dec_q(g.drawdown_max),
        opt(g.time_peak.map(|t| zt(ms_of(t)))),
        zt(ms_of(g.time_now))
    )
}
/// (count, mean_drawdown) : Z * option (Q * Z)
fn coq_meanstate(g: &MeanDrawdownGenerator) -> String {
    pair(&z(g.count as i128), &coq_omean(&g.mean_drawdown))
}

// ---- inputs ---------------------------------------------------------------------------------

#[derive(Clone, Debug)]
struct DdIn {
    v: Decimal,
    s: i64,
    e: i64,
}
impl DdIn {
    fn json(&self) -> Value {
        json!({"v": self.v.to_string(), "s": self.s, "e": self.e})
    }
    fn from(v: &Value) -> Option<DdIn> {
        Some(DdIn {
            v: v.get("v")?.as_str()?.parse().ok()?,
            s: v.get("s")?.as_i64()?,
            e: v.get("e")?.as_i64()?,
        })
    }
    fn dd(&self) -> Drawdown {
        Drawdown {
            value: self.v,
            time_start: time_of(self.s),
            time_end: time_of(self.e),
        }
    }
    fn coq(&self) -> String {
        format!("({}, {}, {})", dec_q(self.v), zt(self.s), zt(self.e))
    }
}

/// one operation on a generator fed by a curve: a point (time, value, second value) or a call
/// of generate(). `w` is the free balance for the asset tear sheet and unused elsewhere.
#[derive(Clone, Debug)]
enum Op {
    Upd { t: i64, v: Decimal, w: Decimal },
    Gen,
}
impl Op {
    fn json(&self) -> Value {
        match self {
            Op::Upd { t, v, w } => json!({"t": t, "v": v.to_string(), "w": w.to_string()}),
            Op::Gen => json!({"gen": true}),
        }
    }
    fn from(v: &Value) -> Option<Op> {
        if v.get("gen").is_some() {
            return Some(Op::Gen);
        }
        Some(Op::Upd {
            t: v.get("t")?.as_i64()?,
            v: v.get("v")?.as_str()?.parse().ok()?,
            w: match v.get("w") {
                Some(w) => w.as_str()?.parse().ok()?,
                None => Decimal::ZERO,
            },
        })
    }
}
fn ops_json(ops: &[Op]) -> Value {
    Value::Array(ops.iter().map(|o| o.json()).collect())
}
fn ops_from(v: &Value) -> Option<Vec<Op>> {
    v.as_array()?.iter().map(Op::from).collect()
}

// ---- runners --------------------------------------------------------------------------------

struct Ran {
    coq: String,
    tags: Vec<String>,
    nontrivial: bool,
}
/// a panic of the implementation is an observed outcome; `in_scope` says whether the input
/// meets the property's requirement (first value of the curve positive)
fn panic_case(in_scope: bool, what: &str) -> Ran {
    Ran {
        coq: format!("(CPanic {} {})", b(in_scope), s(what)),
        tags: vec!["panic".to_string()],
        nontrivial: true,
    }
}

/// DrawdownGenerator directly. start = None: DrawdownGenerator::default(); Some: init(point).
fn run_gen(start: &Option<(i64, Decimal)>, ops: &[Op]) -> Ran {
    let r = catch(AssertUnwindSafe(|| {
        let mut tags = vec![];
        let mut g = match start {
            None => DrawdownGenerator::default(),
            Some((t, v)) => DrawdownGenerator::init(Timed::new(*v, time_of(*t))),
        };
        let obs_of = |ret: &Option<Drawdown>, g: &DrawdownGenerator| {
            let probe = g.clone().generate();
            format!("(mkGObs {} {} {})", coq_odd(ret), coq_gstate(g), coq_odd(&probe))
        };
        let obs0 = obs_of(&None, &g);
        let mut obs = vec![];
        let mut cops = vec![];
        let mut emitted = 0;
        for op in ops {
            match op {
                Op::Upd { t, v, .. } => {
                    let before = g.clone();
                    let ret = g.update(Timed::new(*v, time_of(*t)));
                    tags.push(
                        match (before.peak, &ret) {
                            (None, _) => "upd_first",
                            (Some(p), Some(_)) if *v > p => "upd_new_peak_emit",
                            (Some(p), None) if *v > p => "upd_new_peak_silent",
                            (Some(p), _) if *v == p => "upd_equal_peak",
                            (Some(_), _) if g.drawdown_max != before.drawdown_max => "upd_deeper",
                            (Some(_), _) => "upd_not_deeper",
                        }
                        .to_string(),
                    );
                    if ret.is_some() {
                        emitted += 1;
                    }
                    cops.push(format!("(GU {} {})", zt(*t), dec_q(*v)));
                    obs.push(obs_of(&ret, &g));
                }
                Op::Gen => {
                    let ret = g.generate();
                    tags.push(if ret.is_some() { "gen_some" } else { "gen_none" }.to_string());
                    cops.push("GG".to_string());
                    obs.push(obs_of(&ret, &g));
                }
            }
        }
        Ran {
            coq: format!(
                "(CGen {} {} {} {})",
                opt(start.map(|(t, v)| pair(&zt(t), &dec_q(v)))),
                list(&cops),
                obs0,
                list(&obs)
            ),
            tags,
            nontrivial: emitted > 0 || g.drawdown_max != Decimal::ZERO,
        }
    }));
    let first = start.map(|(_, v)| v).or_else(|| first_value(ops));
    r.unwrap_or_else(|e| {
        panic_case(first.is_none_or(|v| v > Decimal::ZERO), &format!("DrawdownGenerator: {}", ascii(&e)))
    })
}

/// value of the first point among the operations
fn first_value(ops: &[Op]) -> Option<Decimal> {
    ops.iter().find_map(|o| match o {
        Op::Upd { v, .. } => Some(*v),
        Op::Gen => None,
    })
}

fn ascii(x: &str) -> String {
    x.chars().filter(|c| c.is_ascii() && *c != '"').take(80).collect()
}

fn run_max(init: &Option<DdIn>, ds: &[DdIn]) -> Ran {
    let r = catch(AssertUnwindSafe(|| {
        let mut g = match init {
            None => MaxDrawdownGenerator::default(),
            Some(d) => MaxDrawdownGenerator::init(d.dd()),
        };
        let obs0 = pair(&coq_omax(&g.max), &coq_omax(&g.generate()));
        let mut obs = vec![];
        let mut tags = vec![];
        for d in ds {
            let before = g.max.clone();
            g.update(&d.dd());
            tags.push(
                match before {
                    None => "max_first",
                    Some(b) if g.max.as_ref() != Some(&b) => "max_superseded",
                    Some(b) if b.0.value.abs() == d.v.abs() => "max_tie_kept",
                    Some(_) => "max_kept",
                }
                .to_string(),
            );
            obs.push(pair(&coq_omax(&g.max), &coq_omax(&g.generate())));
        }
        Ran {
            coq: format!(
                "(CMax {} {} {} {})",
                opt(init.as_ref().map(|d| d.coq())),
                list(&ds.iter().map(|d| d.coq()).collect::<Vec<_>>()),
                obs0,
                list(&obs)
            ),
            tags,
            nontrivial: !ds.is_empty(),
        }
    }));
    r.unwrap_or_else(|e| panic_case(true, &format!("MaxDrawdownGenerator: {}", ascii(&e))))
}

fn run_mean(init: &Option<DdIn>, ds: &[DdIn]) -> Ran {
    let r = catch(AssertUnwindSafe(|| {
        let mut g = match init {
            None => MeanDrawdownGenerator::default(),
            Some(d) => MeanDrawdownGenerator::init(d.dd()),
        };
        let obs0 = pair(&coq_meanstate(&g), &coq_omean(&g.generate()));
        let mut obs = vec![];
        let mut tags = vec![];
        for d in ds {
            tags.push(if g.mean_drawdown.is_none() { "mean_first" } else { "mean_next" }.to_string());
            g.update(&d.dd());
            obs.push(pair(&coq_meanstate(&g), &coq_omean(&g.generate())));
        }
        Ran {
            coq: format!(
                "(CMean {} {} {} {})",
                opt(init.as_ref().map(|d| d.coq())),
                list(&ds.iter().map(|d| d.coq()).collect::<Vec<_>>()),
                obs0,
                list(&obs)
            ),
            tags,
            nontrivial: !ds.is_empty(),
        }
    }));
    r.unwrap_or_else(|e| panic_case(true, &format!("MeanDrawdownGenerator: {}", ascii(&e))))
}

/// (drawdown generator, mean generator, max generator) : gstate * meanstate * option dd
fn coq_three(g: &DrawdownGenerator, m: &MeanDrawdownGenerator, x: &MaxDrawdownGenerator) -> String {
    format!("({}, {}, {})", coq_gstate(g), coq_meanstate(m), coq_omax(&x.max))
}
fn coq_report(d: &Option<Drawdown>, m: &Option<MeanDrawdown>, x: &Option<MaxDrawdown>) -> String {
    format!("({}, {}, {})", coq_odd(d), coq_omean(m), coq_omax(x))
}
fn coq_obal(b: &Option<Balance>) -> String {
    opt(b.map(|b| pair(&dec_q(b.total), &dec_q(b.free))))
}

fn run_asset(start: &(i64, Decimal, Decimal), ops: &[Op]) -> Ran {
    let r = catch(AssertUnwindSafe(|| {
        let mut g = TearSheetAssetGenerator::init(&Timed::new(
            Balance::new(start.1, start.2),
            time_of(start.0),
        ));
        let state = |g: &TearSheetAssetGenerator| {
            pair(
                &coq_obal(&g.balance_now),
                &coq_three(&g.drawdown, &g.drawdown_mean, &g.drawdown_max),
            )
        };
        let obs0 = state(&g);
        let mut obs = vec![];
        let mut cops = vec![];
        let mut tags = vec![];
        let mut nontrivial = false;
        let mut last_gen = false;
        for op in ops {
            match op {
                Op::Upd { t, v, w } => {
                    let completed_before = g.drawdown_mean.count;
                    g.update_from_balance(Snapshot(&AssetBalance {
                        asset: AssetIndex(0),
                        balance: Balance::new(*v, *w),
                        time_exchange: time_of(*t),
                    }));
                    tags.push(
                        if g.drawdown_mean.count != completed_before {
                            "asset_upd_completes"
                        } else {
                            "asset_upd"
                        }
                        .to_string(),
                    );
                    cops.push(format!("(AU {} {} {})", zt(*t), dec_q(*v), dec_q(*w)));
                    obs.push(format!("(None, {})", state(&g)));
                    last_gen = false;
                }
                Op::Gen => {
                    let sheet = g.generate();
                    tags.push(
                        match (&sheet.drawdown, last_gen) {
                            (Some(_), true) => "asset_gen_again_in_drawdown",
                            (Some(_), false) => "asset_gen_in_drawdown",
                            (None, true) => "asset_gen_again",
                            (None, false) => "asset_gen",
                        }
                        .to_string(),
                    );
                    nontrivial |= sheet.drawdown_max.is_some();
                    cops.push("AG".to_string());
                    obs.push(format!(
                        "(Some ({}, {}), {})",
                        coq_obal(&sheet.balance_end),
                        coq_report(&sheet.drawdown, &sheet.drawdown_mean, &sheet.drawdown_max),
                        state(&g)
                    ));
                    last_gen = true;
                }
            }
        }
        Ran {
            coq: format!(
                "(CAsset ({}, {}, {}) {} {} {})",
                zt(start.0),
                dec_q(start.1),
                dec_q(start.2),
                list(&cops),
                obs0,
                list(&obs)
            ),
            tags,
            nontrivial,
        }
    }));
    r.unwrap_or_else(|e| {
        panic_case(start.1 > Decimal::ZERO, &format!("TearSheetAssetGenerator: {}", ascii(&e)))
    })
}

fn position(pnl: Decimal, t_exit: i64) -> PositionExited<QuoteAsset, InstrumentIndex> {
    PositionExited {
        instrument: InstrumentIndex(0),
        side: Side::Buy,
        price_entry_average: Decimal::new(100, 0),
        quantity_abs_max: Decimal::new(10, 0),
        pnl_realised: pnl,
        fees_enter: AssetFees::quote_fees(Decimal::ZERO),
        fees_exit: AssetFees::quote_fees(Decimal::ZERO),
        time_enter: time_of(t_exit - 1),
        time_exit: time_of(t_exit),
        trades: vec![],
    }
}

fn run_inst(t0: i64, ops: &[Op]) -> Ran {
    let r = catch(AssertUnwindSafe(|| {
        let mut g = TearSheetGenerator::init(time_of(t0));
        let state = |g: &TearSheetGenerator| {
            format!(
                "({}, {}, {})",
                zt(ms_of(g.time_engine_now)),
                dec_q(g.pnl_returns.pnl_raw),
                coq_three(&g.pnl_drawdown, &g.pnl_drawdown_mean, &g.pnl_drawdown_max)
            )
        };
        let obs0 = state(&g);
        let mut obs = vec![];
        let mut cops = vec![];
        let mut tags = vec![];
        let mut nontrivial = false;
        let mut last_gen = false;
        for op in ops {
            match op {
                Op::Upd { t, v, .. } => {
                    let completed_before = g.pnl_drawdown_mean.count;
                    g.update_from_position(&position(*v, *t));
                    tags.push(
                        if g.pnl_drawdown_mean.count != completed_before {
                            "inst_upd_completes"
                        } else {
                            "inst_upd"
                        }
                        .to_string(),
                    );
                    cops.push(format!("(IU {} {})", zt(*t), dec_q(*v)));
                    obs.push(format!("(None, {})", state(&g)));
                    last_gen = false;
                }
                Op::Gen => {
                    let sheet = g.generate(Decimal::ZERO, Daily);
                    tags.push(
                        match (&sheet.pnl_drawdown, last_gen) {
                            (Some(_), true) => "inst_gen_again_in_drawdown",
                            (Some(_), false) => "inst_gen_in_drawdown",
                            (None, true) => "inst_gen_again",
                            (None, false) => "inst_gen",
                        }
                        .to_string(),
                    );
                    nontrivial |= sheet.pnl_drawdown_max.is_some();
                    cops.push("IG".to_string());
                    obs.push(format!(
                        "(Some ({}, {}), {})",
                        dec_q(sheet.pnl),
                        coq_report(
                            &sheet.pnl_drawdown,
                            &sheet.pnl_drawdown_mean,
                            &sheet.pnl_drawdown_max
                        ),
                        state(&g)
                    ));
                    last_gen = true;
                }
            }
        }
        Ran {
            coq: format!("(CInst {} {} {} {})", zt(t0), list(&cops), obs0, list(&obs)),
            tags,
            nontrivial,
        }
    }));
    r.unwrap_or_else(|e| {
        panic_case(
            first_value(ops).is_none_or(|v| v > Decimal::ZERO),
            &format!("TearSheetGenerator: {}", ascii(&e)),
        )
    })
}

// ---- executing an input ---------------------------------------------------------------------

fn opt_dd(v: &Value) -> Option<Option<DdIn>> {
    if v.is_null() { Some(None) } else { DdIn::from(v).map(Some) }
}
fn dds(v: &Value) -> Option<Vec<DdIn>> {
    v.as_array()?.iter().map(DdIn::from).collect()
}

/// None when the input is malformed (e.g. damaged by the shrinker): such inputs are skipped.
fn run_input(inp: &Value) -> Option<Ran> {
    match inp.get("kind")?.as_str()? {
        "gen" => {
            let st = &inp["start"];
            let start = if st.is_null() {
                None
            } else {
                Some((st.get("t")?.as_i64()?, st.get("v")?.as_str()?.parse().ok()?))
            };
            Some(run_gen(&start, &ops_from(&inp["ops"])?))
        }
        "max" => Some(run_max(&opt_dd(&inp["init"])?, &dds(&inp["ds"])?)),
        "mean" => Some(run_mean(&opt_dd(&inp["init"])?, &dds(&inp["ds"])?)),
        "asset" => {
            let st = &inp["start"];
            let start = (
                st.get("t")?.as_i64()?,
                st.get("v")?.as_str()?.parse().ok()?,
                st.get("w")?.as_str()?.parse().ok()?,
            );
            Some(run_asset(&start, &ops_from(&inp["ops"])?))
        }
        "inst" => Some(run_inst(inp.get("t0")?.as_i64()?, &ops_from(&inp["ops"])?)),
        _ => None,
    }
}

fn emit(em: &mut Emitter, stream: &'static str, inp: Value) {
    if let Some(r) = run_input(&inp) {
        em.emit(Case {
            stream,
            input: inp,
            coq: r.coq,
            nontrivial: r.nontrivial,
            tags: r.tags,
        });
    }
}

fn gen_input(start: &Option<(i64, Decimal)>, ops: &[Op]) -> Value {
    json!({"kind": "gen",
           "start": start.map(|(t, v)| json!({"t": t, "v": v.to_string()})),
           "ops": ops_json(ops)})
}
fn asset_input(start: &(i64, Decimal, Decimal), ops: &[Op]) -> Value {
    json!({"kind": "asset",
           "start": {"t": start.0, "v": start.1.to_string(), "w": start.2.to_string()},
           "ops": ops_json(ops)})
}
fn inst_input(t0: i64, ops: &[Op]) -> Value {
    json!({"kind": "inst", "t0": t0, "ops": ops_json(ops)})
}
fn dd_input(kind: &str, init: &Option<DdIn>, ds: &[DdIn]) -> Value {
    json!({"kind": kind, "init": init.as_ref().map(|d| d.json()),
           "ds": ds.iter().map(|d| d.json()).collect::<Vec<_>>()})
}

// ---- generators -----------------------------------------------------------------------------

const T0: i64 = 1_700_000_000_000;

/// how values of one curve are drawn
#[derive(Clone, Copy, Debug)]
enum Mag {
    Grid,    // few integer levels: equal values, exact recoveries and equal depths are frequent
    Cents,   // two decimals around 100
    Tiny,    // 1e-8 .. 1e-5
    Huge,    // 1e9 .. 1e10 with 2 decimals
    Mixed,   // any of the above per point
}

fn value_at(r: &mut Rng, mag: Mag, level: i64) -> Decimal {
    // `level` is an abstract height >= ... ; the magnitude decides its rendering
    match mag {
        Mag::Grid => mk_dec(level, 0),
        Mag::Cents => mk_dec(10_000 + level * 37, 2),
        Mag::Tiny => mk_dec(1000 + level * 7, 8),
        Mag::Huge => mk_dec(1_000_000_000_00 + level * 123_456_7, 2),
        Mag::Mixed => {
            let m = *r.pick(&[Mag::Grid, Mag::Cents, Mag::Tiny, Mag::Huge]);
            value_at(r, m, level)
        }
    }
}

/// a curve as abstract levels; shapes chosen to hit every branch: monotone, oscillating, equal
/// consecutive values, recovery exactly to the previous peak (not above), a new peak right after
/// a peak, long declines
fn gen_levels(r: &mut Rng, n: usize) -> Vec<i64> {
    let mut v = vec![];
    let mut cur: i64 = r.range(3, 12);
    let mut peak = cur;
    v.push(cur);
    let shape = r.below(8);
    while v.len() < n {
        let step = match shape {
            0 => r.range(0, 3),                    // monotone up (with plateaus)
            1 => -r.range(0, 2),                   // monotone down
            2 => if v.len() % 2 == 0 { r.range(1, 6) } else { -r.range(1, 6) }, // oscillating
            3 => *r.pick(&[0, 0, 1, -1]),          // plateaus
            _ => r.range(-4, 4),                   // random walk
        };
        cur += step;
        match r.below(12) {
            0 => cur = peak,                       // recover exactly to the running peak
            1 => cur = peak + 1,                   // barely above
            2 => {
                // a long decline
                let k = r.range(2, 6) as usize;
                for _ in 0..k {
                    if v.len() < n {
                        cur -= r.range(0, 2);
                        v.push(cur);
                    }
                }
            }
            3 => {
                // two new peaks in a row
                cur = peak + r.range(1, 3);
                if v.len() < n {
                    v.push(cur);
                }
                peak = peak.max(cur);
                cur = peak + r.range(1, 3);
            }
            _ => {}
        }
        if v.len() < n {
            v.push(cur);
        }
        peak = peak.max(cur);
    }
    v
}

fn gen_times(r: &mut Rng, n: usize, adversarial: bool) -> Vec<i64> {
    let mut t = T0 + r.below(1_000_000) as i64;
    let mut v = vec![];
    for _ in 0..n {
        v.push(t);
        t += if adversarial {
            match r.below(4) {
                0 => 0,                                  // equal timestamps
                1 => -(r.below(50_000) as i64),          // out of order
                _ => 1 + r.below(100_000) as i64,
            }
        } else {
            match r.below(6) {
                0 => 1,
                1 => 86_400_000 * (1 + r.below(30) as i64),
                _ => 1 + r.below(3_600_000) as i64,
            }
        };
    }
    v
}

/// a timed curve of `n` points
fn gen_curve(r: &mut Rng, n: usize, adversarial: bool) -> Vec<(i64, Decimal)> {
    let mag = *r.pick(&[Mag::Grid, Mag::Grid, Mag::Cents, Mag::Cents, Mag::Tiny, Mag::Huge, Mag::Mixed]);
    let levels = gen_levels(r, n);
    let times = gen_times(r, n, adversarial);
    let mut pts: Vec<(i64, Decimal)> = times
        .into_iter()
        .zip(levels.into_iter())
        .map(|(t, l)| (t, value_at(r, mag, l)))
        .collect();
    if adversarial {
        // zero and negative values after the first point (declines deeper than 100%), and
        // sometimes a non-positive start (outside the property's requirement: exercised, not
        // judged)
        for (i, p) in pts.iter_mut().enumerate() {
            let (neg, zero) = if i == 0 { (r.chance(1, 12), r.chance(1, 24)) } else { (r.chance(1, 6), r.chance(1, 12)) };
            if neg {
                p.1 = -p.1;
            }
            if zero {
                p.1 = Decimal::ZERO;
            }
        }
    }
    pts
}

/// insert generate() calls: sometimes none, sometimes at random points (repeated), sometimes
/// after every update
fn with_gens(r: &mut Rng, pts: &[(i64, Decimal)], mode: u64, free: bool) -> Vec<Op> {
    let mut ops = vec![];
    if mode >= 1 && r.chance(1, 4) {
        ops.push(Op::Gen);
    }
    for (t, v) in pts {
        let w = if free { *v - mk_dec(r.range(0, 3), 0) } else { Decimal::ZERO };
        ops.push(Op::Upd { t: *t, v: *v, w });
        let k = match mode {
            0 => 0,
            1 => if r.chance(1, 4) { 1 + r.below(3) } else { 0 },
            _ => 1 + r.below(2),
        };
        for _ in 0..k {
            ops.push(Op::Gen);
        }
    }
    ops
}

fn gen_dd(r: &mut Rng, style: u64) -> DdIn {
    let v = match style {
        0 => *r.pick(&[mk_dec(1, 1), mk_dec(2, 1), mk_dec(-2, 1), mk_dec(5, 2), mk_dec(20, 2)]),
        1 => mk_dec(r.range(1, 999_999), 6),
        _ => {
            let m = mk_dec(r.range(0, 5000), 4);
            if r.chance(1, 3) { -m } else { m }
        }
    };
    let s = T0 + r.below(10_000_000) as i64;
    let e = s + match r.below(5) {
        0 => 0,
        1 => r.range(1, 5),
        _ => r.range(1, 100_000_000),
    };
    DdIn { v, s, e }
}

/// PnL deltas whose cumulative sum follows the curve (first delta = first value)
fn deltas(pts: &[(i64, Decimal)]) -> Vec<(i64, Decimal)> {
    let mut prev = Decimal::ZERO;
    pts.iter()
        .map(|(t, v)| {
            let d = *v - prev;
            prev = *v;
            (*t, d)
        })
        .collect()
}

fn table(em: &mut Emitter) {
    // every curve of length 1..=5 over three levels, default() start, generate() at the end;
    // depth classes: deeper / equal / shallower than the deepest so far; recovery to the peak
    // exactly / above it / new peak right after a peak
    let vals = [mk_dec(20, 0), mk_dec(25, 0), mk_dec(40, 0)];
    for n in 1..=5usize {
        let total = 3usize.pow(n as u32);
        for code in 0..total {
            let mut c = code;
            let mut ops = vec![];
            for i in 0..n {
                ops.push(Op::Upd { t: T0 + 1000 * i as i64 + (i * i) as i64, v: vals[c % 3], w: Decimal::ZERO });
                c /= 3;
            }
            ops.push(Op::Gen);
            emit(em, "table", gen_input(&None, &ops));
        }
    }
    // tear sheets: every curve of length 1..=4 after the start value, generate() twice after
    // every update
    for n in 1..=4usize {
        let total = 3usize.pow(n as u32);
        for code in 0..total {
            let mut c = code;
            let mut pts = vec![];
            for i in 0..n {
                pts.push((T0 + 1000 * (i as i64 + 1) + (i * i) as i64, vals[c % 3]));
                c /= 3;
            }
            let mut ops = vec![];
            for (t, v) in &pts {
                ops.push(Op::Upd { t: *t, v: *v, w: vals[0] });
                ops.push(Op::Gen);
                ops.push(Op::Gen);
            }
            emit(em, "table", asset_input(&(T0, vals[1], vals[0]), &ops));
            let mut all = vec![(T0, vals[1])];
            all.extend(pts.iter().cloned());
            let mut iops = vec![];
            for (t, d) in deltas(&all) {
                iops.push(Op::Upd { t, v: d, w: Decimal::ZERO });
                iops.push(Op::Gen);
                iops.push(Op::Gen);
            }
            emit(em, "table", inst_input(T0 - 5, &iops));
        }
    }
    // max / mean generators: every sequence of length <= 3 over {0.1, 0.2, -0.2} (ties between
    // different drawdowns, negative values), with default() and init() starts
    let dvals = [mk_dec(1, 1), mk_dec(2, 1), mk_dec(-2, 1)];
    for n in 0..=3usize {
        let total = 3usize.pow(n as u32);
        for code in 0..total {
            let mut c = code;
            let mut ds = vec![];
            for i in 0..n {
                let s = T0 + 10_000 * i as i64;
                ds.push(DdIn { v: dvals[c % 3], s, e: s + 1000 + 333 * (c % 3) as i64 + i as i64 });
                c /= 3;
            }
            for init in [None, Some(DdIn { v: mk_dec(2, 1), s: T0 - 7, e: T0 - 2 })] {
                emit(em, "table", dd_input("max", &init, &ds));
                emit(em, "table", dd_input("mean", &init, &ds));
            }
        }
    }
}

fn random(em: &mut Emitter, r: &mut Rng, thorough: bool) {
    let (n_gen, n_adv, n_dd, n_ts, max_len) =
        if thorough { (1000, 300, 600, 800, 50) } else { (220, 80, 120, 170, 26) };
    for i in 0..n_gen + n_adv {
        let adv = i >= n_gen;
        let n = 1 + r.below(max_len) as usize;
        let pts = gen_curve(r, n, adv);
        let use_init = r.chance(1, 2);
        let mode = r.below(3);
        let (start, rest) = if use_init { (Some(pts[0]), &pts[1..]) } else { (None, &pts[..]) };
        let ops = with_gens(r, rest, mode, false);
        emit(em, if adv { "adversarial" } else { "random" }, gen_input(&start, &ops));
    }
    for i in 0..n_dd {
        let n = r.below(if thorough { 60 } else { 14 }) as usize;
        let style = r.below(3);
        let ds: Vec<DdIn> = (0..n).map(|_| gen_dd(r, style)).collect();
        let init = if r.chance(1, 3) { Some(gen_dd(r, style)) } else { None };
        emit(em, "random", dd_input(if i % 2 == 0 { "max" } else { "mean" }, &init, &ds));
    }
    for i in 0..n_ts {
        let adv = i % 5 == 4;
        let n = 2 + r.below(max_len.min(40) - 1) as usize;
        let pts = gen_curve(r, n, adv);
        let mode = 1 + r.below(2);
        let stream = if adv { "adversarial" } else { "random" };
        if i % 2 == 0 {
            let ops = with_gens(r, &pts[1..], mode, true);
            let free0 = pts[0].1 - mk_dec(r.range(0, 2), 0);
            emit(em, stream, asset_input(&(pts[0].0, pts[0].1, free0), &ops));
        } else {
            let ds = deltas(&pts);
            let ops = with_gens(r, &ds, mode, false);
            emit(em, stream, inst_input(pts[0].0 - 1 - r.below(1000) as i64, &ops));
        }
    }
}

fn main() {
    quiet_panics();
    let args = parse_args();
    let mut em = Emitter::create(&args.out);
    match args.mode.as_str() {
        "gen" => {
            let mut r = Rng::new(args.seed);
            table(&mut em);
            random(&mut em, &mut r, args.tier == "thorough");
        }
        "exec" => {
            for (inp, stream) in read_inputs(args.input.as_deref().expect("--in")) {
                emit(&mut em, stream_static(&stream), inp);
            }
        }
        m => panic!("unknown mode {m}"),
    }
    em.finish();
}
