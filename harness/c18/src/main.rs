//! C18 correspondence harness: drives DrawdownGenerator / MaxDrawdownGenerator /
//! MeanDrawdownGenerator directly, and TearSheetAssetGenerator / TearSheetGenerator (drawdown
//! related fields), on generated timed curves; prints inputs + everything observed as Coq terms
//! of type `case` (Corr/C18.v).
use barter::{
    Timed,
    engine::state::position::PositionExited,
    statistic::{
        metric::drawdown::{
            Drawdown, DrawdownGenerator,
            max::{MaxDrawdown, MaxDrawdownGenerator},
            mean::{MeanDrawdown, MeanDrawdownGenerator},
        },
        summary::{
            TradingSummaryGenerator, asset::TearSheetAssetGenerator, instrument::TearSheetGenerator,
        },
        time::Daily,
    },
};
use barter_execution::{
    balance::{AssetBalance, Balance},
    trade::AssetFees,
};
use barter_instrument::{
    Side,
    asset::{AssetIndex, ExchangeAsset, QuoteAsset, name::AssetNameInternal},
    exchange::ExchangeId,
    instrument::{InstrumentIndex, name::InstrumentNameInternal},
};
use barter_integration::snapshot::Snapshot;
use chrono::{DateTime, TimeZone, Utc};
use rust_decimal::Decimal;
use serde::{Serialize, de::DeserializeOwned};
use serde_json::{Value, json};
use std::panic::AssertUnwindSafe;
use vh_common::*;

/// times are exact nanoseconds since the epoch (chrono's resolution); the Coq side keeps the same
/// unit, milliseconds only appear where the code itself truncates (`num_milliseconds`)
type Ns = i128;
const NS: i128 = 1_000_000_000;
const MS: i128 = 1_000_000;

fn time_of(ns: Ns) -> DateTime<Utc> {
    Utc.timestamp_opt(ns.div_euclid(NS) as i64, ns.rem_euclid(NS) as u32)
        .unwrap()
}
fn ms_of(t: DateTime<Utc>) -> Ns {
    t.timestamp() as i128 * NS + t.timestamp_subsec_nanos() as i128
}
fn zt(ns: Ns) -> String {
    z(ns)
}
/// a time in an input: a JSON string holds nanoseconds, a JSON number milliseconds (older
/// corpus files)
fn json_time(v: &Value) -> Option<Ns> {
    match v {
        Value::String(x) => x.parse().ok(),
        Value::Number(n) => n.as_i64().map(|m| m as i128 * MS),
        _ => None,
    }
}
fn time_json(t: Ns) -> Value {
    Value::String(t.to_string())
}

// ---- Coq printers for observed values -------------------------------------------------------

/// (value, start, end) : Q * Z * Z
fn coq_dd(d: &Drawdown) -> String {
    format!(
        "({}, {}, {})",
        dec_q(d.value),
        zt(ms_of(d.time_start)),
        zt(ms_of(d.time_end))
    )
}
fn coq_odd(d: &Option<Drawdown>) -> String {
    opt(d.as_ref().map(coq_dd))
}
fn coq_omax(d: &Option<MaxDrawdown>) -> String {
    opt(d.as_ref().map(|m| coq_dd(&m.0)))
}
fn coq_omean(d: &Option<MeanDrawdown>) -> String {
    opt(d
        .as_ref()
        .map(|m| pair(&dec_q(m.mean_drawdown), &z(m.mean_drawdown_ms as i128))))
}
/// (peak, drawdown_max, time_peak, time_now) : option Q * Q * option Z * Z
fn coq_gstate(g: &DrawdownGenerator) -> String {
    format!(
        "({}, {}, {}, {})",
        opt(g.peak.map(dec_q)),
        dec_q(g.drawdown_max),
        opt(g.time_peak.map(|t| zt(ms_of(t)))),
        zt(ms_of(g.time_now))
    )
}
/// (count, mean_drawdown) : Z * option (Q * Z)
fn coq_meanstate(g: &MeanDrawdownGenerator) -> String {
    pair(&z(g.count as i128), &coq_omean(&g.mean_drawdown))
}

// ---- inputs ---------------------------------------------------------------------------------

#[derive(Clone, Debug)]
struct DdIn {
    v: Decimal,
    s: Ns,
    e: Ns,
    /// persist / restore the generator after feeding this drawdown (before it is observed)
    rt: bool,
}
impl DdIn {
    fn json(&self) -> Value {
        json!({"v": self.v.to_string(), "s": time_json(self.s), "e": time_json(self.e), "rt": self.rt})
    }
    fn from(v: &Value) -> Option<DdIn> {
        Some(DdIn {
            v: v.get("v")?.as_str()?.parse().ok()?,
            s: json_time(v.get("s")?)?,
            e: json_time(v.get("e")?)?,
            rt: v.get("rt").and_then(|x| x.as_bool()).unwrap_or(false),
        })
    }
    fn dd(&self) -> Drawdown {
        Drawdown {
            value: self.v,
            time_start: time_of(self.s),
            time_end: time_of(self.e),
        }
    }
    fn coq(&self) -> String {
        format!("({}, {}, {})", dec_q(self.v), zt(self.s), zt(self.e))
    }
}

/// one operation on a generator fed by a curve: a point (time, value, second value) or a call
/// of generate(). `w` is the free balance for the asset tear sheet and unused elsewhere.
#[derive(Clone, Debug)]
enum Op {
    Upd { t: Ns, v: Decimal, w: Decimal },
    Gen,
    /// persist / restore: the generator is replaced by its serde_json round trip
    Rt,
}
impl Op {
    fn json(&self) -> Value {
        match self {
            Op::Upd { t, v, w } => {
                json!({"t": time_json(*t), "v": v.to_string(), "w": w.to_string()})
            }
            Op::Gen => json!({"gen": true}),
            Op::Rt => json!({"rt": true}),
        }
    }
    fn from(v: &Value) -> Option<Op> {
        if v.get("gen").is_some() {
            return Some(Op::Gen);
        }
        if v.get("rt").is_some() {
            return Some(Op::Rt);
        }
        Some(Op::Upd {
            t: json_time(v.get("t")?)?,
            v: v.get("v")?.as_str()?.parse().ok()?,
            w: match v.get("w") {
                Some(w) => w.as_str()?.parse().ok()?,
                None => Decimal::ZERO,
            },
        })
    }
}
fn ops_json(ops: &[Op]) -> Value {
    Value::Array(ops.iter().map(|o| o.json()).collect())
}
fn ops_from(v: &Value) -> Option<Vec<Op>> {
    v.as_array()?.iter().map(Op::from).collect()
}

// ---- runners --------------------------------------------------------------------------------

/// persist / restore: serialise to JSON text, deserialise, compare. Returns the restored value
/// and whether it differs from the original (on the unchanged code it never does). A value
/// that cannot be serialised or restored at all panics (caught: an observed outcome).
fn roundtrip<T: Serialize + DeserializeOwned + PartialEq>(x: &T) -> (T, bool) {
    let text = serde_json::to_string(x).expect("persist: serde_json::to_string failed");
    let back: T = serde_json::from_str(&text).expect("restore: serde_json::from_str failed");
    let changed = back != *x;
    (back, changed)
}

struct Ran {
    coq: String,
    tags: Vec<String>,
    nontrivial: bool,
}
/// a panic of the implementation is an observed outcome; `in_scope` says whether the input
/// meets the property's requirement (first value of the curve positive)
fn panic_case(in_scope: bool, what: &str) -> Ran {
    Ran {
        coq: format!("(CPanic {} {})", b(in_scope), s(what)),
        tags: vec!["panic".to_string()],
        nontrivial: true,
    }
}

/// DrawdownGenerator directly. start = None: DrawdownGenerator::default(); Some: init(point).
/// `via_new`: the same start state built with the public constructor `new(..)` instead.
fn run_gen(start: &Option<(Ns, Decimal)>, ops: &[Op], via_new: bool) -> Ran {
    let r = catch(AssertUnwindSafe(|| {
        let mut tags = vec![];
        let mut g = match (start, via_new) {
            (None, false) => DrawdownGenerator::default(),
            (None, true) => DrawdownGenerator::new(None, Decimal::ZERO, None, DateTime::<Utc>::default()),
            (Some((t, v)), false) => DrawdownGenerator::init(Timed::new(*v, time_of(*t))),
            (Some((t, v)), true) => {
                DrawdownGenerator::new(Some(*v), Decimal::ZERO, Some(time_of(*t)), time_of(*t))
            }
        };
        if via_new {
            tags.push("gen_start_via_new".to_string());
        }
        let obs_of = |ret: &Option<Drawdown>, g: &DrawdownGenerator| {
            let probe = g.clone().generate();
            format!("(mkGObs {} {} {})", coq_odd(ret), coq_gstate(g), coq_odd(&probe))
        };
        let obs0 = obs_of(&None, &g);
        let mut obs = vec![];
        let mut cops = vec![];
        let mut emitted = 0;
        for op in ops {
            match op {
                Op::Upd { t, v, .. } => {
                    let before = g.clone();
                    let ret = g.update(Timed::new(*v, time_of(*t)));
                    tags.push(
                        match (before.peak, &ret) {
                            (None, _) => "upd_first",
                            (Some(p), Some(_)) if *v > p => "upd_new_peak_emit",
                            (Some(p), None) if *v > p => "upd_new_peak_silent",
                            (Some(p), _) if *v == p => "upd_equal_peak",
                            (Some(_), _) if g.drawdown_max != before.drawdown_max => "upd_deeper",
                            (Some(_), _) => "upd_not_deeper",
                        }
                        .to_string(),
                    );
                    if ret.is_some() {
                        emitted += 1;
                    }
                    cops.push(format!("(GU {} {})", zt(*t), dec_q(*v)));
                    obs.push(obs_of(&ret, &g));
                }
                Op::Gen => {
                    let ret = g.generate();
                    tags.push(if ret.is_some() { "gen_some" } else { "gen_none" }.to_string());
                    cops.push("GG".to_string());
                    obs.push(obs_of(&ret, &g));
                }
                Op::Rt => {
                    let (back, changed) = roundtrip(&g);
                    tags.push(
                        if g.drawdown_max != Decimal::ZERO { "rt_mid_drawdown" } else { "rt_flat" }
                            .to_string(),
                    );
                    g = back;
                    cops.push(format!("(GR {})", b(changed)));
                    obs.push(obs_of(&None, &g));
                }
            }
        }
        Ran {
            coq: format!(
                "(CGen {} {} {} {})",
                opt(start.map(|(t, v)| pair(&zt(t), &dec_q(v)))),
                list(&cops),
                obs0,
                list(&obs)
            ),
            tags,
            nontrivial: emitted > 0 || g.drawdown_max != Decimal::ZERO,
        }
    }));
    let first = start.map(|(_, v)| v).or_else(|| first_value(ops));
    r.unwrap_or_else(|e| {
        panic_case(first.is_none_or(|v| v > Decimal::ZERO), &format!("DrawdownGenerator: {}", ascii(&e)))
    })
}

/// value of the first point among the operations
fn first_value(ops: &[Op]) -> Option<Decimal> {
    ops.iter().find_map(|o| match o {
        Op::Upd { v, .. } => Some(*v),
        _ => None,
    })
}

fn ascii(x: &str) -> String {
    x.chars().filter(|c| c.is_ascii() && *c != '"').take(80).collect()
}

fn rts_coq(ds: &[DdIn], changed: bool) -> String {
    format!(
        "{} {}",
        list(&ds.iter().map(|d| b(d.rt)).collect::<Vec<_>>()),
        b(changed)
    )
}

fn run_max(init: &Option<DdIn>, ds: &[DdIn], via_new: bool) -> Ran {
    let r = catch(AssertUnwindSafe(|| {
        let mut g = match (init, via_new) {
            (None, false) => MaxDrawdownGenerator::default(),
            (None, true) => MaxDrawdownGenerator::new(None),
            (Some(d), false) => MaxDrawdownGenerator::init(d.dd()),
            (Some(d), true) => MaxDrawdownGenerator::new(Some(MaxDrawdown::new(Drawdown::new(
                d.v,
                time_of(d.s),
                time_of(d.e),
            )))),
        };
        let mut changed = false;
        let obs0 = pair(&coq_omax(&g.max), &coq_omax(&g.generate()));
        let mut obs = vec![];
        let mut tags = vec![];
        for d in ds {
            let before = g.max.clone();
            g.update(&d.dd());
            tags.push(
                match before {
                    None => "max_first",
                    Some(b) if g.max.as_ref() != Some(&b) => "max_superseded",
                    Some(b) if b.0.value.abs() == d.v.abs() => "max_tie_kept",
                    Some(_) => "max_kept",
                }
                .to_string(),
            );
            if d.rt {
                let (back, c) = roundtrip(&g);
                changed |= c;
                g = back;
                tags.push("max_rt".to_string());
            }
            obs.push(pair(&coq_omax(&g.max), &coq_omax(&g.generate())));
        }
        if via_new {
            tags.push("max_start_via_new".to_string());
        }
        Ran {
            coq: format!(
                "(CMax {} {} {} {} {})",
                opt(init.as_ref().map(|d| d.coq())),
                list(&ds.iter().map(|d| d.coq()).collect::<Vec<_>>()),
                rts_coq(ds, changed),
                obs0,
                list(&obs)
            ),
            tags,
            nontrivial: !ds.is_empty(),
        }
    }));
    r.unwrap_or_else(|e| panic_case(true, &format!("MaxDrawdownGenerator: {}", ascii(&e))))
}

fn run_mean(init: &Option<DdIn>, ds: &[DdIn], via_new: bool) -> Ran {
    let r = catch(AssertUnwindSafe(|| {
        let mut g = match (init, via_new) {
            (None, false) => MeanDrawdownGenerator::default(),
            (None, true) => MeanDrawdownGenerator::new(0, None),
            (Some(d), false) => MeanDrawdownGenerator::init(d.dd()),
            (Some(d), true) => MeanDrawdownGenerator::new(
                1,
                Some(MeanDrawdown::new(d.v, d.dd().duration().num_milliseconds())),
            ),
        };
        let mut changed = false;
        let obs0 = pair(&coq_meanstate(&g), &coq_omean(&g.generate()));
        let mut obs = vec![];
        let mut tags = vec![];
        for d in ds {
            tags.push(if g.mean_drawdown.is_none() { "mean_first" } else { "mean_next" }.to_string());
            g.update(&d.dd());
            if d.rt {
                let (back, c) = roundtrip(&g);
                changed |= c;
                g = back;
                tags.push("mean_rt".to_string());
            }
            obs.push(pair(&coq_meanstate(&g), &coq_omean(&g.generate())));
        }
        if via_new {
            tags.push("mean_start_via_new".to_string());
        }
        Ran {
            coq: format!(
                "(CMean {} {} {} {} {})",
                opt(init.as_ref().map(|d| d.coq())),
                list(&ds.iter().map(|d| d.coq()).collect::<Vec<_>>()),
                rts_coq(ds, changed),
                obs0,
                list(&obs)
            ),
            tags,
            nontrivial: !ds.is_empty(),
        }
    }));
    r.unwrap_or_else(|e| panic_case(true, &format!("MeanDrawdownGenerator: {}", ascii(&e))))
}

/// (drawdown generator, mean generator, max generator) : gstate * meanstate * option dd
fn coq_three(g: &DrawdownGenerator, m: &MeanDrawdownGenerator, x: &MaxDrawdownGenerator) -> String {
    format!("({}, {}, {})", coq_gstate(g), coq_meanstate(m), coq_omax(&x.max))
}
fn coq_report(d: &Option<Drawdown>, m: &Option<MeanDrawdown>, x: &Option<MaxDrawdown>) -> String {
    format!("({}, {}, {})", coq_odd(d), coq_omean(m), coq_omax(x))
}
fn coq_obal(b: &Option<Balance>) -> String {
    opt(b.map(|b| pair(&dec_q(b.total), &dec_q(b.free))))
}

/// `via_reset`: the generator is a `default()` one (fed a decoy history) that is then `reset`
/// to the start balance, instead of `init(start)`.
fn run_asset(start: &(Ns, Decimal, Decimal), ops: &[Op], via_reset: bool) -> Ran {
    let r = catch(AssertUnwindSafe(|| {
        let start_balance = Timed::new(Balance::new(start.1, start.2), time_of(start.0));
        let mut g = if via_reset {
            let mut g = TearSheetAssetGenerator::default();
            for (i, v) in [50i64, 30, 70, 60].iter().enumerate() {
                g.update_from_balance(Snapshot(&AssetBalance {
                    asset: AssetIndex(0),
                    balance: Balance::new(Decimal::new(*v, 0), Decimal::new(1, 0)),
                    time_exchange: time_of(start.0 - 5_000_000_000 + i as i128 * 1_000_003),
                }));
            }
            g.reset(&start_balance);
            g
        } else {
            TearSheetAssetGenerator::init(&start_balance)
        };
        let state = |g: &TearSheetAssetGenerator| {
            pair(
                &coq_obal(&g.balance_now),
                &coq_three(&g.drawdown, &g.drawdown_mean, &g.drawdown_max),
            )
        };
        let obs0 = state(&g);
        let mut obs = vec![];
        let mut cops = vec![];
        let mut tags = vec![];
        let mut nontrivial = false;
        let mut last_gen = false;
        for op in ops {
            match op {
                Op::Upd { t, v, w } => {
                    let completed_before = g.drawdown_mean.count;
                    g.update_from_balance(Snapshot(&AssetBalance {
                        asset: AssetIndex(0),
                        balance: Balance::new(*v, *w),
                        time_exchange: time_of(*t),
                    }));
                    tags.push(
                        if g.drawdown_mean.count != completed_before {
                            "asset_upd_completes"
                        } else {
                            "asset_upd"
                        }
                        .to_string(),
                    );
                    cops.push(format!("(AU {} {} {})", zt(*t), dec_q(*v), dec_q(*w)));
                    obs.push(format!("(None, {})", state(&g)));
                    last_gen = false;
                }
                Op::Gen => {
                    let sheet = g.generate();
                    tags.push(
                        match (&sheet.drawdown, last_gen) {
                            (Some(_), true) => "asset_gen_again_in_drawdown",
                            (Some(_), false) => "asset_gen_in_drawdown",
                            (None, true) => "asset_gen_again",
                            (None, false) => "asset_gen",
                        }
                        .to_string(),
                    );
                    nontrivial |= sheet.drawdown_max.is_some();
                    cops.push("AG".to_string());
                    obs.push(format!(
                        "(Some ({}, {}), {})",
                        coq_obal(&sheet.balance_end),
                        coq_report(&sheet.drawdown, &sheet.drawdown_mean, &sheet.drawdown_max),
                        state(&g)
                    ));
                    last_gen = true;
                }
                Op::Rt => {
                    let (back, changed) = roundtrip(&g);
                    tags.push(
                        if g.drawdown.drawdown_max != Decimal::ZERO { "asset_rt_mid_drawdown" } else { "asset_rt_flat" }
                            .to_string(),
                    );
                    g = back;
                    cops.push(format!("(AR {})", b(changed)));
                    obs.push(format!("(None, {})", state(&g)));
                }
            }
        }
        if via_reset {
            tags.push("asset_start_via_reset".to_string());
        }
        Ran {
            coq: format!(
                "(CAsset ({}, {}, {}) {} {} {})",
                zt(start.0),
                dec_q(start.1),
                dec_q(start.2),
                list(&cops),
                obs0,
                list(&obs)
            ),
            tags,
            nontrivial,
        }
    }));
    r.unwrap_or_else(|e| {
        panic_case(start.1 > Decimal::ZERO, &format!("TearSheetAssetGenerator: {}", ascii(&e)))
    })
}

/// a closed position whose only fields the drawdown path may use are `pnl_realised` and
/// `time_exit`; every other field carries a decoy value different from those (fees that are not
/// zero, an entry time well before the exit, a cost basis unrelated to the PnL)
fn position<K>(key: K, pnl: Decimal, t_exit: Ns) -> PositionExited<QuoteAsset, K> {
    PositionExited {
        instrument: key,
        side: Side::Sell,
        price_entry_average: Decimal::new(137, 0),
        quantity_abs_max: Decimal::new(11, 0),
        pnl_realised: pnl,
        fees_enter: AssetFees::quote_fees(Decimal::new(33, 1)),
        fees_exit: AssetFees::quote_fees(Decimal::new(17, 1)),
        time_enter: time_of(t_exit - 7_777_000_123),
        time_exit: time_of(t_exit),
        trades: vec![],
    }
}

/// `via_reset`: `init(another time)` + a decoy history, then `reset(t0)`.
fn run_inst(t0: Ns, ops: &[Op], via_reset: bool) -> Ran {
    let r = catch(AssertUnwindSafe(|| {
        let mut g = if via_reset {
            let mut g = TearSheetGenerator::init(time_of(t0 - 9_000_000_000));
            for (i, v) in [50i64, -20, 40, -10].iter().enumerate() {
                g.update_from_position(&position(
                    InstrumentIndex(0),
                    Decimal::new(*v, 0),
                    t0 - 5_000_000_000 + i as i128 * 1_000_003,
                ));
            }
            g.reset(time_of(t0));
            g
        } else {
            TearSheetGenerator::init(time_of(t0))
        };
        let state = |g: &TearSheetGenerator| {
            format!(
                "({}, {}, {})",
                zt(ms_of(g.time_engine_now)),
                dec_q(g.pnl_returns.pnl_raw),
                coq_three(&g.pnl_drawdown, &g.pnl_drawdown_mean, &g.pnl_drawdown_max)
            )
        };
        let obs0 = state(&g);
        let mut obs = vec![];
        let mut cops = vec![];
        let mut tags = vec![];
        let mut nontrivial = false;
        let mut last_gen = false;
        for op in ops {
            match op {
                Op::Upd { t, v, .. } => {
                    let completed_before = g.pnl_drawdown_mean.count;
                    g.update_from_position(&position(InstrumentIndex(0), *v, *t));
                    tags.push(
                        if g.pnl_drawdown_mean.count != completed_before {
                            "inst_upd_completes"
                        } else {
                            "inst_upd"
                        }
                        .to_string(),
                    );
                    cops.push(format!("(IU {} {})", zt(*t), dec_q(*v)));
                    obs.push(format!("(None, {})", state(&g)));
                    last_gen = false;
                }
                Op::Gen => {
                    let sheet = g.generate(Decimal::ZERO, Daily);
                    tags.push(
                        match (&sheet.pnl_drawdown, last_gen) {
                            (Some(_), true) => "inst_gen_again_in_drawdown",
                            (Some(_), false) => "inst_gen_in_drawdown",
                            (None, true) => "inst_gen_again",
                            (None, false) => "inst_gen",
                        }
                        .to_string(),
                    );
                    nontrivial |= sheet.pnl_drawdown_max.is_some();
                    cops.push("IG".to_string());
                    obs.push(format!(
                        "(Some ({}, {}), {})",
                        dec_q(sheet.pnl),
                        coq_report(
                            &sheet.pnl_drawdown,
                            &sheet.pnl_drawdown_mean,
                            &sheet.pnl_drawdown_max
                        ),
                        state(&g)
                    ));
                    last_gen = true;
                }
                Op::Rt => {
                    let (back, changed) = roundtrip(&g);
                    tags.push(
                        if g.pnl_drawdown.drawdown_max != Decimal::ZERO { "inst_rt_mid_drawdown" } else { "inst_rt_flat" }
                            .to_string(),
                    );
                    g = back;
                    cops.push(format!("(IR {})", b(changed)));
                    obs.push(format!("(None, {})", state(&g)));
                }
            }
        }
        if via_reset {
            tags.push("inst_start_via_reset".to_string());
        }
        Ran {
            coq: format!("(CInst {} {} {} {})", zt(t0), list(&cops), obs0, list(&obs)),
            tags,
            nontrivial,
        }
    }));
    r.unwrap_or_else(|e| {
        panic_case(
            first_value(ops).is_none_or(|v| v > Decimal::ZERO),
            &format!("TearSheetGenerator: {}", ascii(&e)),
        )
    })
}

// ---- TradingSummaryGenerator: several instruments and assets fed interleaved ------------------

/// an operation on a TradingSummaryGenerator: a closed position of instrument `k` (addressed by
/// index, or by name when `by_name`), a balance of asset `k`, or generate()
#[derive(Clone, Debug)]
enum SOp {
    Pos { k: usize, by_name: bool, t: Ns, v: Decimal },
    Bal { k: usize, by_name: bool, t: Ns, v: Decimal, w: Decimal },
    Gen,
    /// persist / restore the tear sheet generator of instrument / asset `k` (the whole summary
    /// generator cannot go through JSON: its asset map is keyed by a struct)
    RtInst { k: usize },
    RtAsset { k: usize },
}
impl SOp {
    fn json(&self) -> Value {
        match self {
            SOp::Pos { k, by_name, t, v } => {
                json!({"pos": k, "by_name": by_name, "t": time_json(*t), "v": v.to_string()})
            }
            SOp::Bal { k, by_name, t, v, w } => {
                json!({"bal": k, "by_name": by_name, "t": time_json(*t), "v": v.to_string(), "w": w.to_string()})
            }
            SOp::Gen => json!({"gen": true}),
            SOp::RtInst { k } => json!({"rt_inst": k}),
            SOp::RtAsset { k } => json!({"rt_asset": k}),
        }
    }
    fn from(v: &Value) -> Option<SOp> {
        if v.get("gen").is_some() {
            return Some(SOp::Gen);
        }
        if let Some(k) = v.get("rt_inst") {
            return Some(SOp::RtInst { k: k.as_u64()? as usize });
        }
        if let Some(k) = v.get("rt_asset") {
            return Some(SOp::RtAsset { k: k.as_u64()? as usize });
        }
        let by_name = v.get("by_name").and_then(|b| b.as_bool()).unwrap_or(false);
        let t = json_time(v.get("t")?)?;
        let val = v.get("v")?.as_str()?.parse().ok()?;
        if let Some(k) = v.get("pos") {
            return Some(SOp::Pos { k: k.as_u64()? as usize, by_name, t, v: val });
        }
        Some(SOp::Bal {
            k: v.get("bal")?.as_u64()? as usize,
            by_name,
            t,
            v: val,
            w: v.get("w")?.as_str()?.parse().ok()?,
        })
    }
}

/// names whose sort order differs from their position, sharing prefixes
const INST_NAMES: [&str; 4] = ["z_btc_usdt", "btc_usdt", "btc_usd", "a_eth"];
const ASSET_NAMES: [&str; 3] = ["usdt", "btc", "usd"];
const ASSET_EXCHANGES: [ExchangeId; 3] = [ExchangeId::Simulated, ExchangeId::Mock, ExchangeId::BinanceSpot];

fn inst_name(k: usize) -> InstrumentNameInternal {
    InstrumentNameInternal::new(INST_NAMES[k % INST_NAMES.len()])
}
fn asset_key(k: usize) -> ExchangeAsset<AssetNameInternal> {
    ExchangeAsset::new(
        ASSET_EXCHANGES[k % ASSET_EXCHANGES.len()],
        AssetNameInternal::new(ASSET_NAMES[k % ASSET_NAMES.len()]),
    )
}

fn run_summary(t0: Ns, n_inst: usize, starts: &[(Ns, Decimal, Decimal)], ops: &[SOp]) -> Ran {
    let n_inst = n_inst.min(INST_NAMES.len());
    let starts = &starts[..starts.len().min(ASSET_NAMES.len())];
    let r = catch(AssertUnwindSafe(|| {
        let mut g = TradingSummaryGenerator {
            risk_free_return: Decimal::ZERO,
            time_engine_start: time_of(t0),
            time_engine_now: time_of(t0),
            instruments: (0..n_inst)
                .map(|k| (inst_name(k), TearSheetGenerator::init(time_of(t0))))
                .collect(),
            assets: starts
                .iter()
                .enumerate()
                .map(|(k, (t, v, w))| {
                    (
                        asset_key(k),
                        TearSheetAssetGenerator::init(&Timed::new(Balance::new(*v, *w), time_of(*t))),
                    )
                })
                .collect(),
        };
        let state = |g: &TradingSummaryGenerator| {
            let is: Vec<String> = g
                .instruments
                .values()
                .map(|s| {
                    format!(
                        "({}, {}, {})",
                        zt(ms_of(s.time_engine_now)),
                        dec_q(s.pnl_returns.pnl_raw),
                        coq_three(&s.pnl_drawdown, &s.pnl_drawdown_mean, &s.pnl_drawdown_max)
                    )
                })
                .collect();
            let as_: Vec<String> = g
                .assets
                .values()
                .map(|s| {
                    pair(
                        &coq_obal(&s.balance_now),
                        &coq_three(&s.drawdown, &s.drawdown_mean, &s.drawdown_max),
                    )
                })
                .collect();
            pair(&list(&is), &list(&as_))
        };
        let obs0 = state(&g);
        let mut obs = vec![];
        let mut cops = vec![];
        let mut tags = vec![];
        let mut nontrivial = false;
        for op in ops {
            match op {
                SOp::Pos { k, by_name, t, v } => {
                    if *k >= n_inst {
                        continue;
                    }
                    if *by_name {
                        g.update_from_position(&position(inst_name(*k), *v, *t));
                        tags.push("summary_pos_by_name".to_string());
                    } else {
                        g.update_from_position(&position(InstrumentIndex(*k), *v, *t));
                        tags.push("summary_pos_by_index".to_string());
                    }
                    cops.push(format!("(SP {}%nat {} {})", k, zt(*t), dec_q(*v)));
                    obs.push(format!("(None, {})", state(&g)));
                }
                SOp::Bal { k, by_name, t, v, w } => {
                    if *k >= starts.len() {
                        continue;
                    }
                    if *by_name {
                        g.update_from_balance(Snapshot(&AssetBalance {
                            asset: asset_key(*k),
                            balance: Balance::new(*v, *w),
                            time_exchange: time_of(*t),
                        }));
                        tags.push("summary_bal_by_name".to_string());
                    } else {
                        g.update_from_balance(Snapshot(&AssetBalance {
                            asset: AssetIndex(*k),
                            balance: Balance::new(*v, *w),
                            time_exchange: time_of(*t),
                        }));
                        tags.push("summary_bal_by_index".to_string());
                    }
                    cops.push(format!("(SB {}%nat {} {} {})", k, zt(*t), dec_q(*v), dec_q(*w)));
                    obs.push(format!("(None, {})", state(&g)));
                }
                SOp::RtInst { k } => {
                    if *k >= n_inst {
                        continue;
                    }
                    let (back, changed) = roundtrip(&g.instruments[*k]);
                    g.instruments[*k] = back;
                    tags.push("summary_rt_inst".to_string());
                    cops.push(format!("(SRI {}%nat {})", k, b(changed)));
                    obs.push(format!("(None, {})", state(&g)));
                }
                SOp::RtAsset { k } => {
                    if *k >= starts.len() {
                        continue;
                    }
                    let (back, changed) = roundtrip(&g.assets[*k]);
                    g.assets[*k] = back;
                    tags.push("summary_rt_asset".to_string());
                    cops.push(format!("(SRA {}%nat {})", k, b(changed)));
                    obs.push(format!("(None, {})", state(&g)));
                }
                SOp::Gen => {
                    let sum = g.generate(Daily);
                    let is: Vec<String> = (0..n_inst)
                        .map(|k| {
                            let sh = &sum.instruments[&inst_name(k)];
                            nontrivial |= sh.pnl_drawdown_max.is_some();
                            pair(
                                &dec_q(sh.pnl),
                                &coq_report(&sh.pnl_drawdown, &sh.pnl_drawdown_mean, &sh.pnl_drawdown_max),
                            )
                        })
                        .collect();
                    let as_: Vec<String> = (0..starts.len())
                        .map(|k| {
                            let sh = &sum.assets[&asset_key(k)];
                            nontrivial |= sh.drawdown_max.is_some();
                            pair(
                                &coq_obal(&sh.balance_end),
                                &coq_report(&sh.drawdown, &sh.drawdown_mean, &sh.drawdown_max),
                            )
                        })
                        .collect();
                    tags.push("summary_gen".to_string());
                    cops.push("SG".to_string());
                    obs.push(format!("(Some ({}, {}), {})", list(&is), list(&as_), state(&g)));
                }
            }
        }
        Ran {
            coq: format!(
                "(CSummary {} {}%nat {} {} {} {})",
                zt(t0),
                n_inst,
                list(&starts
                    .iter()
                    .map(|(t, v, w)| format!("({}, {}, {})", zt(*t), dec_q(*v), dec_q(*w)))
                    .collect::<Vec<_>>()),
                list(&cops),
                obs0,
                list(&obs)
            ),
            tags,
            nontrivial,
        }
    }));
    r.unwrap_or_else(|e| panic_case(true, &format!("TradingSummaryGenerator: {}", ascii(&e))))
}

// ---- executing an input ---------------------------------------------------------------------

fn opt_dd(v: &Value) -> Option<Option<DdIn>> {
    if v.is_null() { Some(None) } else { DdIn::from(v).map(Some) }
}
fn dds(v: &Value) -> Option<Vec<DdIn>> {
    v.as_array()?.iter().map(DdIn::from).collect()
}

/// None when the input is malformed (e.g. damaged by the shrinker): such inputs are skipped.
fn run_input(inp: &Value) -> Option<Ran> {
    // "alt": reach the same start state through the other public constructor (new / reset)
    let alt = inp.get("alt").and_then(|x| x.as_bool()).unwrap_or(false);
    match inp.get("kind")?.as_str()? {
        "gen" => {
            let st = &inp["start"];
            let start = if st.is_null() {
                None
            } else {
                Some((json_time(st.get("t")?)?, st.get("v")?.as_str()?.parse().ok()?))
            };
            Some(run_gen(&start, &ops_from(&inp["ops"])?, alt))
        }
        "max" => Some(run_max(&opt_dd(&inp["init"])?, &dds(&inp["ds"])?, alt)),
        "mean" => Some(run_mean(&opt_dd(&inp["init"])?, &dds(&inp["ds"])?, alt)),
        "asset" => {
            let st = &inp["start"];
            let start = (
                json_time(st.get("t")?)?,
                st.get("v")?.as_str()?.parse().ok()?,
                st.get("w")?.as_str()?.parse().ok()?,
            );
            Some(run_asset(&start, &ops_from(&inp["ops"])?, alt))
        }
        "inst" => Some(run_inst(json_time(inp.get("t0")?)?, &ops_from(&inp["ops"])?, alt)),
        "summary" => {
            let starts: Option<Vec<(Ns, Decimal, Decimal)>> = inp
                .get("assets")?
                .as_array()?
                .iter()
                .map(|st| {
                    Some((
                        json_time(st.get("t")?)?,
                        st.get("v")?.as_str()?.parse().ok()?,
                        st.get("w")?.as_str()?.parse().ok()?,
                    ))
                })
                .collect();
            let ops: Option<Vec<SOp>> = inp.get("ops")?.as_array()?.iter().map(SOp::from).collect();
            Some(run_summary(
                json_time(inp.get("t0")?)?,
                inp.get("n_inst")?.as_u64()? as usize,
                &starts?,
                &ops?,
            ))
        }
        _ => None,
    }
}

fn emit(em: &mut Emitter, stream: &'static str, inp: Value) {
    if let Some(r) = run_input(&inp) {
        em.emit(Case {
            stream,
            input: inp,
            coq: r.coq,
            nontrivial: r.nontrivial,
            tags: r.tags,
        });
    }
}

fn gen_input(start: &Option<(Ns, Decimal)>, ops: &[Op]) -> Value {
    json!({"kind": "gen",
           "start": start.map(|(t, v)| json!({"t": time_json(t), "v": v.to_string()})),
           "ops": ops_json(ops)})
}
fn asset_input(start: &(Ns, Decimal, Decimal), ops: &[Op]) -> Value {
    json!({"kind": "asset",
           "start": {"t": time_json(start.0), "v": start.1.to_string(), "w": start.2.to_string()},
           "ops": ops_json(ops)})
}
fn inst_input(t0: Ns, ops: &[Op]) -> Value {
    json!({"kind": "inst", "t0": time_json(t0), "ops": ops_json(ops)})
}
fn summary_input(t0: Ns, n_inst: usize, starts: &[(Ns, Decimal, Decimal)], ops: &[SOp]) -> Value {
    json!({"kind": "summary", "t0": time_json(t0), "n_inst": n_inst,
           "assets": starts.iter().map(|(t, v, w)| json!({"t": time_json(*t), "v": v.to_string(), "w": w.to_string()})).collect::<Vec<_>>(),
           "ops": ops.iter().map(|o| o.json()).collect::<Vec<_>>()})
}
fn with_alt(mut v: Value, alt: bool) -> Value {
    v["alt"] = json!(alt);
    v
}
fn dd_input(kind: &str, init: &Option<DdIn>, ds: &[DdIn]) -> Value {
    json!({"kind": kind, "init": init.as_ref().map(|d| d.json()),
           "ds": ds.iter().map(|d| d.json()).collect::<Vec<_>>()})
}

// ---- generators -----------------------------------------------------------------------------

const T0: Ns = 1_700_000_000_000 * MS;

/// how values of one curve are drawn
#[derive(Clone, Copy, Debug)]
enum Mag {
    Grid,    // few integer levels: equal values, exact recoveries and equal depths are frequent
    Cents,   // two decimals around 100
    Tiny,    // 1e-8 .. 1e-5
    Huge,    // 1e9 .. 1e10 with 2 decimals
    Mixed,   // any of the above per point
}

fn value_at(r: &mut Rng, mag: Mag, level: i64) -> Decimal {
    match mag {
        Mag::Grid => mk_dec(level, 0),
        Mag::Cents => mk_dec(10_000 + level * 37, 2),
        Mag::Tiny => mk_dec(1000 + level * 7, 8),
        Mag::Huge => mk_dec(1_000_000_000_00 + level * 123_456_7, 2),
        Mag::Mixed => {
            let m = *r.pick(&[Mag::Grid, Mag::Cents, Mag::Tiny, Mag::Huge]);
            value_at(r, m, level)
        }
    }
}

/// a curve as abstract levels; shapes chosen to hit every branch: monotone, oscillating, long
/// runs of equal values, recovery exactly to the previous peak (not above), a new peak right after
/// a peak, long declines, curves that start at their maximum, a deep decline followed by partial
/// recoveries
fn gen_levels(r: &mut Rng, n: usize) -> Vec<i64> {
    let mut v = vec![];
    let shape = r.below(11);
    let mut cur: i64 = if shape == 8 { 40 } else { r.range(3, 12) };
    let mut peak = cur;
    v.push(cur);
    while v.len() < n {
        let step = match shape {
            0 => r.range(0, 3),                    // monotone up (with plateaus)
            1 => -r.range(0, 2),                   // monotone down: starts at its maximum
            2 => if v.len() % 2 == 0 { r.range(1, 6) } else { -r.range(1, 6) }, // oscillating
            3 => *r.pick(&[0, 0, 0, 0, 0, 1, -1]), // long runs of equal consecutive values
            8 => {
                // starts at its maximum and never exceeds it (may touch it exactly)
                let s = r.range(-4, 4);
                if cur + s > 40 { 40 - cur } else { s }
            }
            9 => {
                // deep decline, then partial recoveries that never reach the trough again
                if v.len() == 1 { -r.range(5, 9) } else { *r.pick(&[1, 1, 0, -1, 2]) }
            }
            _ => r.range(-4, 4),                   // random walk
        };
        cur += step;
        if shape != 8 {
            match r.below(12) {
                0 => cur = peak,                   // recover exactly to the running peak
                1 => cur = peak + 1,               // barely above
                2 => {
                    // a long decline
                    let k = r.range(2, 6) as usize;
                    for _ in 0..k {
                        if v.len() < n {
                            cur -= r.range(0, 2);
                            v.push(cur);
                        }
                    }
                }
                3 => {
                    // two new peaks in a row
                    cur = peak + r.range(1, 3);
                    if v.len() < n {
                        v.push(cur);
                    }
                    peak = peak.max(cur);
                    cur = peak + r.range(1, 3);
                }
                _ => {}
            }
        }
        if v.len() < n {
            v.push(cur);
        }
        peak = peak.max(cur);
    }
    v
}

/// one gap between consecutive point times, in ns. Durations are reported in ms through
/// `num_milliseconds` (truncation of the ns difference), so sub-millisecond gaps, gaps of a whole
/// ms +- 1 ns and ordinary gaps with a ns remainder all matter.
fn gen_gap(r: &mut Rng, adversarial: bool) -> Ns {
    if adversarial {
        match r.below(5) {
            0 => return 0,                                    // equal timestamps
            1 => return -(r.below(50_000_000_000) as i128),   // out of order (up to 50 s back)
            2 => return -(1 + r.below(999_999) as i128),      // out of order by less than a ms
            _ => {}
        }
    }
    match r.below(12) {
        0 => 1,                                               // 1 ns
        1 => 1 + r.below(999) as i128,                        // < 1 us
        2 => 1_000 + r.below(998_999) as i128,                // 1 us .. 999.999 us
        3 => MS - 1,
        4 => MS,
        5 => MS + 1,
        6 => r.range(1, 50) as i128 * MS + *r.pick(&[-1i128, 0, 1, 499_999, 500_000]),
        7 => 86_400 * NS * (1 + r.below(30) as i128) + r.below(NS as u64) as i128, // days
        8 => 86_400 * NS * 365 * (1 + r.below(3) as i128),   // years
        _ => 1 + r.below(3_600_000_000_000) as i128,          // up to an hour, ns remainder
    }
}

fn gen_times(r: &mut Rng, n: usize, adversarial: bool) -> Vec<Ns> {
    // base: around 2023, on / just before / just after a ms boundary, far past, far future
    let base = match r.below(10) {
        0 => -30_000_000_000 * NS + 123_456_789,             // year ~1019
        1 => 200_000_000_000 * NS + 987_654_321,             // year ~8307
        2 => -(r.below(1_000_000) as i128) * MS - 1,          // just before the epoch
        _ => T0 + r.below(1_000_000) as i128 * MS,
    };
    let mut t = base + *r.pick(&[0i128, 1, 999_999, 500_000, 123_457]);
    let mut v = vec![];
    // sometimes: a long first gap then only short ones, so that the mean duration must decrease
    let long_then_short = r.chance(1, 6);
    for i in 0..n {
        v.push(t);
        t += if long_then_short {
            if i < 3 { 86_400 * NS * 10 + r.below(NS as u64) as i128 } else { 1 + r.below(5_000_000) as i128 }
        } else {
            gen_gap(r, adversarial)
        };
    }
    v
}

/// a timed curve of `n` points
fn gen_curve(r: &mut Rng, n: usize, adversarial: bool) -> Vec<(Ns, Decimal)> {
    let mag = *r.pick(&[Mag::Grid, Mag::Grid, Mag::Cents, Mag::Cents, Mag::Tiny, Mag::Huge, Mag::Mixed]);
    let levels = gen_levels(r, n);
    let times = gen_times(r, n, adversarial);
    let mut pts: Vec<(Ns, Decimal)> = times
        .into_iter()
        .zip(levels.into_iter())
        .map(|(t, l)| (t, value_at(r, mag, l)))
        .collect();
    if adversarial {
        // zero and negative values after the first point (declines deeper than 100%), and
        // sometimes a non-positive start (outside the property's requirement: exercised, not
        // judged)
        for (i, p) in pts.iter_mut().enumerate() {
            let (neg, zero) = if i == 0 { (r.chance(1, 12), r.chance(1, 24)) } else { (r.chance(1, 6), r.chance(1, 12)) };
            if neg {
                p.1 = -p.1;
            }
            if zero {
                p.1 = Decimal::ZERO;
            }
        }
    }
    pts
}

/// the free balance is a decoy: never equal to the total
fn decoy_free(r: &mut Rng, total: Decimal) -> Decimal {
    total - mk_dec(r.range(1, 3), 0)
}

/// insert generate() calls: mode 0 none; 1 at random points, 1..3 times in a row; 2 after every
/// update 1..3 times
fn with_gens(r: &mut Rng, pts: &[(Ns, Decimal)], mode: u64, free: bool) -> Vec<Op> {
    let mut ops = vec![];
    if mode >= 1 && r.chance(1, 4) {
        ops.push(Op::Gen);
    }
    for (t, v) in pts {
        let w = if free { decoy_free(r, *v) } else { Decimal::ZERO };
        ops.push(Op::Upd { t: *t, v: *v, w });
        if r.chance(1, 6) {
            ops.push(Op::Rt);   // persist / restore, often in the middle of a decline
        }
        let k = match mode {
            0 => 0,
            1 => if r.chance(1, 4) { 1 + r.below(3) } else { 0 },
            _ => 1 + r.below(3),
        };
        for _ in 0..k {
            ops.push(Op::Gen);
        }
    }
    ops
}

fn gen_dd(r: &mut Rng, style: u64) -> DdIn {
    let v = match style {
        0 => *r.pick(&[mk_dec(1, 1), mk_dec(2, 1), mk_dec(-2, 1), mk_dec(5, 2), mk_dec(20, 2)]),
        1 => mk_dec(r.range(1, 999_999), 6),
        _ => {
            let m = mk_dec(r.range(0, 5000), 4);
            if r.chance(1, 3) { -m } else { m }
        }
    };
    let s = gen_times(r, 1, false)[0];
    // durations: sub-ms, around whole ms, long; sometimes negative (end before start)
    let e = s + match r.below(8) {
        0 => 0,
        1 => -gen_gap(r, false),
        _ => gen_gap(r, false),
    };
    DdIn { v, s, e, rt: r.chance(1, 4) }
}

/// PnL deltas whose cumulative sum follows the curve (first delta = first value)
fn deltas(pts: &[(Ns, Decimal)]) -> Vec<(Ns, Decimal)> {
    let mut prev = Decimal::ZERO;
    pts.iter()
        .map(|(t, v)| {
            let d = *v - prev;
            prev = *v;
            (*t, d)
        })
        .collect()
}

/// table times: one second apart with a sub-ms remainder that differs per index
fn table_time(i: usize) -> Ns {
    T0 + NS * i as i128 + 300_007 * (i * i) as i128
}

fn table(em: &mut Emitter) {
    let vals = [mk_dec(20, 0), mk_dec(25, 0), mk_dec(40, 0)];
    let curve = |n: usize, code: usize, first: usize| -> Vec<(Ns, Decimal)> {
        let mut c = code;
        (0..n)
            .map(|i| {
                let p = (table_time(first + i), vals[c % 3]);
                c /= 3;
                p
            })
            .collect()
    };
    // DrawdownGenerator::default(): every curve of length 5 over three levels, generate() at the
    // end (depth classes: deeper / equal / shallower than the deepest so far; recovery to the
    // peak exactly / above it / new peak right after a peak) ...
    for code in 0..3usize.pow(5) {
        let mut ops: Vec<Op> = curve(5, code, 0)
            .into_iter()
            .map(|(t, v)| Op::Upd { t, v, w: Decimal::ZERO })
            .collect();
        ops.push(Op::Gen);
        emit(em, "table", gen_input(&None, &ops));
    }
    // ... and every curve of length 1..=3 (k = 0, 1, 2, 3) and 4 (k = 1, 3) with generate() called
    // k times after EVERY update (mid-decline followed by deeper points, partial recovery, exact recovery,
    // recovery above the peak)
    for n in 1..=4usize {
        for code in 0..3usize.pow(n as u32) {
            let ks: &[usize] = if n <= 3 { &[0, 1, 2, 3] } else { &[1, 3] };
            for k in ks {
                let k = *k;
                let mut ops = vec![];
                for (t, v) in curve(n, code, 0) {
                    ops.push(Op::Upd { t, v, w: Decimal::ZERO });
                    for _ in 0..k {
                        ops.push(Op::Gen);
                    }
                }
                emit(em, "table", gen_input(&None, &ops));
            }
            if n <= 3 {
                // persist / restore after every prefix, then generate(); start built by new(..)
                let mut ops = vec![];
                for (t, v) in curve(n, code, 0) {
                    ops.push(Op::Upd { t, v, w: Decimal::ZERO });
                    ops.push(Op::Rt);
                    ops.push(Op::Gen);
                }
                emit(em, "table", with_alt(gen_input(&None, &ops), true));
            }
        }
    }
    // tear sheets: every curve of length 1..=3 after the start value with generate() k = 0..2
    // times after every update (k = 0: once at the end), and every curve of length 4 with k = 2
    // (alternately through the asset and the instrument tear sheet)
    for n in 1..=4usize {
        for code in 0..3usize.pow(n as u32) {
            let ks: &[usize] = if n <= 3 { &[0, 1, 2] } else { &[2] };
            for k in ks {
                let pts = curve(n, code, 1);
                let mut ops = vec![];
                // k = 1: persist / restore after every update, generator built by default() + reset
                let alt = *k == 1;
                for (t, v) in &pts {
                    ops.push(Op::Upd { t: *t, v: *v, w: vals[0] });
                    if alt {
                        ops.push(Op::Rt);
                    }
                    for _ in 0..*k {
                        ops.push(Op::Gen);
                    }
                }
                if *k == 0 {
                    ops.push(Op::Gen);
                }
                if n <= 3 || code % 2 == 0 {
                    emit(em, "table", with_alt(asset_input(&(table_time(0), vals[1], vals[0]), &ops), alt));
                }
                if n == 4 && code % 2 == 0 {
                    continue;
                }
                let mut all = vec![(table_time(0), vals[1])];
                all.extend(pts.iter().cloned());
                let mut iops = vec![];
                for (t, d) in deltas(&all) {
                    iops.push(Op::Upd { t, v: d, w: Decimal::ZERO });
                    if alt {
                        iops.push(Op::Rt);
                    }
                    for _ in 0..*k {
                        iops.push(Op::Gen);
                    }
                }
                if *k == 0 {
                    iops.push(Op::Gen);
                }
                emit(em, "table", with_alt(inst_input(table_time(0) - 5, &iops), alt));
            }
        }
    }
    // max / mean generators: every sequence of length <= 3 over {0.1, 0.2, -0.2} (ties between
    // different drawdowns, negative values) x duration classes {long, sub-ms, 1 ms - 1 ns}:
    // later drawdowns shorter than the running mean, default() and init() starts
    let dvals = [mk_dec(1, 1), mk_dec(2, 1), mk_dec(-2, 1)];
    let durs: [Ns; 3] = [10 * 86_400 * NS + 1, 999_999, 2 * 86_400 * NS + MS - 1];
    for n in 0..=3usize {
        for code in 0..3usize.pow(n as u32) {
            let mut c = code;
            let mut ds = vec![];
            for i in 0..n {
                let s = T0 + 10 * NS * i as i128 + 17 * i as i128;
                ds.push(DdIn { v: dvals[c % 3], s, e: s + durs[(c + i) % 3], rt: false });
                c /= 3;
            }
            // default() start with persist / restore after every update; init(first) start; the
            // same start state built by new(..)
            let first = DdIn { v: mk_dec(2, 1), s: T0 - 7 * MS, e: T0 - 2 * MS + 999_999, rt: false };
            let ds_rt: Vec<DdIn> = ds.iter().map(|d| DdIn { rt: true, ..d.clone() }).collect();
            for kind in ["max", "mean"] {
                emit(em, "table", dd_input(kind, &None, &ds_rt));
                emit(em, "table", dd_input(kind, &Some(first.clone()), &ds));
                emit(em, "table", with_alt(dd_input(kind, &Some(first.clone()), &ds_rt), true));
                if code % 3 == 0 {
                    emit(em, "table", with_alt(dd_input(kind, &None, &ds), true));
                }
            }
        }
    }
}

/// several instruments and assets fed interleaved through one TradingSummaryGenerator
fn gen_summary(em: &mut Emitter, r: &mut Rng, stream: &'static str, max_len: usize) {
    let n_inst = 1 + r.below(4) as usize;
    let n_asset = 1 + r.below(3) as usize;
    let adv = stream == "adversarial";
    // one curve per key; the interleaving consumes them in random order
    let mut inst_curves: Vec<Vec<(Ns, Decimal)>> = (0..n_inst)
        .map(|_| { let n = 1 + r.below(max_len as u64) as usize; deltas(&gen_curve(r, n, adv)) })
        .collect();
    let mut asset_curves: Vec<Vec<(Ns, Decimal)>> = (0..n_asset)
        .map(|_| { let n = 2 + r.below(max_len as u64) as usize; gen_curve(r, n, adv) })
        .collect();
    let starts: Vec<(Ns, Decimal, Decimal)> = asset_curves
        .iter_mut()
        .map(|c| { let p = c.remove(0); (p.0, p.1, decoy_free(r, p.1)) })
        .collect();
    for c in inst_curves.iter_mut().chain(asset_curves.iter_mut()) {
        c.reverse();
    }
    let t0 = T0 - 1 - r.below(1000) as i128;
    let mut ops = vec![];
    loop {
        let live: Vec<usize> = (0..n_inst + n_asset)
            .filter(|k| if *k < n_inst { !inst_curves[*k].is_empty() } else { !asset_curves[*k - n_inst].is_empty() })
            .collect();
        if live.is_empty() {
            break;
        }
        let k = *r.pick(&live);
        let by_name = r.chance(1, 3);
        if k < n_inst {
            let (t, v) = inst_curves[k].pop().unwrap();
            ops.push(SOp::Pos { k, by_name, t, v });
        } else {
            let (t, v) = asset_curves[k - n_inst].pop().unwrap();
            let w = decoy_free(r, v);
            ops.push(SOp::Bal { k: k - n_inst, by_name, t, v, w });
        }
        if r.chance(1, 5) {
            // persist / restore one tear sheet generator (any key, not only the one just fed)
            if r.chance(1, 2) {
                ops.push(SOp::RtInst { k: r.below(n_inst as u64) as usize });
            } else {
                ops.push(SOp::RtAsset { k: r.below(n_asset as u64) as usize });
            }
        }
        if r.chance(1, 4) {
            for _ in 0..1 + r.below(3) {
                ops.push(SOp::Gen);
            }
        }
    }
    ops.push(SOp::Gen);
    emit(em, stream, summary_input(t0, n_inst, &starts, &ops));
}

fn random(em: &mut Emitter, r: &mut Rng, thorough: bool) {
    let (n_gen, n_adv, n_dd, n_ts, n_sum, max_len) =
        if thorough { (900, 300, 600, 600, 120, 50) } else { (100, 50, 90, 90, 18, 22) };
    for i in 0..n_gen + n_adv {
        let adv = i >= n_gen;
        let n = 1 + r.below(max_len) as usize;
        let pts = gen_curve(r, n, adv);
        let use_init = r.chance(1, 2);
        let mode = r.below(3);
        let (start, rest) = if use_init { (Some(pts[0]), &pts[1..]) } else { (None, &pts[..]) };
        let ops = with_gens(r, rest, mode, false);
        let alt = r.chance(1, 4);
        emit(em, if adv { "adversarial" } else { "random" }, with_alt(gen_input(&start, &ops), alt));
    }
    for i in 0..n_dd {
        let n = r.below(if thorough { 60 } else { 14 }) as usize;
        let style = r.below(3);
        let ds: Vec<DdIn> = (0..n).map(|_| gen_dd(r, style)).collect();
        let init = if r.chance(1, 3) { Some(gen_dd(r, style)) } else { None };
        let alt = r.chance(1, 4);
        emit(em, "random", with_alt(dd_input(if i % 2 == 0 { "max" } else { "mean" }, &init, &ds), alt));
    }
    for i in 0..n_ts {
        let adv = i % 5 == 4;
        let n = 2 + r.below(max_len.min(40) - 1) as usize;
        let pts = gen_curve(r, n, adv);
        let mode = 1 + r.below(2);
        let stream = if adv { "adversarial" } else { "random" };
        if i % 2 == 0 {
            let ops = with_gens(r, &pts[1..], mode, true);
            let free0 = decoy_free(r, pts[0].1);
            let alt = r.chance(1, 4);
            emit(em, stream, with_alt(asset_input(&(pts[0].0, pts[0].1, free0), &ops), alt));
        } else {
            let ds = deltas(&pts);
            let ops = with_gens(r, &ds, mode, false);
            let alt = r.chance(1, 4);
            emit(em, stream, with_alt(inst_input(pts[0].0 - 1 - r.below(1000) as i128, &ops), alt));
        }
    }
    for i in 0..n_sum {
        gen_summary(em, r, if i % 6 == 5 { "adversarial" } else { "random" }, if thorough { 8 } else { 5 });
    }
}

fn main() {
    quiet_panics();
    let args = parse_args();
    let mut em = Emitter::create(&args.out);
    match args.mode.as_str() {
        "gen" => {
            let mut r = Rng::new(args.seed);
            table(&mut em);
            random(&mut em, &mut r, args.tier == "thorough");
        }
        "exec" => {
            for (inp, stream) in read_inputs(args.input.as_deref().expect("--in")) {
                emit(&mut em, stream_static(&stream), inp);
            }
        }
        m => panic!("unknown mode {m}"),
    }
    em.finish();
}
