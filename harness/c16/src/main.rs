//! C16 correspondence harness: drives TearSheetGenerator::{init, update_from_position, generate},
//! WinRate / ProfitFactor / calculate_pnl_return, TradingSummaryGenerator::{init,
//! update_from_position, update_from_balance, update_time_now, generate} and
//! Engine::trading_summary_generator on generated closed positions and prints inputs + observed
//! outputs as Coq terms (Corr/C16.v).
use barter::{
    engine::{
        Engine,
        clock::HistoricalClock,
        state::{
            EngineState,
            global::DefaultGlobalData,
            instrument::data::DefaultInstrumentMarketData,
            position::{PositionExited, calculate_pnl_return},
            trading::TradingState,
        },
    },
    statistic::{
        metric::{profit_factor::ProfitFactor, win_rate::WinRate},
        summary::{
            TradingSummary, TradingSummaryGenerator,
            dataset::DataSetSummary,
            instrument::{TearSheet, TearSheetGenerator},
        },
        time::Daily,
    },
};
use barter_execution::{
    balance::{AssetBalance, Balance},
    order::id::{OrderId, StrategyId},
    trade::{AssetFees, Trade, TradeId},
};
use barter_instrument::{
    Side, Underlying,
    asset::{Asset, AssetIndex, ExchangeAsset, QuoteAsset, name::AssetNameInternal},
    exchange::ExchangeId,
    index::IndexedInstruments,
    instrument::{
        Instrument, InstrumentIndex,
        kind::{
            InstrumentKind,
            future::FutureContract,
            option::{OptionContract, OptionExercise, OptionKind},
            perpetual::PerpetualContract,
        },
        name::InstrumentNameInternal,
        quote::InstrumentQuoteAsset,
    },
};
use barter_integration::snapshot::Snapshot;
use chrono::{DateTime, TimeZone, Utc};
use rust_decimal::Decimal;
use serde_json::{Value, json};
use smol_str::SmolStr;
use vh_common::*;

/// all times are nanoseconds since the epoch (chrono's resolution), exact in the Coq case
const T0: i64 = 1_700_000_000_000_000_000;
const MS: i64 = 1_000_000;
const SEC: i64 = 1_000 * MS;
const DAY: i64 = 86_400 * SEC;

fn nanos(t: DateTime<Utc>) -> i64 {
    t.timestamp_nanos_opt().expect("time within the i64 ns range")
}

fn time_of(ns: i64) -> DateTime<Utc> {
    Utc.timestamp_nanos(ns)
}

/// serialise with serde_json and deserialise again: (restored value, it differs from the original
/// or could not be (de)serialised)
fn round_trip<T>(x: &T) -> (T, bool)
where
    T: serde::Serialize + serde::de::DeserializeOwned + PartialEq + Clone,
{
    match serde_json::to_string(x)
        .ok()
        .and_then(|js| serde_json::from_str::<T>(&js).ok())
    {
        Some(back) => {
            let changed = back != *x;
            (back, changed)
        }
        None => (x.clone(), true),
    }
}

/// persist/restore a tear-sheet generator: its PnLReturns alone first, then the whole generator
fn round_trip_tsg(g: &mut TearSheetGenerator) -> bool {
    let (pr, c1) = round_trip(&g.pnl_returns);
    g.pnl_returns = pr;
    let (back, c2) = round_trip(g);
    *g = back;
    c1 || c2
}

fn persist_json(v: &Value) -> Vec<usize> {
    v.as_array()
        .map(|a| a.iter().filter_map(|x| x.as_u64()).map(|x| x as usize).collect())
        .unwrap_or_default()
}

fn wrap_persist(persist: &[usize], changed: bool, inner: String) -> String {
    if persist.is_empty() {
        inner
    } else {
        format!(
            "(CPersist {} {} {})",
            list(&persist.iter().map(|k| n(*k as u128)).collect::<Vec<_>>()),
            b(changed),
            inner
        )
    }
}

/// persist points for a history of n steps: none / after every step / a random subset
fn gen_persist(r: &mut Rng, n: usize) -> Vec<usize> {
    match r.below(4) {
        0 | 1 => vec![],
        2 => (0..=n).collect(),
        _ => (0..=n).filter(|_| r.chance(1, 4)).collect(),
    }
}

// ---- observation printers ----------------------------------------------------------------------

fn ds_coq(s: &DataSetSummary) -> String {
    format!(
        "(mkDs {} {} {} {} {} {} {} {} {} {})",
        dec_q(s.count),
        dec_q(s.sum),
        dec_q(s.mean),
        b(s.dispersion.range.activated),
        dec_q(s.dispersion.range.high),
        dec_q(s.dispersion.range.low),
        dec_q(s.dispersion.range.range()),
        dec_q(s.dispersion.recurrence_relation_m),
        dec_q(s.dispersion.variance),
        dec_q(s.dispersion.std_dev),
    )
}

fn gen_coq(g: &TearSheetGenerator) -> String {
    format!(
        "(mkGenObs {} {} {} {} {})",
        z(nanos(g.time_engine_start) as i128),
        z(nanos(g.time_engine_now) as i128),
        dec_q(g.pnl_returns.pnl_raw),
        ds_coq(&g.pnl_returns.total),
        ds_coq(&g.pnl_returns.losses),
    )
}

fn pf_coq(v: Decimal) -> String {
    if v == Decimal::MAX {
        "OPFMax".into()
    } else if v == Decimal::MIN {
        "OPFMin".into()
    } else {
        format!("(OPFVal {})", dec_q(v))
    }
}

fn sheet_coq<I>(s: &TearSheet<I>) -> String {
    format!(
        "(mkSheetObs {} {} {})",
        dec_q(s.pnl),
        opt(s.win_rate.as_ref().map(|w| dec_q(w.value))),
        opt(s.profit_factor.as_ref().map(|p| pf_coq(p.value))),
    )
}

fn sheet_tags<I>(s: &TearSheet<I>, tags: &mut Vec<String>) {
    tags.push(
        match &s.win_rate {
            None => "wr_none",
            Some(w) if w.value.is_zero() => "wr_zero",
            Some(w) if w.value == Decimal::ONE => "wr_one",
            Some(_) => "wr_fraction",
        }
        .into(),
    );
    tags.push(
        match &s.profit_factor {
            None => "pf_none",
            Some(p) if p.value == Decimal::MAX => "pf_max",
            Some(p) if p.value == Decimal::MIN => "pf_min",
            Some(_) => "pf_value",
        }
        .into(),
    );
}

// ---- closed positions ----------------------------------------------------------------------------

#[derive(Clone, Debug)]
struct Pos {
    pnl: Decimal,
    price: Decimal,
    qty: Decimal,
    time: i64,
}

impl Pos {
    fn to_json(&self) -> Value {
        json!({"pnl": dec_json(self.pnl), "price": dec_json(self.price), "qty": dec_json(self.qty), "time": self.time})
    }
    fn from_json(v: &Value) -> Pos {
        Pos {
            pnl: json_dec(&v["pnl"]),
            price: json_dec(&v["price"]),
            qty: json_dec(&v["qty"]),
            time: v["time"].as_i64().unwrap_or(T0),
        }
    }
    fn exited<K>(&self, key: K) -> PositionExited<QuoteAsset, K> {
        PositionExited {
            instrument: key,
            // fields the statistics must NOT read carry decoys: a side unrelated to the sign of
            // the PnL, large fees, an entry time far from (even after) the exit time, 0..2 trade ids
            side: if (self.time / 7) % 2 == 0 { Side::Sell } else { Side::Buy },
            price_entry_average: self.price,
            quantity_abs_max: self.qty,
            pnl_realised: self.pnl,
            fees_enter: AssetFees::quote_fees(Decimal::new(77_777, 2)),
            fees_exit: AssetFees::quote_fees(Decimal::new(33_333, 1)),
            time_enter: time_of(if self.time % 2 == 0 { self.time + 3 * DAY } else { T0 - 400 * DAY }),
            time_exit: time_of(self.time),
            trades: (0..(self.time.rem_euclid(3))).map(|i| TradeId(SmolStr::new(format!("t{i}")))).collect(),
        }
    }
    fn of_exited<K>(p: &PositionExited<QuoteAsset, K>) -> Pos {
        Pos {
            pnl: p.pnl_realised,
            price: p.price_entry_average,
            qty: p.quantity_abs_max,
            time: nanos(p.time_exit),
        }
    }
    /// the Coq term, with the return the public calculate_pnl_return gives for it
    fn coq(&self) -> String {
        let (pnl, price, qty) = (self.pnl, self.price, self.qty);
        let ret = catch(move || calculate_pnl_return(pnl, price, qty)).ok();
        format!(
            "(mkPosIn {} {} {} {} {})",
            dec_q(self.pnl),
            dec_q(self.price),
            dec_q(self.qty),
            z(self.time as i128),
            opt(ret.map(dec_q))
        )
    }
    fn class(&self) -> &'static str {
        if (self.price * self.qty).is_zero() {
            "ret_zero_cost"
        } else if self.pnl.is_zero() {
            "ret_break_even"
        } else if self.pnl.is_sign_negative() != (self.price * self.qty).is_sign_negative() {
            "ret_loss"
        } else {
            "ret_win"
        }
    }
}

fn emit_sheet(em: &mut Emitter, stream: &'static str, ps: &[Pos], extra: &[&str]) {
    emit_sheet_p(em, stream, ps, &[], extra)
}

/// `persist`: step numbers (0 = before the first position, k = after the k-th) at which the
/// generator is persisted and restored
fn emit_sheet_p(em: &mut Emitter, stream: &'static str, ps: &[Pos], persist: &[usize], extra: &[&str]) {
    let mut tags: Vec<String> = extra.iter().map(|s| s.to_string()).collect();
    let mut rt_changed = false;
    let mut g = TearSheetGenerator::init(time_of(T0));
    if persist.contains(&0) {
        rt_changed |= round_trip_tsg(&mut g);
    }
    let g0 = gen_coq(&g);
    let sh0 = {
        let mut gc = g.clone();
        match catch(move || sheet_coq(&gc.generate(Decimal::ZERO, Daily))) {
            Ok(s) => s,
            Err(_) => "(mkSheetObs (dq 0 0) None None)".into(),
        }
    };
    let mut steps = vec![];
    for (pi, p) in ps.iter().enumerate() {
        tags.push(p.class().into());
        let pe = p.exited(InstrumentIndex(0));
        let mut g2 = g.clone();
        let res = catch(move || {
            g2.update_from_position(&pe);
            let sheet = g2.generate(Decimal::ZERO, Daily);
            (g2, sheet)
        });
        match res {
            Ok((g2, sheet)) => {
                sheet_tags(&sheet, &mut tags);
                steps.push(format!("(Some ({}, {}))", sheet_coq(&sheet), gen_coq(&g2)));
                g = g2;
                if persist.contains(&(pi + 1)) {
                    rt_changed |= round_trip_tsg(&mut g);
                }
            }
            Err(_) => {
                tags.push("panic".into());
                steps.push("None".into());
                break;
            }
        }
    }
    tags.push(format!("sheet_len_{}", bucket(ps.len())));
    if !persist.is_empty() {
        tags.push("persist_restore".into());
    }
    if rt_changed {
        tags.push("roundtrip_changed".into());
    }
    em.emit(Case {
        stream,
        input: json!({"kind": "sheet", "positions": ps.iter().map(|p| p.to_json()).collect::<Vec<_>>(), "persist": persist}),
        coq: wrap_persist(
            persist,
            rt_changed,
            format!(
                "(CSheet {} {} {} {} {})",
                z(T0 as i128),
                list(&ps.iter().map(|p| p.coq()).collect::<Vec<_>>()),
                g0,
                sh0,
                list(&steps)
            ),
        ),
        nontrivial: !ps.is_empty(),
        tags,
    });
}

fn bucket(n: usize) -> &'static str {
    match n {
        0 => "0",
        1 => "1",
        2..=5 => "2-5",
        6..=15 => "6-15",
        _ => "16+",
    }
}

// ---- pure functions ----------------------------------------------------------------------------------

fn emit_win_rate(em: &mut Emitter, stream: &'static str, wins: Decimal, total: Decimal) {
    let r = WinRate::calculate(wins, total);
    em.emit(Case {
        stream,
        input: json!({"kind": "win_rate", "wins": dec_json(wins), "total": dec_json(total)}),
        coq: format!(
            "(CWinRate {} {} {})",
            dec_q(wins),
            dec_q(total),
            opt(r.as_ref().map(|w| dec_q(w.value)))
        ),
        nontrivial: true,
        tags: vec![
            "fn_win_rate".into(),
            if r.is_none() { "fn_wr_none" } else { "fn_wr_some" }.into(),
        ],
    });
}

fn emit_profit_factor(em: &mut Emitter, stream: &'static str, profits: Decimal, losses: Decimal) {
    let r = ProfitFactor::calculate(profits, losses);
    let tag = match &r {
        None => "fn_pf_none",
        Some(p) if p.value == Decimal::MAX => "fn_pf_max",
        Some(p) if p.value == Decimal::MIN => "fn_pf_min",
        Some(_) => "fn_pf_value",
    };
    em.emit(Case {
        stream,
        input: json!({"kind": "profit_factor", "profits": dec_json(profits), "losses": dec_json(losses)}),
        coq: format!(
            "(CProfitFactor {} {} {})",
            dec_q(profits),
            dec_q(losses),
            opt(r.as_ref().map(|p| pf_coq(p.value)))
        ),
        nontrivial: true,
        tags: vec!["fn_profit_factor".into(), tag.into()],
    });
}

fn emit_return(em: &mut Emitter, stream: &'static str, pnl: Decimal, price: Decimal, qty: Decimal) {
    let r = catch(move || calculate_pnl_return(pnl, price, qty)).ok();
    em.emit(Case {
        stream,
        input: json!({"kind": "return", "pnl": dec_json(pnl), "price": dec_json(price), "qty": dec_json(qty)}),
        coq: format!(
            "(CReturn {} {} {} {})",
            dec_q(pnl),
            dec_q(price),
            dec_q(qty),
            opt(r.map(dec_q))
        ),
        nontrivial: true,
        tags: vec![
            "fn_pnl_return".into(),
            if r.is_none() { "fn_return_panic" } else { "fn_return_value" }.into(),
        ],
    });
}

// ---- trading summary ---------------------------------------------------------------------------------------

/// catalogue of instruments a summary case picks from: (exchange, internal name, exchange name,
/// base, quote, kind).  Three venues incl. Mock / Other (enum order differs from name order),
/// names sharing a prefix, derivatives with contract sizes 0.001 / 0.01 / 100 settled in the
/// quote asset and in another asset.
/// kind: 0 spot, 1 perpetual (settled in quote), 2 perpetual (settled in usdc), 3 future, 4 option
const CATALOGUE: [(ExchangeId, &str, &str, &str, &str, u8); 12] = [
    (ExchangeId::BinanceSpot, "binance_spot_btc_usdt", "BTCUSDT", "btc", "usdt", 0),
    (ExchangeId::BinanceSpot, "binance_spot_eth_usdt", "ETHUSDT", "eth", "usdt", 0),
    (ExchangeId::BinanceSpot, "binance_spot_eth_btc", "ETHBTC", "eth", "btc", 0),
    (ExchangeId::Kraken, "kraken_btc_usdt", "XBT/USDT", "btc", "usdt", 0),
    (ExchangeId::Okx, "okx_sol_usdt", "SOL-USDT", "sol", "usdt", 0),
    (ExchangeId::Kraken, "kraken_eth_btc", "ETH/XBT", "eth", "btc", 0),
    (ExchangeId::Mock, "mock_btc_usdt", "BTC_USDT", "btc", "usdt", 0),
    (ExchangeId::Other, "other_btc_usd", "BTCUSD", "btc", "usd", 0),
    (ExchangeId::Other, "other_btc_usd_perp", "BTCUSD-PERP", "btc", "usd", 1),
    (ExchangeId::BinanceSpot, "binance_spot_btc_usdt_perp", "BTCUSDT_PERP", "btc", "usdt", 2),
    (ExchangeId::Mock, "mock_btc_usdt_fut", "BTC_USDT_240628", "btc", "usdt", 3),
    (ExchangeId::Okx, "okx_sol_usdt_call", "SOL-USDT-C", "sol", "usdt", 4),
];

fn build_instruments(picks: &[usize]) -> IndexedInstruments {
    let mut bld = IndexedInstruments::builder();
    for &i in picks {
        let (ex, name, name_ex, base, quote, kind) = CATALOGUE[i % CATALOGUE.len()];
        let expiry = time_of(T0 + 90 * DAY);
        let kind = match kind {
            0 => InstrumentKind::Spot,
            1 => InstrumentKind::Perpetual(PerpetualContract {
                contract_size: Decimal::new(1, 3),
                settlement_asset: Asset::from(quote),
            }),
            2 => InstrumentKind::Perpetual(PerpetualContract {
                contract_size: Decimal::new(100, 0),
                settlement_asset: Asset::from("usdc"),
            }),
            3 => InstrumentKind::Future(FutureContract {
                contract_size: Decimal::new(1, 2),
                settlement_asset: Asset::from(quote),
                expiry,
            }),
            _ => InstrumentKind::Option(OptionContract {
                contract_size: Decimal::new(100, 0),
                settlement_asset: Asset::from("usdc"),
                kind: OptionKind::Call,
                exercise: OptionExercise::European,
                expiry,
                strike: Decimal::new(150, 0),
            }),
        };
        bld = bld.add_instrument(Instrument::new(
            ex,
            name,
            name_ex,
            Underlying::new(base, quote),
            InstrumentQuoteAsset::UnderlyingQuote,
            kind,
            None,
        ));
    }
    bld.build()
}

type State = EngineState<DefaultGlobalData, DefaultInstrumentMarketData>;

fn asset_key(k: &ExchangeAsset<AssetNameInternal>) -> String {
    format!("{}:{}", k.exchange.as_str(), k.asset.name())
}

fn build_state(picks: &[usize], balances: &[(usize, Decimal, Decimal)]) -> State {
    let instruments = build_instruments(picks);
    // initial balances are addressed by position in the asset table of a balance-free state
    let probe: State = EngineState::builder(
        &instruments,
        DefaultGlobalData::default(),
        DefaultInstrumentMarketData::default,
    )
    .time_engine_start(time_of(T0))
    .trading_state(TradingState::Enabled)
    .build();
    let keys: Vec<ExchangeAsset<AssetNameInternal>> = probe.assets.0.keys().cloned().collect();
    let bal: Vec<(ExchangeId, SmolStr, Balance)> = balances
        .iter()
        .filter(|(i, _, _)| *i < keys.len())
        .map(|(i, total, free)| {
            (
                keys[*i].exchange,
                keys[*i].asset.name().clone(),
                Balance::new(*total, *free),
            )
        })
        .collect();
    EngineState::builder(
        &instruments,
        DefaultGlobalData::default(),
        DefaultInstrumentMarketData::default,
    )
    .time_engine_start(time_of(T0))
    .trading_state(TradingState::Enabled)
    .balances(bal.iter().map(|(e, a, b)| (*e, a.as_str(), *b)))
    .build()
}

fn bal_coq(b: &Option<Balance>) -> String {
    opt(b.map(|b| pair(&dec_q(b.total), &dec_q(b.free))))
}

fn summary_coq(sum: &TradingSummary<Daily>) -> String {
    let insts: Vec<String> = sum
        .instruments
        .iter()
        .map(|(k, sh)| pair(&s(k.0.as_str()), &sheet_coq(sh)))
        .collect();
    let assets: Vec<String> = sum
        .assets
        .iter()
        .map(|(k, sh)| pair(&s(&asset_key(k)), &bal_coq(&sh.balance_end)))
        .collect();
    format!(
        "(mkSumObs {} {} {} {})",
        z(nanos(sum.time_engine_start) as i128),
        z(nanos(sum.time_engine_end) as i128),
        list(&insts),
        list(&assets)
    )
}

#[derive(Clone, Debug)]
struct Tr {
    buy: bool,
    price: Decimal,
    qty: Decimal,
    fee: Decimal,
    time: i64,
}

#[derive(Clone, Debug)]
enum Op {
    PosIdx(usize, Pos),
    PosName(String, Pos),
    BalIdx(usize, Decimal, Decimal, i64),
    BalKey(String, Decimal, Decimal, i64),
    Time(i64),
    /// mode 1 only: fills applied to the engine's instrument state; every closed position they
    /// produce becomes a PosIdx in the Coq case
    Trades(usize, Vec<Tr>),
}

impl Op {
    fn to_json(&self) -> Value {
        match self {
            Op::PosIdx(i, p) => json!({"op": "pos_idx", "inst": i, "pos": p.to_json()}),
            Op::PosName(k, p) => json!({"op": "pos_name", "name": k, "pos": p.to_json()}),
            Op::BalIdx(i, t, f, tm) => {
                json!({"op": "bal_idx", "asset": i, "total": dec_json(*t), "free": dec_json(*f), "time": tm})
            }
            Op::BalKey(k, t, f, tm) => {
                json!({"op": "bal_key", "key": k, "total": dec_json(*t), "free": dec_json(*f), "time": tm})
            }
            Op::Time(t) => json!({"op": "time", "time": t}),
            Op::Trades(i, trs) => json!({"op": "trades", "inst": i, "trades": trs.iter().map(|t| {
                json!({"buy": t.buy, "price": dec_json(t.price), "qty": dec_json(t.qty), "fee": dec_json(t.fee), "time": t.time})
            }).collect::<Vec<_>>()}),
        }
    }
    fn from_json(v: &Value) -> Op {
        match v["op"].as_str().unwrap_or("") {
            "pos_idx" => Op::PosIdx(v["inst"].as_u64().unwrap() as usize, Pos::from_json(&v["pos"])),
            "pos_name" => Op::PosName(v["name"].as_str().unwrap().to_string(), Pos::from_json(&v["pos"])),
            "bal_idx" => Op::BalIdx(
                v["asset"].as_u64().unwrap() as usize,
                json_dec(&v["total"]),
                json_dec(&v["free"]),
                v["time"].as_i64().unwrap(),
            ),
            "bal_key" => Op::BalKey(
                v["key"].as_str().unwrap().to_string(),
                json_dec(&v["total"]),
                json_dec(&v["free"]),
                v["time"].as_i64().unwrap(),
            ),
            "time" => Op::Time(v["time"].as_i64().unwrap()),
            "trades" => Op::Trades(
                v["inst"].as_u64().unwrap() as usize,
                v["trades"]
                    .as_array()
                    .unwrap()
                    .iter()
                    .map(|t| Tr {
                        buy: t["buy"].as_bool().unwrap(),
                        price: json_dec(&t["price"]),
                        qty: json_dec(&t["qty"]),
                        fee: json_dec(&t["fee"]),
                        time: t["time"].as_i64().unwrap(),
                    })
                    .collect(),
            ),
            o => panic!("unknown op {o}"),
        }
    }
}

fn parse_asset_key(k: &str, keys: &[ExchangeAsset<AssetNameInternal>]) -> ExchangeAsset<AssetNameInternal> {
    // a key of the state if it names one, else a key that exists nowhere
    keys.iter()
        .find(|x| asset_key(x) == k)
        .cloned()
        .unwrap_or_else(|| ExchangeAsset::new(ExchangeId::Other, AssetNameInternal::new("nowhere")))
}

fn emit_summary(
    em: &mut Emitter,
    stream: &'static str,
    mode: u64,
    picks: &[usize],
    balances: &[(usize, Decimal, Decimal)],
    ops: &[Op],
    persist: &[usize],
    extra: &[String],
) {
    let mut rt_changed = false;
    let state = build_state(picks, balances);
    let inst_names: Vec<String> = state.instruments.0.keys().map(|k| k.0.to_string()).collect();
    let asset_keys: Vec<ExchangeAsset<AssetNameInternal>> = state.assets.0.keys().cloned().collect();
    let init_assets: Vec<String> = state
        .assets
        .0
        .iter()
        .map(|(k, st)| pair(&s(&asset_key(k)), &bal_coq(&st.statistics.balance_now)))
        .collect();
    let mut tags = vec![format!("summary_mode{mode}"), format!("summary_insts_{}", inst_names.len())];
    tags.extend(extra.iter().cloned());
    tags.push(format!("summary_assets_{}", if asset_keys.len() >= 3 { "3+" } else { "lt3" }));
    let mut coq_ops: Vec<String> = vec![];
    let mut steps: Vec<String> = vec![];
    let s0;
    let final_gens: Vec<String>;
    let gens_coq = |it: &mut dyn Iterator<Item = (String, &TearSheetGenerator)>| -> Vec<String> {
        it.map(|(k, g)| pair(&s(&k), &gen_coq(g))).collect()
    };

    if mode == 0 {
        let mut generator = TradingSummaryGenerator::init(
            Decimal::ZERO,
            time_of(T0),
            time_of(T0),
            &state.instruments,
            &state.assets,
        );
        s0 = summary_coq(&generator.generate(Daily));
        let mut panicked = false;
        // persist/restore every component of the summary generator (the whole generator cannot go
        // to JSON: its asset map is keyed by a struct)
        let rt_gen = |g: &mut TradingSummaryGenerator| -> bool {
            let mut ch = false;
            for tsg in g.instruments.values_mut() {
                ch |= round_trip_tsg(tsg);
            }
            for a in g.assets.values_mut() {
                let (back, c) = round_trip(a);
                *a = back;
                ch |= c;
            }
            ch
        };
        for (oi, op) in ops.iter().enumerate() {
            if persist.contains(&oi) {
                rt_changed |= rt_gen(&mut generator);
            }
            let mut g2 = generator.clone();
            let op2 = op.clone();
            let keys2 = asset_keys.clone();
            let (coq_op, tag) = match op {
                Op::PosIdx(i, p) => (format!("(IPosIdx {} {})", n(*i as u128), p.coq()), "op_pos_idx"),
                Op::PosName(k, p) => (format!("(IPosName {} {})", s(k), p.coq()), "op_pos_name"),
                Op::BalIdx(i, t, f, tm) => (
                    format!("(IBalIdx {} {} {} {})", n(*i as u128), dec_q(*t), dec_q(*f), z(*tm as i128)),
                    "op_bal_idx",
                ),
                Op::BalKey(k, t, f, tm) => (
                    format!("(IBalKey {} {} {} {})", s(k), dec_q(*t), dec_q(*f), z(*tm as i128)),
                    "op_bal_key",
                ),
                Op::Time(t) => (format!("(ITime {})", z(*t as i128)), "op_time"),
                Op::Trades(..) => continue, // not a generator update
            };
            tags.push(tag.into());
            if let Op::PosIdx(_, p) | Op::PosName(_, p) = op {
                tags.push(p.class().into());
            }
            coq_ops.push(coq_op);
            let res = catch(move || {
                match &op2 {
                    Op::PosIdx(i, p) => g2.update_from_position(&p.exited(InstrumentIndex(*i))),
                    Op::PosName(k, p) => {
                        g2.update_from_position(&p.exited(InstrumentNameInternal::new(k.as_str())))
                    }
                    Op::BalIdx(i, t, f, tm) => g2.update_from_balance(Snapshot(&AssetBalance {
                        asset: AssetIndex(*i),
                        balance: Balance::new(*t, *f),
                        time_exchange: time_of(*tm),
                    })),
                    Op::BalKey(k, t, f, tm) => g2.update_from_balance(Snapshot(&AssetBalance {
                        asset: parse_asset_key(k, &keys2),
                        balance: Balance::new(*t, *f),
                        time_exchange: time_of(*tm),
                    })),
                    Op::Time(t) => g2.update_time_now(time_of(*t)),
                    Op::Trades(..) => {}
                }
                let summary = g2.generate(Daily);
                (g2, summary)
            });
            match res {
                Ok((g2, summary)) => {
                    steps.push(format!("(Some {})", summary_coq(&summary)));
                    generator = g2;
                }
                Err(_) => {
                    tags.push("panic".into());
                    steps.push("None".into());
                    panicked = true;
                    break;
                }
            }
        }
        if !panicked && persist.contains(&ops.len()) {
            rt_changed |= rt_gen(&mut generator);
        }
        final_gens = if panicked {
            vec![]
        } else {
            gens_coq(&mut generator.instruments.iter().map(|(k, g)| (k.0.to_string(), g)))
        };
    } else {
        let mut engine = Engine::new(HistoricalClock::new(time_of(T0)), state, (), (), ());
        s0 = summary_coq(&engine.trading_summary_generator(Decimal::ZERO).generate(Daily));
        let mut panicked = false;
        let mut trade_no = 0u64;
        let rt_state = |st: &mut State| -> bool {
            let mut ch = false;
            for is in st.instruments.0.values_mut() {
                ch |= round_trip_tsg(&mut is.tear_sheet);
            }
            for a in st.assets.0.values_mut() {
                let (back, c) = round_trip(&a.statistics);
                a.statistics = back;
                ch |= c;
            }
            ch
        };
        'ops: for (oi, op) in ops.iter().enumerate() {
            if persist.contains(&oi) {
                rt_changed |= rt_state(&mut engine.state);
            }
            match op {
                Op::Trades(i, trs) => {
                    tags.push("op_trades".into());
                    for t in trs {
                        trade_no += 1;
                        let trade = Trade {
                            id: TradeId(SmolStr::new(format!("t{trade_no}"))),
                            order_id: OrderId(SmolStr::new(format!("o{trade_no}"))),
                            instrument: InstrumentIndex(*i),
                            strategy: StrategyId::new("verif"),
                            time_exchange: time_of(t.time),
                            side: if t.buy { Side::Buy } else { Side::Sell },
                            price: t.price,
                            quantity: t.qty,
                            fees: AssetFees::quote_fees(t.fee),
                        };
                        let mut st2 = engine.state.clone();
                        let idx = *i;
                        let res = catch(move || {
                            let exited = st2
                                .instruments
                                .instrument_index_mut(&InstrumentIndex(idx))
                                .update_from_trade(&trade);
                            (st2, exited)
                        });
                        match res {
                            Ok((st2, exited)) => {
                                engine.state = st2;
                                if let Some(pe) = exited {
                                    let p = Pos::of_exited(&pe);
                                    tags.push("op_pos_idx".into());
                                    tags.push(p.class().into());
                                    coq_ops.push(format!("(IPosIdx {} {})", n(*i as u128), p.coq()));
                                    let summary =
                                        engine.trading_summary_generator(Decimal::ZERO).generate(Daily);
                                    steps.push(format!("(Some {})", summary_coq(&summary)));
                                }
                            }
                            Err(_) => {
                                // e.g. an instrument index that does not exist: nothing was
                                // closed, record it as an update addressed to that index
                                tags.push("panic".into());
                                coq_ops.push(format!(
                                    "(IPosIdx {} (mkPosIn (dq 0 0) (dq 1 0) (dq 1 0) {} (Some (dq 0 0))))",
                                    n(*i as u128),
                                    z(t.time as i128)
                                ));
                                steps.push("None".into());
                                panicked = true;
                                break 'ops;
                            }
                        }
                    }
                }
                Op::BalIdx(i, t, f, tm) => {
                    tags.push("op_bal_idx".into());
                    coq_ops.push(format!(
                        "(IBalIdx {} {} {} {})",
                        n(*i as u128),
                        dec_q(*t),
                        dec_q(*f),
                        z(*tm as i128)
                    ));
                    let mut st2 = engine.state.clone();
                    let (i2, t2, f2, tm2) = (*i, *t, *f, *tm);
                    let res = catch(move || {
                        st2.assets
                            .asset_index_mut(&AssetIndex(i2))
                            .update_from_balance(Snapshot(&AssetBalance {
                                asset: AssetIndex(i2),
                                balance: Balance::new(t2, f2),
                                time_exchange: time_of(tm2),
                            }));
                        st2
                    });
                    match res {
                        Ok(st2) => {
                            engine.state = st2;
                            let summary = engine.trading_summary_generator(Decimal::ZERO).generate(Daily);
                            steps.push(format!("(Some {})", summary_coq(&summary)));
                        }
                        Err(_) => {
                            tags.push("panic".into());
                            steps.push("None".into());
                            panicked = true;
                            break 'ops;
                        }
                    }
                }
                _ => {} // generator-only updates do not exist on the engine state
            }
        }
        final_gens = if panicked {
            vec![]
        } else {
            gens_coq(
                &mut engine
                    .state
                    .instruments
                    .0
                    .iter()
                    .map(|(k, st)| (k.0.to_string(), &st.tear_sheet)),
            )
        };
    }

    let nontrivial = !coq_ops.is_empty();
    if !persist.is_empty() {
        tags.push("persist_restore".into());
    }
    if rt_changed {
        tags.push("roundtrip_changed".into());
    }
    em.emit(Case {
        stream,
        input: json!({"kind": "summary", "mode": mode, "insts": picks,
            "balances": balances.iter().map(|(i, t, f)| json!([i, dec_json(*t), dec_json(*f)])).collect::<Vec<_>>(),
            "ops": ops.iter().map(|o| o.to_json()).collect::<Vec<_>>(), "persist": persist}),
        coq: wrap_persist(
            persist,
            rt_changed,
            format!(
                "(CSummary {} {} {} {} {} {} {} {})",
                n(mode as u128),
                z(T0 as i128),
                list(&inst_names.iter().map(|k| s(k)).collect::<Vec<_>>()),
                list(&init_assets),
                list(&coq_ops),
                s0,
                list(&steps),
                list(&final_gens)
            ),
        ),
        nontrivial,
        tags,
    });
}

// ---- exec -----------------------------------------------------------------------------------------------

fn exec_input(em: &mut Emitter, stream: &'static str, inp: &Value) {
    match inp["kind"].as_str().unwrap_or("") {
        "sheet" => {
            let ps: Vec<Pos> = inp["positions"].as_array().unwrap().iter().map(Pos::from_json).collect();
            emit_sheet_p(em, stream, &ps, &persist_json(&inp["persist"]), &[]);
        }
        "win_rate" => emit_win_rate(em, stream, json_dec(&inp["wins"]), json_dec(&inp["total"])),
        "profit_factor" => {
            emit_profit_factor(em, stream, json_dec(&inp["profits"]), json_dec(&inp["losses"]))
        }
        "return" => emit_return(
            em,
            stream,
            json_dec(&inp["pnl"]),
            json_dec(&inp["price"]),
            json_dec(&inp["qty"]),
        ),
        "summary" => {
            let picks: Vec<usize> = inp["insts"]
                .as_array()
                .unwrap()
                .iter()
                .map(|x| x.as_u64().unwrap() as usize)
                .collect();
            let balances: Vec<(usize, Decimal, Decimal)> = inp["balances"]
                .as_array()
                .unwrap()
                .iter()
                .map(|x| (x[0].as_u64().unwrap() as usize, json_dec(&x[1]), json_dec(&x[2])))
                .collect();
            let ops: Vec<Op> = inp["ops"].as_array().unwrap().iter().map(Op::from_json).collect();
            emit_summary(
                em,
                stream,
                inp["mode"].as_u64().unwrap_or(0),
                &picks,
                &balances,
                &ops,
                &persist_json(&inp["persist"]),
                &[],
            );
        }
        k => panic!("unknown input kind {k}"),
    }
}

// ---- generators ---------------------------------------------------------------------------------------------

const PRICES: [(i64, u32); 8] = [
    (100, 0),
    (5, 1),
    (2500025, 2),
    (12, 5),
    (1, 0),
    (3, 0),
    (4999, 2),
    (70000, 0),
];
const QTYS: [(i64, u32); 7] = [(1, 0), (5, 1), (10, 0), (1, 3), (250, 0), (3, 0), (7, 2)];

/// kind: 0 win, 1 loss, 2 break-even; the return is an exact decimal or a non-terminating one
fn gen_pos(r: &mut Rng, kind: u64, time: i64) -> Pos {
    let (pm, ps) = *r.pick(&PRICES);
    let (qm, qs) = *r.pick(&QTYS);
    let price = Decimal::new(pm, ps);
    let qty = Decimal::new(qm, qs);
    let cost = price * qty;
    let pnl = match kind {
        2 => *r.pick(&[Decimal::ZERO, Decimal::new(0, 2), Decimal::new(0, 8)]),
        k => {
            let mag = if r.chance(1, 2) {
                // exact return with at most 4 decimals, 0.0001 .. 3.0
                cost * Decimal::new(r.range(1, 30_000), 4)
            } else {
                // a pnl with 8 decimals whose return does not terminate
                let v = (cost * Decimal::new(r.range(1, 20_000), 4) / Decimal::new(r.range(3, 13), 0))
                    .round_dp(8);
                if v.is_zero() { cost * Decimal::new(1, 2) } else { v }
            };
            if k == 1 { -mag } else { mag }
        }
    };
    Pos { pnl, price, qty, time }
}

/// exit times of `n` consecutive closed positions, in one of ten shapes (ns resolution):
/// the tag names the shape
fn gen_times(r: &mut Rng, n: usize) -> (Vec<i64>, &'static str) {
    let mut v = Vec::with_capacity(n);
    let shape = r.below(10);
    let base = T0 + r.range(1, 30) * DAY + r.range(0, 999_999_999);
    let tag = match shape {
        0 => {
            // days apart, increasing
            let mut t = T0;
            for _ in 0..n {
                t += r.range(1, DAY);
                v.push(t);
            }
            "times_increasing_days"
        }
        1 => {
            // all exits at one timestamp
            v.resize(n, base);
            "times_all_tied"
        }
        2 => {
            // clusters 1 ns .. 999 us apart, with exact ties inside
            let mut t = base;
            for _ in 0..n {
                let any = r.range(1, 999_999);
                t += *r.pick(&[0, 0, 1, 1, 999, 1_000, 999_999, any]);
                v.push(t);
            }
            "times_sub_ms_cluster"
        }
        3 => {
            // around a millisecond / second boundary, in any order
            let b = (base / SEC) * SEC;
            for _ in 0..n {
                v.push(b + *r.pick(&[-1, 0, 1, MS - 1, MS, MS + 1, -MS, 999 * MS + 999_999]));
            }
            "times_ms_boundary"
        }
        4 => {
            // strictly decreasing
            let mut t = base + n as i64 * DAY;
            for _ in 0..n {
                t -= r.range(1, DAY);
                v.push(t);
            }
            "times_decreasing"
        }
        5 => {
            // unordered, some before the generator's start
            for _ in 0..n {
                v.push(T0 + r.range(-3600 * SEC, 30 * DAY));
            }
            "times_unordered"
        }
        6 => {
            // the first exit(s) exactly AT the start time, then ties and small steps
            let mut t = T0;
            for i in 0..n {
                if i > 0 {
                    t += *r.pick(&[0, 0, 1, MS, DAY]);
                }
                v.push(t);
            }
            "times_from_start"
        }
        7 => {
            // every exit BEFORE the start time
            for _ in 0..n {
                v.push(T0 - r.range(1, 400 * DAY));
            }
            "times_before_start"
        }
        8 => {
            // increasing with one late arrival (an older exit delivered last or in the middle)
            let mut t = T0;
            for _ in 0..n {
                t += r.range(1, DAY);
                v.push(t);
            }
            if n >= 2 {
                let at = 1 + r.below(n as u64 - 1) as usize;
                v[at] = v[0] - r.range(0, 5 * SEC);
            }
            "times_late_arrival"
        }
        _ => {
            // far past / far future mixed with the present
            for _ in 0..n {
                v.push(*r.pick(&[T0, T0 - 10_000 * DAY, T0 + 10_000 * DAY, base, 1, base + 1]));
            }
            "times_far"
        }
    };
    (v, tag)
}

fn gen_history(r: &mut Rng, len: usize, weights: (u64, u64, u64)) -> (Vec<Pos>, &'static str) {
    let (times, tag) = gen_times(r, len);
    let total = weights.0 + weights.1 + weights.2;
    let mut ps: Vec<Pos> = vec![];
    for t in times {
        if !ps.is_empty() && r.chance(1, 8) {
            // the very same closed position delivered again (same values, same or later time)
            let mut again = ps[ps.len() - 1].clone();
            if r.chance(1, 2) {
                again.time = t;
            }
            ps.push(again);
            continue;
        }
        let x = r.below(total);
        let kind = if x < weights.0 {
            0
        } else if x < weights.0 + weights.1 {
            1
        } else {
            2
        };
        ps.push(gen_pos(r, kind, t));
    }
    (ps, tag)
}

fn table(em: &mut Emitter, r: &mut Rng) {
    // every win / loss / break-even pattern of up to 3 closed positions (all conventions:
    // no positions, no wins, no losses, only break-even)
    emit_sheet(em, "table", &[], &["pattern"]);
    for len in 1..=3usize {
        for code in 0..3u64.pow(len as u32) {
            let mut c = code;
            let mut ps = vec![];
            for k in 0..len {
                // alternate: strictly later / tied with the previous exit / at the start time
                let t = match (code + k as u64) % 3 {
                    0 => T0 + SEC * (k as i64 + 1),
                    1 => T0 + SEC,
                    _ => T0,
                };
                ps.push(gen_pos(r, c % 3, t));
                c /= 3;
            }
            emit_sheet(em, "table", &ps, &["pattern"]);
            if len == 3 {
                // the same history with a persist/restore step after every prefix
                let every: Vec<usize> = (0..=ps.len()).collect();
                emit_sheet_p(em, "table", &ps, &every, &["pattern"]);
            }
        }
    }
    // WinRate::calculate
    for total in [0i64, 1, 4, 10] {
        for wins in [0i64, 1, 3, 4, 10, -3] {
            emit_win_rate(em, "table", Decimal::new(wins, 0), Decimal::new(total, 0));
        }
    }
    emit_win_rate(em, "table", Decimal::new(3, 0), Decimal::new(-4, 0));
    emit_win_rate(em, "table", Decimal::new(0, 1), Decimal::new(0, 2));
    // ProfitFactor::calculate
    for profits in ["0", "0.0", "2.5", "10", "0.0001"] {
        for losses in ["0", "0.00", "-5", "-2.5", "5", "-0.0003"] {
            emit_profit_factor(em, "table", profits.parse().unwrap(), losses.parse().unwrap());
        }
    }
    // calculate_pnl_return
    for pnl in ["0", "0.00", "100", "-50", "500", "0.00000001"] {
        for (price, qty) in [("100", "1"), ("100", "10"), ("0.5", "3"), ("3", "7"), ("0", "1"), ("1", "0")] {
            emit_return(
                em,
                "table",
                pnl.parse().unwrap(),
                price.parse().unwrap(),
                qty.parse().unwrap(),
            );
        }
    }
}

/// what kind of closed positions an instrument gets in a summary case
/// 0 mixed, 1 wins only, 2 losses only (break-even allowed), 3 break-even only, 4 no history
fn pos_kind_for(r: &mut Rng, personality: u64) -> Option<u64> {
    match personality {
        0 => Some(r.below(3)),
        1 => Some(if r.chance(1, 4) { 2 } else { 0 }),
        2 => Some(if r.chance(1, 4) { 2 } else { 1 }),
        3 => Some(2),
        _ => None,
    }
}

fn gen_summary_ops(
    r: &mut Rng,
    mode: u64,
    n_inst: usize,
    n_ops: usize,
    names: &[String],
    akeys: &[String],
) -> (Vec<Op>, Vec<String>) {
    let mut ops = vec![];
    let n_assets = akeys.len().max(1);
    // exit times: one of the shapes of gen_times over the whole update sequence, so that exits of
    // different instruments (and balance / clock updates) interleave out of order, tie, fall at
    // or before the start time and differ by single nanoseconds
    let (times, time_tag) = gen_times(r, n_ops);
    // balances of the engine state need non-decreasing times per asset (AssetState drops stale ones)
    let mut t_bal = T0;
    let personalities: Vec<u64> = (0..n_inst).map(|_| r.below(5)).collect();
    let mut tags = vec![format!("summary_{time_tag}")];
    for p in &personalities {
        tags.push(
            ["inst_mixed", "inst_wins_only", "inst_losses_only", "inst_break_even_only", "inst_no_history"]
                [*p as usize]
                .to_string(),
        );
    }
    // at least one instrument with a history unless there is only one and it drew "none"
    for t in times {
        let mut inst = r.below(n_inst as u64) as usize;
        if personalities[inst] == 4 {
            // an instrument without history: redirect to another one if any has a history
            if let Some(j) = (0..n_inst).find(|j| personalities[*j] != 4) {
                inst = j;
            }
        }
        let kind = pos_kind_for(r, personalities[inst]);
        if mode == 0 {
            match (r.below(10), kind) {
                (0..=3, Some(k)) => ops.push(Op::PosIdx(inst, gen_pos(r, k, t))),
                (4..=6, Some(k)) => ops.push(Op::PosName(names[inst].clone(), gen_pos(r, k, t))),
                (7, _) | (0..=3, None) => ops.push(Op::BalIdx(
                    r.below(n_assets as u64) as usize,
                    Decimal::new(r.range(0, 100_000), 2),
                    Decimal::new(r.range(0, 100_000), 2),
                    t + *r.pick(&[0, 1, -1, DAY, -DAY]),
                )),
                (8, _) | (4..=6, None) => ops.push(Op::BalKey(
                    r.pick(akeys).clone(),
                    Decimal::new(r.range(0, 100_000), 2),
                    Decimal::new(r.range(0, 100_000), 2),
                    t + *r.pick(&[0, 1, -1, DAY, -DAY]),
                )),
                _ => ops.push(Op::Time(t + *r.pick(&[0, 1, -1, 2 * 3600 * SEC, -2 * 3600 * SEC]))),
            }
        } else if kind.is_none() || r.chance(1, 5) {
            t_bal += *r.pick(&[0, 1, MS, DAY]);
            ops.push(Op::BalIdx(
                r.below(n_assets as u64) as usize,
                Decimal::new(r.range(0, 100_000), 2),
                Decimal::new(r.range(0, 100_000), 2),
                t_bal,
            ));
        } else {
            // a round trip (open, optional increase / partial reduce, close or flip) on one
            // instrument; the fills are 0 ns .. 1 ms apart, the exit lands on `t`
            let k = kind.unwrap_or(0);
            let (pm, ps) = *r.pick(&PRICES);
            let entry = Decimal::new(pm, ps);
            let (qm, qs) = *r.pick(&QTYS);
            let qty = Decimal::new(qm, qs);
            let long = r.chance(1, 2);
            let fee_rate = if k == 2 { Decimal::ZERO } else { *r.pick(&[Decimal::ZERO, Decimal::new(1, 3)]) };
            let mut trs = vec![];
            let mk = |buy: bool, price: Decimal, q: Decimal, time: i64| Tr {
                buy,
                price,
                qty: q,
                fee: (price * q * fee_rate).round_dp(8),
                time,
            };
            let step = *r.pick(&[0i64, 1, 999, MS]);
            trs.push(mk(long, entry, qty, t - 3 * step));
            let mut open = qty;
            if k != 2 && r.chance(1, 3) {
                let add = qty * Decimal::new(5, 1);
                trs.push(mk(long, entry * Decimal::new(101, 2), add, t - 2 * step));
                open += add;
            }
            if k != 2 && r.chance(1, 3) {
                let cut = (open * Decimal::new(25, 2)).round_dp(6);
                if !cut.is_zero() {
                    trs.push(mk(!long, entry * Decimal::new(99, 2), cut, t - step));
                    open -= cut;
                }
            }
            // exit price by the wanted outcome: win, loss, break-even (flat, no fees)
            let up = Decimal::new(r.range(101, 150), 2);
            let down = Decimal::new(r.range(50, 99), 2);
            let exit = match (k, long) {
                (2, _) => entry,
                (0, true) | (1, false) => entry * up,
                _ => entry * down,
            };
            let flip = r.chance(1, 5);
            let close_qty = if flip { open * Decimal::new(2, 0) } else { open };
            trs.push(mk(!long, exit, close_qty, t));
            if flip && r.chance(2, 3) {
                // close the flipped position at the SAME timestamp (two exits on one stamp)
                trs.push(mk(long, exit, open, t));
            }
            ops.push(Op::Trades(inst, trs));
        }
    }
    (ops, tags)
}

fn gen_summary(em: &mut Emitter, r: &mut Rng, stream: &'static str, mode: u64, max_ops: u64, adversarial: bool) {
    // 1..=5 distinct catalogue entries in random order, three or more most of the time
    let mut all: Vec<usize> = (0..CATALOGUE.len()).collect();
    r.shuffle(&mut all);
    let n_inst = if r.chance(2, 3) { 3 + r.below(3) as usize } else { 1 + r.below(2) as usize };
    let picks: Vec<usize> = all[..n_inst].to_vec();
    let probe = build_state(&picks, &[]);
    let names: Vec<String> = probe.instruments.0.keys().map(|k| k.0.to_string()).collect();
    let akeys: Vec<String> = probe.assets.0.keys().map(asset_key).collect();
    let mut balances = vec![];
    for i in 0..akeys.len() {
        if r.chance(1, 2) {
            balances.push((i, Decimal::new(r.range(0, 1_000_000), 2), Decimal::new(r.range(0, 1_000_000), 2)));
        }
    }
    let n_ops = 1 + r.below(max_ops) as usize;
    let (mut ops, tags) = gen_summary_ops(r, mode, n_inst, n_ops, &names, &akeys);
    if adversarial {
        // an update addressed to a key that does not exist, somewhere in the sequence
        let t = T0 + 5 * SEC;
        let bad = match (mode, r.below(4)) {
            (0, 0) => Op::PosIdx(n_inst + r.below(2) as usize, gen_pos(r, 0, t)),
            (0, 1) => Op::PosName("no_such_instrument".into(), gen_pos(r, 1, t)),
            (0, 2) => Op::BalKey("other:nowhere".into(), Decimal::ONE, Decimal::ONE, t),
            (_, 3) | (0, _) => Op::BalIdx(akeys.len() + 1, Decimal::ONE, Decimal::ONE, t),
            _ => Op::Trades(n_inst, vec![Tr { buy: true, price: Decimal::ONE, qty: Decimal::ONE, fee: Decimal::ZERO, time: t }]),
        };
        let at = r.below(ops.len() as u64 + 1) as usize;
        ops.insert(at, bad);
    }
    let persist = gen_persist(r, ops.len());
    emit_summary(em, stream, mode, &picks, &balances, &ops, &persist, &tags);
}

fn main() {
    quiet_panics();
    let args = parse_args();
    let mut em = Emitter::create(&args.out);
    match args.mode.as_str() {
        "gen" => {
            let mut r = Rng::new(args.seed);
            let thorough = args.tier == "thorough";
            let (n_hist, max_len, n_sum0, n_sum1, max_ops, n_adv) = if thorough {
                (800, 40, 350, 300, 20, 160)
            } else {
                (130, 16, 50, 40, 8, 32)
            };
            table(&mut em, &mut r);
            for i in 0..n_hist {
                let len = 1 + r.below(max_len) as usize;
                // mixed, mostly wins, mostly losses, no losses, no wins, break-even heavy
                let (w, fl) = match i % 6 {
                    0 => ((4, 4, 1), "hist_mixed"),
                    1 => ((8, 1, 1), "hist_mostly_wins"),
                    2 => ((1, 8, 1), "hist_mostly_losses"),
                    3 => ((5, 0, 2), "hist_no_losses"),
                    4 => ((0, 5, 2), "hist_no_wins"),
                    _ => ((1, 1, 6), "hist_break_even_heavy"),
                };
                let (ps, tt) = gen_history(&mut r, len, w);
                let persist = gen_persist(&mut r, ps.len());
                emit_sheet_p(&mut em, "random", &ps, &persist, &[fl, tt]);
            }
            for _ in 0..n_sum0 {
                gen_summary(&mut em, &mut r, "random", 0, max_ops, false);
            }
            for _ in 0..n_sum1 {
                gen_summary(&mut em, &mut r, "random", 1, max_ops, false);
            }
            for i in 0..n_adv {
                match i % 4 {
                    0 => {
                        // exit times out of order / equal, a zero-cost position at the end
                        let len = 2 + r.below(6) as usize;
                        let (mut ps, _) = gen_history(&mut r, len, (3, 3, 1));
                        ps.reverse();
                        if r.chance(1, 2) {
                            ps.push(Pos {
                                pnl: Decimal::ONE,
                                price: Decimal::ZERO,
                                qty: Decimal::ONE,
                                time: T0,
                            });
                        }
                        emit_sheet(&mut em, "adversarial", &ps, &["adv_time_disorder"]);
                    }
                    1 => {
                        // wins and losses that cancel exactly; returns of very different sizes
                        let mut ps = vec![];
                        let k = 1 + r.below(4) as i64;
                        for j in 0..k {
                            let cost_p = Decimal::new(100, 0);
                            let v = Decimal::new(r.range(1, 500), 1);
                            ps.push(Pos { pnl: v, price: cost_p, qty: Decimal::ONE, time: T0 + 10 * SEC * j });
                            ps.push(Pos { pnl: -v, price: cost_p, qty: Decimal::ONE, time: T0 + 10 * SEC * j + 5 });
                        }
                        ps.push(Pos {
                            pnl: Decimal::new(1, 1),
                            price: Decimal::new(70000, 0),
                            qty: Decimal::ONE,
                            time: T0 + DAY,
                        });
                        emit_sheet(&mut em, "adversarial", &ps, &["adv_cancelling"]);
                    }
                    2 => gen_summary(&mut em, &mut r, "adversarial", 0, max_ops, true),
                    _ => gen_summary(&mut em, &mut r, "adversarial", 1, max_ops, true),
                }
            }
        }
        "exec" => {
            for (inp, stream) in read_inputs(args.input.as_deref().expect("--in")) {
                exec_input(&mut em, stream_static(&stream), &inp);
            }
        }
        m => panic!("unknown mode {m}"),
    }
    em.finish();
}
