//! C12 correspondence harness: drives the REAL reconnecting-stream combinators
//! (`init_reconnecting_stream`, `with_reconnect_backoff`, `with_termination_on_error`,
//! `with_reconnection_events`, `with_error_handler`, `forward_to`) and `merge` on a
//! current-thread tokio runtime whose clock is paused from the start, with a scripted init
//! closure / scripted input streams, and prints the script together with everything observed
//! (init calls, delivered events, handler calls, completion), each stamped with the virtual
//! time offset in ms, as Coq terms of type `case` (Corr/C12.v).
use barter_data::{
    error::DataError,
    streams::{
        consumer::StreamKey,
        reconnect::{
            Event,
            stream::{ReconnectingStream, ReconnectionBackoffPolicy, init_reconnecting_stream},
        },
    },
};
use barter_instrument::exchange::ExchangeId;
use barter_integration::{
    channel::{Tx, UnboundedRx, UnboundedTx, mpsc_unbounded},
    stream::merge::merge,
    subscription::SubscriptionId,
};
use futures::{Stream, StreamExt};
use serde_json::{Value, json};
use std::{
    collections::VecDeque,
    fmt::Debug,
    panic::AssertUnwindSafe,
    pin::Pin,
    sync::{Arc, Mutex},
    time::Duration,
};
use tokio::time::{Instant, sleep, timeout_at};
use vh_common::*;

// ---------------------------------------------------------------------------------------------
// script types
// ---------------------------------------------------------------------------------------------

#[derive(Clone, Debug, PartialEq)]
enum Item {
    Ok(u64),
    Term,
    Err(u64),
}
#[derive(Clone, Debug)]
struct TItem {
    d: u64,
    it: Item,
}
#[derive(Clone, Debug)]
enum Conn {
    Fail { lat: u64 },
    Ok { lat: u64, items: Vec<TItem>, tail: u64 },
}
#[derive(Clone, Debug)]
struct RCase {
    initial: u64,
    mult: u8,
    max: u64,
    origin: u64,
    handler: bool,
    forward: Option<u64>,
    /// consumer stops polling (but keeps the stream) after this many events
    take: Option<u64>,
    script: Vec<Conn>,
}

#[derive(Clone, Debug)]
struct MSide {
    items: Vec<(u64, u64)>, // (delay, value)
    end: Option<u64>,       // delay before the end; None = pending forever after the items
    via: u64,               // 0 direct stream, 1 UnboundedRx as Stream, 2 UnboundedRx::into_stream()
}
#[derive(Clone, Debug)]
struct MCase {
    left: MSide,
    right: MSide,
}

impl TItem {
    fn to_json(&self) -> Value {
        match self.it {
            Item::Ok(v) => json!({"d": self.d, "ok": v}),
            Item::Term => json!({"d": self.d, "term": 1}),
            Item::Err(e) => json!({"d": self.d, "err": e}),
        }
    }
    fn from_json(v: &Value) -> TItem {
        let d = v["d"].as_u64().unwrap_or(0);
        let it = if let Some(x) = v.get("ok").and_then(|x| x.as_u64()) {
            Item::Ok(x)
        } else if let Some(e) = v.get("err").and_then(|x| x.as_u64()) {
            Item::Err(e)
        } else {
            Item::Term
        };
        TItem { d, it }
    }
    fn coq(&self) -> String {
        let it = match self.it {
            Item::Ok(v) => format!("IOk {}", n(v as u128)),
            Item::Term => "IErrTerminal".to_string(),
            Item::Err(e) => format!("IErrOther {}", n(e as u128)),
        };
        format!("({}, {})", n(self.d as u128), it)
    }
}
impl Conn {
    fn to_json(&self) -> Value {
        match self {
            Conn::Fail { lat } => json!({"fail": lat}),
            Conn::Ok { lat, items, tail } => {
                json!({"ok": lat, "items": items.iter().map(|i| i.to_json()).collect::<Vec<_>>(), "tail": tail})
            }
        }
    }
    fn from_json(v: &Value) -> Conn {
        if let Some(lat) = v.get("fail").and_then(|x| x.as_u64()) {
            Conn::Fail { lat }
        } else {
            Conn::Ok {
                lat: v["ok"].as_u64().unwrap_or(0),
                items: v["items"]
                    .as_array()
                    .map(|a| a.iter().map(TItem::from_json).collect())
                    .unwrap_or_default(),
                tail: v["tail"].as_u64().unwrap_or(0),
            }
        }
    }
    fn coq(&self) -> String {
        match self {
            Conn::Fail { lat } => format!("InitFail {}", n(*lat as u128)),
            Conn::Ok { lat, items, tail } => format!(
                "InitOk {} {} {}",
                n(*lat as u128),
                list(&items.iter().map(|i| i.coq()).collect::<Vec<_>>()),
                n(*tail as u128)
            ),
        }
    }
}
impl RCase {
    fn to_json(&self) -> Value {
        json!({"kind": "reconnect",
               "policy": {"initial": self.initial, "mult": self.mult, "max": self.max},
               "origin": self.origin, "handler": self.handler, "forward": self.forward, "take": self.take,
               "script": self.script.iter().map(|c| c.to_json()).collect::<Vec<_>>()})
    }
    fn from_json(v: &Value) -> RCase {
        RCase {
            initial: v["policy"]["initial"].as_u64().unwrap(),
            mult: v["policy"]["mult"].as_u64().unwrap() as u8,
            max: v["policy"]["max"].as_u64().unwrap(),
            origin: v["origin"].as_u64().unwrap_or(0),
            handler: v["handler"].as_bool().unwrap_or(false),
            forward: v["forward"].as_u64(),
            take: v["take"].as_u64(),
            script: v["script"]
                .as_array()
                .unwrap()
                .iter()
                .map(Conn::from_json)
                .collect(),
        }
    }
}
impl MSide {
    fn to_json(&self) -> Value {
        json!({"items": self.items.iter().map(|(d, v)| json!({"d": d, "v": v})).collect::<Vec<_>>(),
               "end": self.end, "via": self.via})
    }
    fn from_json(v: &Value) -> MSide {
        MSide {
            items: v["items"]
                .as_array()
                .map(|a| {
                    a.iter()
                        .map(|x| (x["d"].as_u64().unwrap_or(0), x["v"].as_u64().unwrap_or(0)))
                        .collect()
                })
                .unwrap_or_default(),
            end: v["end"].as_u64(),
            via: v["via"].as_u64().unwrap_or(0),
        }
    }
    fn coq(&self) -> String {
        format!(
            "(mkDStream {} {})",
            list(
                &self
                    .items
                    .iter()
                    .map(|(d, v)| pair(&n(*d as u128), &n(*v as u128)))
                    .collect::<Vec<_>>()
            ),
            opt(self.end.map(|e| n(e as u128)))
        )
    }
}

// ---------------------------------------------------------------------------------------------
// observation log
// ---------------------------------------------------------------------------------------------

#[derive(Clone, Debug, PartialEq)]
enum Ev {
    Attempt,
    Item(u64),
    Err(u64),
    ErrTerminal,
    Handled(u64),
    HandledTerminal,
    Notice(u64),
}
impl Ev {
    fn coq(&self) -> String {
        match self {
            Ev::Attempt => "TAttempt".into(),
            Ev::Item(v) => format!("TItem {}", n(*v as u128)),
            Ev::Err(e) => format!("TErr {}", n(*e as u128)),
            Ev::ErrTerminal => "TErrTerminal".into(),
            Ev::Handled(e) => format!("THandled {}", n(*e as u128)),
            Ev::HandledTerminal => "THandledTerminal".into(),
            Ev::Notice(o) => format!("TNotice {}", n(*o as u128)),
        }
    }
}
type Log = Arc<Mutex<Vec<(u64, Ev)>>>;

/// runaway watchdog: an implementation that spins (produces events for ever at one virtual
/// instant) must become an observation (panic -> RPanic), not a hanging harness
const MAX_EVENTS: usize = 100_000;
fn push(log: &Log, t0: Instant, ev: Ev) {
    let mut g = log.lock().unwrap();
    if g.len() >= MAX_EVENTS {
        drop(g);
        panic!("runaway: more than {MAX_EVENTS} events observed");
    }
    g.push((ms(t0), ev));
}

fn ms(t0: Instant) -> u64 {
    (Instant::now() - t0).as_millis() as u64
}
async fn nap(d: u64) {
    if d > 0 {
        sleep(Duration::from_millis(d)).await;
    }
}

/// distinct real non-terminal `DataError`s carrying the scripted id
fn other_err(e: u64) -> DataError {
    match e % 3 {
        0 => DataError::Socket(e.to_string()),
        1 => DataError::InitialSnapshotInvalid(e.to_string()),
        _ => DataError::InitialSnapshotMissing(SubscriptionId::from(e.to_string())),
    }
}
fn term_err() -> DataError {
    DataError::InvalidSequence {
        prev_last_update_id: 7,
        first_update_id: 9,
    }
}
fn err_id(e: &DataError) -> Option<u64> {
    match e {
        DataError::Socket(s) | DataError::InitialSnapshotInvalid(s) => s.parse().ok(),
        DataError::InitialSnapshotMissing(id) => id.0.parse().ok(),
        _ => None,
    }
}

type ConnStream = Pin<Box<dyn Stream<Item = Result<u64, DataError>> + Send>>;

/// one connection's stream: every item after its delay, then the end after `tail`.
/// (`unfold` panics when polled again after the end: that would be reported as a panic.)
fn conn_stream(items: Vec<TItem>, tail: u64) -> ConnStream {
    let q: VecDeque<TItem> = items.into();
    Box::pin(futures::stream::unfold((q, tail), |(mut q, tail)| async move {
        match q.pop_front() {
            Some(TItem { d, it }) => {
                nap(d).await;
                let r = match it {
                    Item::Ok(v) => Ok(v),
                    Item::Term => Err(term_err()),
                    Item::Err(e) => Err(other_err(e)),
                };
                Some((r, (q, tail)))
            }
            None => {
                nap(tail).await;
                None
            }
        }
    }))
}

/// real channel whose receiver is dropped (by the sending side, synchronously, so that the
/// moment is deterministic) once `close_after` items were received; `None` = never closed.
/// Everything received is logged with the virtual time of reception.
struct CloseAfterTx<I> {
    inner: UnboundedTx<I>,
    rx: Arc<Mutex<Option<UnboundedRx<I>>>>,
    received: Arc<Mutex<u64>>,
    close_after: Option<u64>,
    log: Log,
    t0: Instant,
    conv: fn(I) -> Ev,
}
impl<I: Clone> Clone for CloseAfterTx<I> {
    fn clone(&self) -> Self {
        CloseAfterTx {
            inner: self.inner.clone(),
            rx: self.rx.clone(),
            received: self.received.clone(),
            close_after: self.close_after,
            log: self.log.clone(),
            t0: self.t0,
            conv: self.conv,
        }
    }
}
impl<I> Debug for CloseAfterTx<I> {
    fn fmt(&self, f: &mut std::fmt::Formatter<'_>) -> std::fmt::Result {
        write!(f, "CloseAfterTx")
    }
}
impl<I> CloseAfterTx<I> {
    fn maybe_close(&self) {
        if let Some(k) = self.close_after {
            if *self.received.lock().unwrap() >= k {
                *self.rx.lock().unwrap() = None; // drops the real receiver
            }
        }
    }
}
impl<I: Debug + Clone + Send> Tx for CloseAfterTx<I> {
    type Item = I;
    type Error = tokio::sync::mpsc::error::SendError<I>;
    fn send<It: Into<Self::Item>>(&self, item: It) -> Result<(), Self::Error> {
        let r = Tx::send(&self.inner, item); // the real UnboundedTx
        if r.is_ok() {
            let mut g = self.rx.lock().unwrap();
            if let Some(rx) = g.as_mut() {
                while let Ok(ev) = rx.rx.try_recv() {
                    push(&self.log, self.t0, (self.conv)(ev));
                    *self.received.lock().unwrap() += 1;
                }
            }
            drop(g);
            self.maybe_close();
        }
        r
    }
}

fn conv_result(e: Event<u64, Result<u64, DataError>>) -> Ev {
    match e {
        Event::Reconnecting(o) => Ev::Notice(o),
        Event::Item(Ok(v)) => Ev::Item(v),
        Event::Item(Err(e)) => match err_id(&e) {
            Some(id) => Ev::Err(id),
            None => Ev::ErrTerminal,
        },
    }
}
fn conv_plain(e: Event<u64, u64>) -> Ev {
    match e {
        Event::Reconnecting(o) => Ev::Notice(o),
        Event::Item(v) => Ev::Item(v),
    }
}

/// consume the composed stream: either collect it directly or hand it to `forward_to`.
/// Returns the virtual time at which the consumer finished by itself (stream ended / forward
/// future completed), `None` if it was still pending at the horizon.
async fn consume<S, I>(
    s: S,
    conv: fn(I) -> Ev,
    forward: Option<Option<u64>>,
    take: Option<u64>,
    log: Log,
    t0: Instant,
    deadline: Instant,
) -> Option<u64>
where
    S: Stream<Item = I> + Send,
    I: Debug + Clone + Send + 'static,
{
    if let Some(n) = take {
        // a consumer that stops polling after n events but keeps the stream alive: nothing
        // further may happen (pull based pipeline) until the horizon
        tokio::pin!(s);
        let mut got = 0;
        while got < n {
            match timeout_at(deadline, s.next()).await {
                Err(_) => return None,
                Ok(None) => return Some(ms(t0)),
                Ok(Some(ev)) => {
                    push(&log, t0, conv(ev));
                    got += 1;
                }
            }
        }
        tokio::time::sleep_until(deadline).await;
        return None;
    }
    match forward {
        None => {
            tokio::pin!(s);
            loop {
                match timeout_at(deadline, s.next()).await {
                    Err(_) => break None,
                    Ok(None) => break Some(ms(t0)),
                    Ok(Some(ev)) => push(&log, t0, conv(ev)),
                }
            }
        }
        Some(close_after) => {
            let (tx, rx) = mpsc_unbounded::<I>();
            let tx = CloseAfterTx {
                inner: tx,
                rx: Arc::new(Mutex::new(Some(rx))),
                received: Arc::new(Mutex::new(0)),
                close_after,
                log,
                t0,
                conv,
            };
            tx.maybe_close(); // close_after = 0: receiver gone before the first send
            match timeout_at(deadline, s.forward_to(tx)).await {
                Err(_) => None,
                Ok(()) => Some(ms(t0)),
            }
        }
    }
}

enum RObs {
    InitErr(u64),
    Stream(Vec<(u64, Ev)>, Option<u64>),
    Panic(Vec<(u64, Ev)>),
}

fn horizon(c: &RCase) -> u64 {
    let mut h: u64 = 1000;
    let w = c.initial.max(c.max);
    for k in &c.script {
        match k {
            Conn::Fail { lat } => h += lat + w,
            Conn::Ok { lat, items, tail } => {
                h += lat + tail + items.iter().map(|i| i.d).sum::<u64>();
            }
        }
    }
    h + w
}

fn run_reconnect(c: &RCase) -> RObs {
    let log: Log = Arc::new(Mutex::new(vec![]));
    let log2 = log.clone();
    let c2 = c.clone();
    let res = std::panic::catch_unwind(AssertUnwindSafe(move || {
        let rt = tokio::runtime::Builder::new_current_thread()
            .enable_time()
            .start_paused(true)
            .build()
            .expect("runtime");
        rt.block_on(run_reconnect_async(c2, log2))
    }));
    let trace = log.lock().unwrap().clone();
    match res {
        Err(_) => RObs::Panic(trace),
        Ok(Err(t)) => RObs::InitErr(t),
        Ok(Ok(done)) => RObs::Stream(trace, done),
    }
}

async fn run_reconnect_async(c: RCase, log: Log) -> Result<Option<u64>, u64> {
    let t0 = Instant::now();
    let deadline = t0 + Duration::from_millis(horizon(&c));
    let script: Arc<Mutex<VecDeque<Conn>>> = Arc::new(Mutex::new(c.script.clone().into()));
    let init = {
        let log = log.clone();
        move || {
            let script = script.clone();
            let log = log.clone();
            async move {
                push(&log, t0, Ev::Attempt);
                let next = script.lock().unwrap().pop_front();
                match next {
                    None => {
                        futures::future::pending::<()>().await;
                        unreachable!()
                    }
                    Some(Conn::Fail { lat }) => {
                        nap(lat).await;
                        Err(DataError::Socket("scripted init failure".to_string()))
                    }
                    Some(Conn::Ok { lat, items, tail }) => {
                        nap(lat).await;
                        Ok(conn_stream(items, tail))
                    }
                }
            }
        }
    };
    let policy = ReconnectionBackoffPolicy::new(c.initial, c.mult, c.max);
    let key = StreamKey::new_general("verif_c12", ExchangeId::Other);
    let origin = c.origin;

    let stream = match timeout_at(deadline, init_reconnecting_stream(init)).await {
        Err(_) => return Ok(None), // first init never resolved (empty script)
        Ok(Err(_)) => return Err(ms(t0)),
        Ok(Ok(s)) => s,
    };
    // the composition used by barter_data::streams::consumer::init_market_stream
    let stream = stream
        .with_reconnect_backoff(policy, key)
        .with_termination_on_error(|e: &DataError| e.is_terminal(), key)
        .with_reconnection_events(origin);
    let forward = c.forward.map(|k| if k == u64::MAX { None } else { Some(k) });
    if c.handler {
        let hlog = log.clone();
        let stream = stream.with_error_handler(move |e: DataError| {
            let ev = match err_id(&e) {
                Some(id) => Ev::Handled(id),
                None => Ev::HandledTerminal,
            };
            push(&hlog, t0, ev);
        });
        Ok(consume(stream, conv_plain, forward, c.take, log, t0, deadline).await)
    } else {
        Ok(consume(stream, conv_result, forward, c.take, log, t0, deadline).await)
    }
}

fn coq_trace(tr: &[(u64, Ev)]) -> String {
    list(
        &tr.iter()
            .map(|(t, e)| format!("({}, {})", n(*t as u128), e.coq()))
            .collect::<Vec<_>>(),
    )
}

/// expected backoff bookkeeping, for tags only (distribution evidence)
fn rtags(c: &RCase, obs: &RObs) -> Vec<String> {
    let mut t = vec![];
    let mut push = |s: &str| {
        if !t.iter().any(|x: &String| x == s) {
            t.push(s.to_string())
        }
    };
    push(if c.handler { "with_error_handler" } else { "no_handler" });
    match c.forward {
        _ if c.take == Some(0) => push("consumer_never_polls"),
        _ if c.take.is_some() => push("consumer_stops_polling"),
        None => push("collect"),
        Some(u64::MAX) => push("forward_open_rx"),
        Some(_) => push("forward_rx_closes"),
    }
    match c.mult {
        0 => push("mult_0"),
        1 => push("mult_1"),
        _ => push("mult_ge2"),
    }
    if c.initial > c.max {
        push("initial_gt_max");
    } else if c.initial == c.max {
        push("initial_eq_max");
    }
    if c.initial == 0 {
        push("initial_0");
    }
    let mut run = 0u64;
    let mut cur = c.initial;
    for (i, k) in c.script.iter().enumerate() {
        match k {
            Conn::Fail { .. } => {
                if i == 0 {
                    push("first_init_fails");
                }
                run += 1;
                let next = cur.saturating_mul(c.mult as u64);
                if next > c.max {
                    push("backoff_capped");
                } else if next > cur {
                    push("backoff_grows");
                }
                cur = next.min(c.max);
                push(match run {
                    1 => "fail_run_1",
                    2 => "fail_run_2",
                    3..=5 => "fail_run_3to5",
                    _ => "fail_run_6plus",
                });
            }
            Conn::Ok { items, .. } => {
                if run > 0 && i > 0 {
                    push("success_after_failures_resets");
                }
                run = 0;
                cur = c.initial;
                if items.is_empty() {
                    push("conn_empty");
                }
                let no_ok = !items
                    .iter()
                    .take_while(|x| x.it != Item::Term)
                    .any(|x| matches!(x.it, Item::Ok(_)));
                if no_ok && i > 0 {
                    if let Conn::Ok { items: pi, .. } = &c.script[i - 1] {
                        let prev_no_ok = !pi
                            .iter()
                            .take_while(|x| x.it != Item::Term)
                            .any(|x| matches!(x.it, Item::Ok(_)));
                        push(if prev_no_ok {
                            "consecutive_conns_without_ok_item"
                        } else {
                            "conn_without_ok_item_after_normal"
                        });
                    }
                }
                if items.first().map(|x| x.it == Item::Term).unwrap_or(false) {
                    push("first_item_terminal");
                }
                if i == 0 && items.is_empty() {
                    push("first_conn_empty");
                }
                let term = items.iter().position(|x| x.it == Item::Term);
                match term {
                    Some(p) if p + 1 < items.len() => push("terminal_then_more_items"),
                    Some(_) => push("terminal_last"),
                    None => push("conn_ends_normally"),
                }
                let upto = term.unwrap_or(items.len());
                if items[..upto].iter().any(|x| matches!(x.it, Item::Err(_))) {
                    push("nonterminal_error_delivered");
                }
            }
        }
    }
    match obs {
        RObs::InitErr(_) => push("obs_init_err"),
        RObs::Panic(_) => push("obs_panic"),
        RObs::Stream(_, Some(_)) => push("obs_consumer_finished"),
        RObs::Stream(_, None) => push("obs_pending_at_horizon"),
    }
    t
}

fn emit_reconnect(em: &mut Emitter, stream: &'static str, c: &RCase) {
    let obs = run_reconnect(c);
    let obs_coq = match &obs {
        RObs::InitErr(t) => format!("(RInitErr {})", n(*t as u128)),
        RObs::Stream(tr, done) => format!(
            "(RStream {} {})",
            coq_trace(tr),
            opt(done.map(|d| n(d as u128)))
        ),
        RObs::Panic(tr) => format!("(RPanic {})", coq_trace(tr)),
    };
    let fwd = match c.forward {
        _ if c.take.is_some() => format!("(FwdTake {})", n(c.take.unwrap() as u128)),
        None => "FwdNone".to_string(),
        Some(u64::MAX) => "FwdOpen".to_string(),
        Some(k) => format!("(FwdClose {})", n(k as u128)),
    };
    let coq = format!(
        "(CRec (mkPolicy {} {} {}) {} {} {} {} {})",
        n(c.initial as u128),
        n(c.mult as u128),
        n(c.max as u128),
        n(c.origin as u128),
        b(c.handler),
        fwd,
        list(&c.script.iter().map(|k| format!("({})", k.coq())).collect::<Vec<_>>()),
        obs_coq
    );
    let oks = c
        .script
        .iter()
        .filter(|k| matches!(k, Conn::Ok { .. }))
        .count();
    let nontrivial = c.script.len() >= 2 && oks >= 1 && matches!(c.script[0], Conn::Ok { .. });
    let tags = rtags(c, &obs);
    em.emit(Case {
        stream,
        input: c.to_json(),
        coq,
        nontrivial,
        tags,
    });
}

// ---------------------------------------------------------------------------------------------
// merge
// ---------------------------------------------------------------------------------------------

type MItem = (u8, u64);
type MStream = Pin<Box<dyn Stream<Item = MItem> + Send>>;

fn side_stream(side: u8, s: &MSide) -> MStream {
    let q: VecDeque<(u64, u64)> = s.items.clone().into();
    let end = s.end;
    match s.via {
        0 => Box::pin(futures::stream::unfold((q, end), move |(mut q, end)| async move {
            match q.pop_front() {
                Some((d, v)) => {
                    nap(d).await;
                    Some(((side, v), (q, end)))
                }
                None => match end {
                    Some(t) => {
                        nap(t).await;
                        None
                    }
                    None => {
                        futures::future::pending::<()>().await;
                        None
                    }
                },
            }
        })),
        via => {
            // fed through the real unbounded channel by a producer task; the end of the stream
            // is the producer dropping its UnboundedTx
            let (tx, rx) = mpsc_unbounded::<MItem>();
            tokio::spawn(async move {
                let mut q = q;
                while let Some((d, v)) = q.pop_front() {
                    nap(d).await;
                    if Tx::send(&tx, (side, v)).is_err() {
                        return;
                    }
                }
                match end {
                    Some(t) => nap(t).await,
                    None => futures::future::pending::<()>().await,
                }
                drop(tx);
            });
            if via == 1 {
                Box::pin(rx)
            } else {
                Box::pin(rx.into_stream())
            }
        }
    }
}

struct MObs {
    out: Vec<(u64, u8, u64)>,
    end: Option<u64>,
    post: Vec<(u64, u8, u64)>,
    panic: bool,
}

fn run_merge(c: &MCase) -> MObs {
    let c2 = c.clone();
    let res = std::panic::catch_unwind(AssertUnwindSafe(move || {
        let rt = tokio::runtime::Builder::new_current_thread()
            .enable_time()
            .start_paused(true)
            .build()
            .expect("runtime");
        rt.block_on(async move {
            let t0 = Instant::now();
            let total: u64 = [&c2.left, &c2.right]
                .iter()
                .map(|s| s.items.iter().map(|x| x.0).sum::<u64>() + s.end.unwrap_or(0))
                .sum();
            let deadline = t0 + Duration::from_millis(total + 1000);
            let s = merge(side_stream(0, &c2.left), side_stream(1, &c2.right));
            tokio::pin!(s);
            let mut o = MObs {
                out: vec![],
                end: None,
                post: vec![],
                panic: false,
            };
            loop {
                match timeout_at(deadline, s.next()).await {
                    Err(_) => return o,
                    Ok(None) => {
                        o.end = Some(ms(t0));
                        break;
                    }
                    Ok(Some((sd, v))) => {
                        if o.out.len() >= MAX_EVENTS {
                            panic!("runaway merge");
                        }
                        o.out.push((ms(t0), sd, v))
                    }
                }
            }
            // the merged stream is documented as fused: polling after the end yields nothing
            for _ in 0..4 {
                match timeout_at(deadline, s.next()).await {
                    Err(_) => break,
                    Ok(None) => {}
                    Ok(Some((sd, v))) => o.post.push((ms(t0), sd, v)),
                }
            }
            o
        })
    }));
    res.unwrap_or(MObs {
        out: vec![],
        end: None,
        post: vec![],
        panic: true,
    })
}

fn coq_mitems(xs: &[(u64, u8, u64)]) -> String {
    list(
        &xs.iter()
            .map(|(t, s, v)| {
                format!(
                    "({}, {}, {})",
                    n(*t as u128),
                    if *s == 0 { "SL" } else { "SR" },
                    n(*v as u128)
                )
            })
            .collect::<Vec<_>>(),
    )
}

fn emit_merge(em: &mut Emitter, stream: &'static str, c: &MCase) {
    let o = run_merge(c);
    let coq = format!(
        "(CMerge {} {} {} {} {} {})",
        c.left.coq(),
        c.right.coq(),
        coq_mitems(&o.out),
        opt(o.end.map(|e| n(e as u128))),
        coq_mitems(&o.post),
        b(o.panic)
    );
    let mut tags = vec!["merge".to_string()];
    let abs_end = |s: &MSide| s.end.map(|e| e + s.items.iter().map(|x| x.0).sum::<u64>());
    tags.push(
        match (abs_end(&c.left), abs_end(&c.right)) {
            (None, None) => "merge_neither_ends",
            (Some(_), None) => "merge_left_ends_only",
            (None, Some(_)) => "merge_right_ends_only",
            (Some(a), Some(b)) if a < b => "merge_left_ends_first",
            (Some(a), Some(b)) if a > b => "merge_right_ends_first",
            _ => "merge_both_end_same_time",
        }
        .to_string(),
    );
    let cut = o.out.len() < c.left.items.len() + c.right.items.len();
    tags.push(if cut { "merge_items_cut_off_by_end" } else { "merge_all_items_delivered" }.to_string());
    for s in [&c.left, &c.right] {
        tags.push(
            match s.via {
                0 => "merge_input_direct",
                1 => "merge_input_unbounded_rx",
                _ => "merge_input_rx_into_stream",
            }
            .to_string(),
        );
    }
    tags.dedup();
    em.emit(Case {
        stream,
        input: json!({"kind": "merge", "left": c.left.to_json(), "right": c.right.to_json()}),
        coq,
        nontrivial: !c.left.items.is_empty() && !c.right.items.is_empty(),
        tags,
    });
}

// ---------------------------------------------------------------------------------------------
// generators
// ---------------------------------------------------------------------------------------------

fn gen_delay(r: &mut Rng) -> u64 {
    match r.below(6) {
        0 | 1 | 2 => 0,
        3 => 1,
        4 => r.below(20),
        _ => r.below(400),
    }
}

fn gen_items(r: &mut Rng, conn_idx: u64, max_len: u64, p_term: u64, p_err: u64) -> Vec<TItem> {
    let k = r.below(max_len + 1);
    // repeated values: equal consecutive items inside a connection and equal items across the
    // boundary of consecutive connections (every one must still be delivered, once each)
    let same_across = r.chance(1, 6);
    let mut prev = 0u64;
    (0..k)
        .map(|j| {
            let id = if j > 0 && r.chance(1, 6) {
                prev
            } else if same_across {
                j / 2
            } else {
                conn_idx * 1000 + j
            };
            prev = id;
            let x = r.below(100);
            let it = if x < p_term {
                Item::Term
            } else if x < p_term + p_err {
                Item::Err(id)
            } else {
                Item::Ok(id)
            };
            TItem { d: gen_delay(r), it }
        })
        .collect()
}

fn gen_policy(r: &mut Rng, adversarial: bool) -> (u64, u8, u64) {
    let initial = match r.below(8) {
        0 => 0,
        1 => 1,
        2 => 125,
        _ => 1 + r.below(600),
    };
    let mult: u8 = match r.below(10) {
        0 => 0,
        1 | 2 => 1,
        3 | 4 | 5 => 2,
        6 => 3,
        7 => 10,
        8 => 255,
        _ => r.below(256) as u8,
    };
    let max = match r.below(8) {
        0 => initial,
        1 => initial * 2,
        2 => initial * 7 + 3,
        3 => 60000,
        _ => initial + r.below(20000),
    };
    if adversarial {
        match r.below(6) {
            0 => (initial + 1 + r.below(500), mult, initial), // initial > max
            1 => (initial, mult, 0),
            2 => (1 + r.below(1 << 20), mult, 1 << 30),
            _ => (initial, mult, max),
        }
    } else {
        (initial, mult, max)
    }
}

fn gen_script(r: &mut Rng, max_conns: u64, adversarial: bool) -> Vec<Conn> {
    let nconn = 1 + r.below(max_conns);
    let mut s = vec![];
    let mut i = 0u64;
    let (p_term, p_err) = if adversarial { (25, 30) } else { (8, 15) };
    let p_fail = if adversarial { 50 } else { 35 };
    while (s.len() as u64) < nconn {
        let first = s.is_empty();
        let fail = if first { r.chance(1, 12) } else { r.below(100) < p_fail };
        if fail {
            // runs of consecutive failures so that the backoff grows and hits the cap
            let run = if r.chance(1, 5) { 1 + r.below(9) } else { 1 };
            for _ in 0..run {
                s.push(Conn::Fail { lat: gen_delay(r) });
            }
        } else {
            s.push(Conn::Ok {
                lat: gen_delay(r),
                items: gen_items(r, i, if adversarial { 5 } else { 8 }, p_term, p_err),
                tail: gen_delay(r),
            });
            i += 1;
        }
    }
    s
}

fn count_outputs(c: &RCase) -> u64 {
    let mut k = 0;
    for conn in &c.script {
        if let Conn::Ok { items, .. } = conn {
            for it in items {
                match it.it {
                    Item::Term => break,
                    Item::Err(_) if c.handler => {}
                    _ => k += 1,
                }
            }
            k += 1;
        }
    }
    k
}

fn gen_rcase(r: &mut Rng, max_conns: u64, adversarial: bool) -> RCase {
    let (initial, mult, max) = gen_policy(r, adversarial);
    let mut c = RCase {
        initial,
        mult,
        max,
        origin: r.below(5),
        handler: r.chance(1, 2),
        forward: None,
        take: None,
        script: gen_script(r, max_conns, adversarial),
    };
    match r.below(10) {
        0 | 1 => c.forward = Some(r.below(count_outputs(&c) + 2)),
        2 => c.forward = Some(u64::MAX),
        3 => c.take = Some(r.below(count_outputs(&c) + 2)),
        _ => {}
    }
    c
}

fn gen_mside(r: &mut Rng, base: u64, max_len: u64, adversarial: bool) -> MSide {
    let k = if r.chance(1, 7) { 0 } else { r.below(max_len + 1) };
    let items = (0..k)
        .map(|j| {
            let d = if adversarial {
                *r.pick(&[0u64, 0, 1, 5, 5, 10])
            } else {
                gen_delay(r)
            };
            (d, base + j)
        })
        .collect();
    let end = if r.chance(1, 5) {
        None
    } else if adversarial {
        Some(*r.pick(&[0u64, 0, 5, 10]))
    } else {
        Some(gen_delay(r))
    };
    MSide {
        items,
        end,
        via: r.below(3),
    }
}

fn gen_mcase(r: &mut Rng, max_len: u64, adversarial: bool) -> MCase {
    MCase {
        left: gen_mside(r, 100, max_len, adversarial),
        right: gen_mside(r, 200, max_len, adversarial),
    }
}

/// Exhaustive tables over the small abstract domains the combinators' control flow depends on.
fn table(em: &mut Emitter) {
    // (1) connection classes: every item sequence of length <= 3 over {ok, terminal, other}
    //     x what follows (nothing | failure | another connection) x consumer mode
    let kinds = [0u8, 1, 2];
    let mut seqs: Vec<Vec<u8>> = vec![vec![]];
    for a in kinds {
        seqs.push(vec![a]);
        for b2 in kinds {
            seqs.push(vec![a, b2]);
            for c in kinds {
                seqs.push(vec![a, b2, c]);
            }
        }
    }
    let mk_items = |sq: &Vec<u8>, base: u64, d: u64| -> Vec<TItem> {
        sq.iter()
            .enumerate()
            .map(|(j, k)| TItem {
                d: if j % 2 == 0 { d } else { 0 },
                it: match k {
                    0 => Item::Ok(base + j as u64),
                    1 => Item::Term,
                    _ => Item::Err(base + j as u64),
                },
            })
            .collect()
    };
    for sq in &seqs {
        for follow in 0..3u8 {
            for mode in 0..4u8 {
                let mut script = vec![Conn::Ok {
                    lat: 3,
                    items: mk_items(sq, 10, 2),
                    tail: 5,
                }];
                match follow {
                    0 => {}
                    1 => {
                        script.push(Conn::Fail { lat: 1 });
                        script.push(Conn::Ok {
                            lat: 0,
                            items: mk_items(&vec![0], 20, 0),
                            tail: 0,
                        });
                    }
                    _ => script.push(Conn::Ok {
                        lat: 0,
                        items: mk_items(sq, 20, 0),
                        tail: 0,
                    }),
                }
                let c = RCase {
                    initial: 100,
                    mult: 2,
                    max: 1000,
                    origin: 1 + follow as u64,
                    handler: mode == 1 || mode == 3,
                    forward: match mode {
                        2 => Some(u64::MAX),
                        3 => Some(sq.len() as u64 % 3 + follow as u64),
                        _ => None,
                    },
                    take: None,
                    script,
                };
                emit_reconnect(em, "table", &c);
            }
        }
    }
    // (2) backoff: k consecutive failures after a success, then a success, then j failures,
    //     for every policy class (growth, cap reached exactly / overshoot, multiplier 0/1/255,
    //     initial = max, initial > max, initial = 0)
    let policies: [(u64, u8, u64); 16] = [
        (125, 2, 60000),
        (100, 2, 800),
        (100, 2, 750),
        (100, 3, 100),
        (100, 1, 500),
        (100, 0, 500),
        (0, 2, 500),
        (7, 255, 100000),
        (500, 2, 100),
        (1, 2, 1),
        (3, 10, 2999),
        (3, 10, 3000),
        (10, 10, 500),
        (1, 255, 254),
        (0, 255, 10),
        (5, 1, 4),
    ];
    for (initial, mult, max) in policies {
        for k in 0..=10u64 {
            for j in [0u64, 1, 3] {
                for lat in [0u64, 4] {
                    if lat == 4 && k > 4 {
                        continue;
                    }
                    let mut script = vec![Conn::Ok {
                        lat,
                        items: mk_items(&vec![0], 10, lat),
                        tail: 0,
                    }];
                    for _ in 0..k {
                        script.push(Conn::Fail { lat });
                    }
                    script.push(Conn::Ok {
                        lat,
                        items: mk_items(&vec![0, 2], 20, 1),
                        tail: lat,
                    });
                    for _ in 0..j {
                        script.push(Conn::Fail { lat });
                    }
                    if j > 0 {
                        script.push(Conn::Ok {
                            lat: 0,
                            items: vec![],
                            tail: 0,
                        });
                    }
                    let c = RCase {
                        initial,
                        mult,
                        max,
                        origin: 0,
                        handler: false,
                        forward: None,
                        take: None,
                        script,
                    };
                    emit_reconnect(em, "table", &c);
                }
            }
        }
    }
    // (3) the very first initialisation: failing, empty script
    for script in [
        vec![],
        vec![Conn::Fail { lat: 0 }],
        vec![
            Conn::Fail { lat: 9 },
            Conn::Ok {
                lat: 0,
                items: vec![],
                tail: 0,
            },
        ],
    ] {
        for handler in [false, true] {
            let c = RCase {
                initial: 10,
                mult: 2,
                max: 100,
                origin: 0,
                handler,
                forward: None,
                take: None,
                script: script.clone(),
            };
            emit_reconnect(em, "table", &c);
        }
    }
    // (4) forward_to: every closing point of the receiver over a fixed script
    for handler in [false, true] {
        for k in 0..=9u64 {
            let c = RCase {
                initial: 10,
                mult: 2,
                max: 100,
                origin: 4,
                handler,
                forward: Some(k),
                take: None,
                script: vec![
                    Conn::Ok {
                        lat: 1,
                        items: mk_items(&vec![0, 2, 0], 10, 2),
                        tail: 1,
                    },
                    Conn::Fail { lat: 0 },
                    Conn::Ok {
                        lat: 0,
                        items: mk_items(&vec![2, 0, 1, 0], 20, 0),
                        tail: 0,
                    },
                    Conn::Ok {
                        lat: 0,
                        items: mk_items(&vec![0], 30, 3),
                        tail: 0,
                    },
                ],
            };
            emit_reconnect(em, "table", &c);
        }
    }
    // (6) repetition: two and three CONSECUTIVE connections that hand nothing (or no Ok item) to
    //     the consumer -- empty, first item terminal, only non-terminal errors, errors then a
    //     terminal error -- as the very first connections or after a normal one, followed by a
    //     normal one; all at one virtual instant (zero delays) or spread out; with and without
    //     the error handler; collected, forwarded to a receiver that goes away, or read by a
    //     consumer that stops polling. Every connection must get its own notice.
    let silent = |class: u8, base: u64, d: u64| -> Conn {
        let items = match class {
            0 => vec![],
            1 => mk_items(&vec![1, 0], base, d),
            2 => mk_items(&vec![2], base, d),
            3 => mk_items(&vec![2, 2], base, d),
            _ => mk_items(&vec![2, 1, 0], base, d),
        };
        Conn::Ok {
            lat: d,
            items,
            tail: d,
        }
    };
    let mut combos: Vec<Vec<u8>> = vec![];
    for a in 0..5u8 {
        for b2 in 0..5u8 {
            combos.push(vec![a, b2]);
            for c in 0..5u8 {
                if (a + 2 * b2 + c) % 2 == 0 {
                    combos.push(vec![a, b2, c]);
                }
            }
        }
    }
    for (ci, combo) in combos.iter().enumerate() {
        for first in [true, false] {
            for handler in [false, true] {
                let d = if (ci + first as usize) % 2 == 0 { 0 } else { 3 };
                let mut script = vec![];
                if !first {
                    script.push(Conn::Ok {
                        lat: d,
                        items: mk_items(&vec![0, 0], 10, d),
                        tail: d,
                    });
                }
                for (j, cl) in combo.iter().enumerate() {
                    script.push(silent(*cl, 100 * (j as u64 + 1), d));
                }
                script.push(Conn::Ok {
                    lat: 0,
                    items: mk_items(&vec![0], 900, 0),
                    tail: 0,
                });
                let mut c = RCase {
                    initial: 50,
                    mult: 2,
                    max: 300,
                    origin: 6,
                    handler,
                    forward: None,
                    take: None,
                    script,
                };
                emit_reconnect(em, "table", &c);
                if combo.len() == 2 {
                    let total = count_outputs(&c);
                    c.forward = Some((ci as u64) % (total + 1));
                    emit_reconnect(em, "table", &c);
                    c.forward = None;
                    c.take = Some((ci as u64 + 1) % (total + 1));
                    emit_reconnect(em, "table", &c);
                }
            }
        }
    }
    // (7) a consumer that stops polling: every stopping point (incl. never polling) over the
    //     fixed script of (4)
    for handler in [false, true] {
        for k in 0..=9u64 {
            let c = RCase {
                initial: 10,
                mult: 2,
                max: 100,
                origin: 4,
                handler,
                forward: None,
                take: Some(k),
                script: vec![
                    Conn::Ok {
                        lat: 1,
                        items: mk_items(&vec![0, 2, 0], 10, 2),
                        tail: 1,
                    },
                    Conn::Fail { lat: 0 },
                    Conn::Ok {
                        lat: 0,
                        items: mk_items(&vec![2, 0, 1, 0], 20, 0),
                        tail: 0,
                    },
                    Conn::Ok {
                        lat: 0,
                        items: mk_items(&vec![0], 30, 3),
                        tail: 0,
                    },
                ],
            };
            emit_reconnect(em, "table", &c);
        }
    }
    // (5) merge: sizes 0..2 per side x end (never / immediately / later) x equal/distinct times
    for nl in 0..3u64 {
        for nr in 0..3u64 {
            for el in [None, Some(0u64), Some(7)] {
                for er in [None, Some(0u64), Some(7)] {
                    for (dl, dr) in [(0u64, 0u64), (5, 5), (3, 5), (5, 3)] {
                        for via in [0u64, 1, 2] {
                            if via > 0 && (dl, dr) == (5, 3) {
                                continue;
                            }
                            let c = MCase {
                                left: MSide {
                                    items: (0..nl).map(|j| (dl, 100 + j)).collect(),
                                    end: el,
                                    via,
                                },
                                right: MSide {
                                    items: (0..nr).map(|j| (dr, 200 + j)).collect(),
                                    end: er,
                                    via: (via + 1) % 3,
                                },
                            };
                            emit_merge(em, "table", &c);
                        }
                    }
                }
            }
        }
    }
}

fn main() {
    quiet_panics();
    let args = parse_args();
    let mut em = Emitter::create(&args.out);
    match args.mode.as_str() {
        "gen" => {
            let mut r = Rng::new(args.seed);
            let (n_rand, n_adv, n_merge, n_merge_adv, max_conns, max_m) = if args.tier == "thorough" {
                (5000, 2500, 2000, 2000, 30, 24)
            } else {
                (700, 400, 300, 300, 14, 10)
            };
            table(&mut em);
            for _ in 0..n_rand {
                let c = gen_rcase(&mut r, max_conns, false);
                emit_reconnect(&mut em, "random", &c);
            }
            for _ in 0..n_adv {
                let c = gen_rcase(&mut r, max_conns, true);
                emit_reconnect(&mut em, "adversarial", &c);
            }
            for _ in 0..n_merge {
                let c = gen_mcase(&mut r, max_m, false);
                emit_merge(&mut em, "random", &c);
            }
            for _ in 0..n_merge_adv {
                let c = gen_mcase(&mut r, max_m, true);
                emit_merge(&mut em, "adversarial", &c);
            }
        }
        "exec" => {
            for (inp, stream) in read_inputs(args.input.as_deref().expect("--in")) {
                let st = stream_static(&stream);
                if inp["kind"] == "merge" {
                    let c = MCase {
                        left: MSide::from_json(&inp["left"]),
                        right: MSide::from_json(&inp["right"]),
                    };
                    emit_merge(&mut em, st, &c);
                } else {
                    emit_reconnect(&mut em, st, &RCase::from_json(&inp));
                }
            }
        }
        m => panic!("unknown mode {m}"),
    }
    em.finish();
}
