//! C08 correspondence harness: drives the real `MockExchange` (directly through its public
//! `open_order` / `account_snapshot` API, and through the `MockExecution` client +
//! `MockExchange::run` on a paused-clock tokio runtime) on generated order sequences and prints
//! inputs + observed outputs as Coq terms of type `case` (Corr/C08.v).
use barter_execution::{
    AccountEventKind, UnindexedAccountEvent, UnindexedAccountSnapshot,
    balance::{AssetBalance, Balance},
    client::{
        ExecutionClient,
        mock::{MockExecution, MockExecutionClientConfig, MockExecutionConfig},
    },
    error::{ApiError, ConnectivityError, UnindexedOrderError},
    exchange::mock::MockExchange,
    order::{
        Order, OrderEvent, OrderKey, OrderKind, TimeInForce,
        id::{ClientOrderId, OrderId, StrategyId},
        request::{RequestCancel, RequestOpen},
        state::{ActiveOrderState, Cancelled, InactiveOrderState, Open, OrderState},
    },
    trade::Trade,
};
use barter_execution::InstrumentAccountSnapshot;
use barter_instrument::{
    Side, Underlying,
    asset::{QuoteAsset, name::AssetNameExchange},
    exchange::ExchangeId,
    instrument::{
        Instrument,
        kind::{
            InstrumentKind,
            future::FutureContract,
            option::{OptionContract, OptionExercise, OptionKind},
            perpetual::PerpetualContract,
        },
        name::InstrumentNameExchange,
        quote::InstrumentQuoteAsset,
    },
};
use chrono::{DateTime, TimeZone, Utc};
use fnv::FnvHashMap;
use futures::{FutureExt, StreamExt};
use rust_decimal::{Decimal, prelude::ToPrimitive};
use serde_json::{Value, json};
use std::{
    collections::{BTreeMap, VecDeque},
    panic::AssertUnwindSafe,
    sync::{Arc, Mutex},
};
use barter_execution::exchange::mock::request::MockExchangeRequest;
use tokio::sync::{broadcast, mpsc, oneshot};
use vh_common::*;

// ---------------------------------------------------------------------------------------------
// inputs
// ---------------------------------------------------------------------------------------------

const BAD: u64 = u64::MAX; // a name / id that does not parse: never equal to a model value

#[derive(Clone, Debug)]
struct Req {
    instr: u64,
    strategy: u64,
    cid: u64,
    buy: bool,
    price: Decimal,
    qty: Decimal,
    market: bool,
    tif: u64,
}

#[derive(Clone, Debug)]
struct BalIn {
    asset: u64,
    total: Decimal,
    free: Decimal,
    t: i64,
}

#[derive(Clone, Debug)]
struct OrdIn {
    cid: u64,
    instr: u64,
    strategy: u64,
    buy: bool,
    price: Decimal,
    qty: Decimal,
    market: bool,
    tif: u64,
    id: u64,
    t: i64,
    filled: Decimal,
}

/// kind of an instrument: 0 spot, 1 perpetual, 2 future, 3 option; contract size; settlement asset
#[derive(Clone, Debug)]
struct KindIn {
    kind: u64,
    cs: Decimal,
    settle: u64,
}
impl KindIn {
    fn spot() -> Self {
        KindIn { kind: 0, cs: Decimal::ONE, settle: 0 }
    }
}

#[derive(Clone, Debug)]
struct Setup {
    exchange: u64,
    fee: Decimal,
    latency: u64,
    seq0: u64,
    instruments: Vec<(u64, u64, u64)>, // instrument, base, quote
    kinds: Vec<KindIn>,                // same length as `instruments`
    balances: Vec<BalIn>,
    open: Vec<OrdIn>,
    canc: Vec<OrdIn>,
}

#[derive(Clone, Debug)]
enum DOp {
    SetTime(i64),
    AccTime(i64),
    Open(Req),
}

#[derive(Clone, Debug)]
enum RKind {
    Snapshot,
    Balances,
    Orders,
    Trades(i64),
    Cancel,
    Open(Req),
}

#[derive(Clone, Debug)]
struct RReq {
    t: i64,
    kind: RKind,
    beh: Beh,
    /// no receiver is subscribed to the account stream while this request's batch runs
    nosub: bool,
}

/// what the client does with the response of this request
#[derive(Clone, Copy, Debug, PartialEq)]
enum Beh {
    Await,
    /// raw request on the exchange's request channel, response receiver dropped at once
    Drop,
    /// client call abandoned after this many ms of virtual time (awaited if >= latency)
    GiveUp(u64),
}
impl Beh {
    fn awaited(self, latency: u64) -> bool {
        match self {
            Beh::Await => true,
            Beh::Drop => false,
            Beh::GiveUp(ms) => ms >= latency,
        }
    }
    fn coq(self) -> String {
        match self {
            Beh::Await => "BAwait".into(),
            Beh::Drop => "BDrop".into(),
            Beh::GiveUp(ms) => format!("(BGiveUp {})", n(ms as u128)),
        }
    }
}

fn req_json(r: &Req) -> Value {
    json!({"instr": r.instr, "strategy": r.strategy, "cid": r.cid, "buy": r.buy,
           "price": r.price.to_string(), "qty": r.qty.to_string(), "market": r.market, "tif": r.tif})
}
fn req_from(v: &Value) -> Req {
    Req {
        instr: v["instr"].as_u64().unwrap(),
        strategy: v["strategy"].as_u64().unwrap(),
        cid: v["cid"].as_u64().unwrap(),
        buy: v["buy"].as_bool().unwrap(),
        price: json_dec(&v["price"]),
        qty: json_dec(&v["qty"]),
        market: v["market"].as_bool().unwrap(),
        tif: v["tif"].as_u64().unwrap(),
    }
}
fn ord_json(o: &OrdIn) -> Value {
    json!({"cid": o.cid, "instr": o.instr, "strategy": o.strategy, "buy": o.buy,
           "price": o.price.to_string(), "qty": o.qty.to_string(), "market": o.market,
           "tif": o.tif, "id": o.id, "t": o.t, "filled": o.filled.to_string()})
}
fn ord_from(v: &Value) -> OrdIn {
    OrdIn {
        cid: v["cid"].as_u64().unwrap(),
        instr: v["instr"].as_u64().unwrap(),
        strategy: v["strategy"].as_u64().unwrap(),
        buy: v["buy"].as_bool().unwrap(),
        price: json_dec(&v["price"]),
        qty: json_dec(&v["qty"]),
        market: v["market"].as_bool().unwrap(),
        tif: v["tif"].as_u64().unwrap(),
        id: v["id"].as_u64().unwrap(),
        t: v["t"].as_i64().unwrap(),
        filled: json_dec(&v["filled"]),
    }
}
fn setup_json(s: &Setup) -> Value {
    json!({
        "exchange": s.exchange, "fee": s.fee.to_string(), "latency": s.latency, "seq0": s.seq0,
        "instruments": s.instruments.iter().zip(s.kinds.iter()).map(|((i, b, q), k)| json!({"i": i, "b": b, "q": q, "kind": k.kind, "cs": k.cs.to_string(), "settle": k.settle})).collect::<Vec<_>>(),
        "balances": s.balances.iter().map(|b| json!({"a": b.asset, "total": b.total.to_string(), "free": b.free.to_string(), "t": b.t})).collect::<Vec<_>>(),
        "open": s.open.iter().map(ord_json).collect::<Vec<_>>(),
        "canc": s.canc.iter().map(ord_json).collect::<Vec<_>>(),
    })
}
fn setup_from(v: &Value) -> Setup {
    Setup {
        exchange: v["exchange"].as_u64().unwrap(),
        fee: json_dec(&v["fee"]),
        latency: v["latency"].as_u64().unwrap(),
        seq0: v["seq0"].as_u64().unwrap(),
        instruments: v["instruments"]
            .as_array()
            .unwrap()
            .iter()
            .map(|x| (x["i"].as_u64().unwrap(), x["b"].as_u64().unwrap(), x["q"].as_u64().unwrap()))
            .collect(),
        kinds: v["instruments"]
            .as_array()
            .unwrap()
            .iter()
            .map(|x| KindIn {
                kind: x["kind"].as_u64().unwrap_or(0),
                cs: if x["cs"].is_null() { Decimal::ONE } else { json_dec(&x["cs"]) },
                settle: x["settle"].as_u64().unwrap_or(0),
            })
            .collect(),
        balances: v["balances"]
            .as_array()
            .unwrap()
            .iter()
            .map(|x| BalIn {
                asset: x["a"].as_u64().unwrap(),
                total: json_dec(&x["total"]),
                free: json_dec(&x["free"]),
                t: x["t"].as_i64().unwrap(),
            })
            .collect(),
        open: v["open"].as_array().unwrap().iter().map(ord_from).collect(),
        canc: v["canc"].as_array().unwrap().iter().map(ord_from).collect(),
    }
}
fn dop_json(o: &DOp) -> Value {
    match o {
        DOp::SetTime(t) => json!({"op": "settime", "t": t}),
        DOp::AccTime(t) => json!({"op": "acctime", "t": t}),
        DOp::Open(r) => json!({"op": "open", "req": req_json(r)}),
    }
}
fn dop_from(v: &Value) -> DOp {
    match v["op"].as_str().unwrap() {
        "settime" => DOp::SetTime(v["t"].as_i64().unwrap()),
        "acctime" => DOp::AccTime(v["t"].as_i64().unwrap()),
        _ => DOp::Open(req_from(&v["req"])),
    }
}
fn rreq_json(r: &RReq) -> Value {
    let mut v = rreq_json_kind(r);
    match r.beh {
        Beh::Await => {}
        Beh::Drop => v["beh"] = json!("drop"),
        Beh::GiveUp(ms) => {
            v["beh"] = json!("giveup");
            v["ms"] = json!(ms);
        }
    }
    if r.nosub {
        v["nosub"] = json!(true);
    }
    v
}
fn rreq_json_kind(r: &RReq) -> Value {
    match &r.kind {
        RKind::Snapshot => json!({"t": r.t, "k": "snapshot"}),
        RKind::Balances => json!({"t": r.t, "k": "balances"}),
        RKind::Orders => json!({"t": r.t, "k": "orders"}),
        RKind::Trades(s) => json!({"t": r.t, "k": "trades", "since": s}),
        RKind::Cancel => json!({"t": r.t, "k": "cancel"}),
        RKind::Open(q) => json!({"t": r.t, "k": "open", "req": req_json(q)}),
    }
}
fn rreq_from(v: &Value) -> RReq {
    let kind = match v["k"].as_str().unwrap() {
        "snapshot" => RKind::Snapshot,
        "balances" => RKind::Balances,
        "orders" => RKind::Orders,
        "trades" => RKind::Trades(v["since"].as_i64().unwrap()),
        "cancel" => RKind::Cancel,
        _ => RKind::Open(req_from(&v["req"])),
    };
    let beh = match v["beh"].as_str() {
        Some("drop") => Beh::Drop,
        Some("giveup") => Beh::GiveUp(v["ms"].as_u64().unwrap_or(0)),
        _ => Beh::Await,
    };
    RReq { t: v["t"].as_i64().unwrap(), kind, beh, nosub: v["nosub"].as_bool().unwrap_or(false) }
}

// ---------------------------------------------------------------------------------------------
// building the real values
// ---------------------------------------------------------------------------------------------

const EXCHANGES: [ExchangeId; 3] = [ExchangeId::Mock, ExchangeId::BinanceSpot, ExchangeId::Kraken];

fn time_of(ms: i64) -> DateTime<Utc> {
    Utc.timestamp_millis_opt(ms).unwrap()
}
fn asset_name(a: u64) -> AssetNameExchange {
    AssetNameExchange::new(format!("a{a}"))
}
fn instr_name(i: u64) -> InstrumentNameExchange {
    InstrumentNameExchange::new(format!("i{i}"))
}
fn parse_idx(s: &str, prefix: char) -> u64 {
    s.strip_prefix(prefix).and_then(|x| x.parse().ok()).unwrap_or(BAD)
}
fn tif_of(t: u64) -> TimeInForce {
    match t {
        0 => TimeInForce::GoodUntilCancelled { post_only: false },
        1 => TimeInForce::GoodUntilCancelled { post_only: true },
        2 => TimeInForce::GoodUntilEndOfDay,
        3 => TimeInForce::FillOrKill,
        _ => TimeInForce::ImmediateOrCancel,
    }
}
fn tif_idx(t: TimeInForce) -> u64 {
    match t {
        TimeInForce::GoodUntilCancelled { post_only: false } => 0,
        TimeInForce::GoodUntilCancelled { post_only: true } => 1,
        TimeInForce::GoodUntilEndOfDay => 2,
        TimeInForce::FillOrKill => 3,
        TimeInForce::ImmediateOrCancel => 4,
    }
}
fn side_of(buy: bool) -> Side {
    if buy { Side::Buy } else { Side::Sell }
}
fn kind_of(market: bool) -> OrderKind {
    if market { OrderKind::Market } else { OrderKind::Limit }
}
fn key_of(ex: ExchangeId, instr: u64, strategy: u64, cid: u64) -> OrderKey<ExchangeId, InstrumentNameExchange> {
    OrderKey {
        exchange: ex,
        instrument: instr_name(instr),
        strategy: StrategyId::new(format!("s{strategy}")),
        cid: ClientOrderId::new(format!("c{cid}")),
    }
}
fn request_of(ex: ExchangeId, r: &Req) -> OrderEvent<RequestOpen, ExchangeId, InstrumentNameExchange> {
    OrderEvent {
        key: key_of(ex, r.instr, r.strategy, r.cid),
        state: RequestOpen {
            side: side_of(r.buy),
            price: r.price,
            quantity: r.qty,
            kind: kind_of(r.market),
            time_in_force: tif_of(r.tif),
        },
    }
}

fn initial_snapshot(s: &Setup) -> UnindexedAccountSnapshot {
    let ex = EXCHANGES[s.exchange as usize % 3];
    let balances = s
        .balances
        .iter()
        .map(|b| AssetBalance {
            asset: asset_name(b.asset),
            balance: Balance { total: b.total, free: b.free },
            time_exchange: time_of(b.t),
        })
        .collect();
    let mut by_instr: BTreeMap<u64, Vec<_>> = BTreeMap::new();
    for (o, is_open) in s.open.iter().map(|o| (o, true)).chain(s.canc.iter().map(|o| (o, false))) {
        let state = if is_open {
            OrderState::Active(ActiveOrderState::Open(Open {
                id: OrderId::new(o.id.to_string()),
                time_exchange: time_of(o.t),
                filled_quantity: o.filled,
            }))
        } else {
            OrderState::Inactive(InactiveOrderState::Cancelled(Cancelled {
                id: OrderId::new(o.id.to_string()),
                time_exchange: time_of(o.t),
            }))
        };
        by_instr.entry(o.instr).or_default().push(Order {
            key: key_of(ex, o.instr, o.strategy, o.cid),
            side: side_of(o.buy),
            price: o.price,
            quantity: o.qty,
            kind: kind_of(o.market),
            time_in_force: tif_of(o.tif),
            state,
        });
    }
    UnindexedAccountSnapshot {
        exchange: ex,
        balances,
        instruments: by_instr
            .into_iter()
            .map(|(i, orders)| InstrumentAccountSnapshot { instrument: instr_name(i), orders })
            .collect(),
    }
}

fn build_exchange(
    s: &Setup,
) -> (
    MockExchange,
    mpsc::UnboundedSender<barter_execution::exchange::mock::request::MockExchangeRequest>,
    broadcast::Receiver<UnindexedAccountEvent>,
) {
    let ex = EXCHANGES[s.exchange as usize % 3];
    let (request_tx, request_rx) = mpsc::unbounded_channel();
    let (event_tx, event_rx) = broadcast::channel(256);
    let instruments: FnvHashMap<InstrumentNameExchange, Instrument<ExchangeId, AssetNameExchange>> = s
        .instruments
        .iter()
        .zip(s.kinds.iter())
        .map(|((i, b, q), k)| {
            let expiry = time_of(4_102_444_800_000); // 2100-01-01
            let kind = match k.kind {
                0 => InstrumentKind::Spot,
                1 => InstrumentKind::Perpetual(PerpetualContract {
                    contract_size: k.cs,
                    settlement_asset: asset_name(k.settle),
                }),
                2 => InstrumentKind::Future(FutureContract {
                    contract_size: k.cs,
                    settlement_asset: asset_name(k.settle),
                    expiry,
                }),
                _ => InstrumentKind::Option(OptionContract {
                    contract_size: k.cs,
                    settlement_asset: asset_name(k.settle),
                    kind: if i % 2 == 0 { OptionKind::Call } else { OptionKind::Put },
                    exercise: OptionExercise::European,
                    expiry,
                    strike: Decimal::from(100),
                }),
            };
            (
                instr_name(*i),
                Instrument::new(
                    ex,
                    format!("{}-i{i}", ex.as_str()),
                    format!("i{i}"),
                    Underlying { base: asset_name(*b), quote: asset_name(*q) },
                    InstrumentQuoteAsset::UnderlyingQuote,
                    kind,
                    None,
                ),
            )
        })
        .collect();
    let cfg = MockExecutionConfig {
        mocked_exchange: ex,
        initial_state: initial_snapshot(s),
        latency_ms: s.latency,
        fees_percent: s.fee,
    };
    let mut exchange = MockExchange::new(cfg, request_rx, event_tx, instruments);
    exchange.order_sequence = s.seq0;
    (exchange, request_tx, event_rx)
}

// ---------------------------------------------------------------------------------------------
// Coq printers
// ---------------------------------------------------------------------------------------------

fn qc(d: Decimal) -> String {
    format!("(qc ({})%Z {}%N)", d.mantissa(), d.scale())
}
fn nn(x: u64) -> String {
    n(x as u128)
}
fn zz(x: i64) -> String {
    z(x as i128)
}
fn coq_side(buy: bool) -> &'static str {
    if buy { "Buy" } else { "Sell" }
}
fn coq_kind(market: bool) -> &'static str {
    if market { "Market" } else { "Limit" }
}
fn coq_req(r: &Req) -> String {
    format!(
        "(mkReq {} {} {} {} {} {} {} {})",
        nn(r.instr), nn(r.strategy), nn(r.cid), coq_side(r.buy), qc(r.price), qc(r.qty),
        coq_kind(r.market), nn(r.tif)
    )
}
fn coq_bal(total: Decimal, free: Decimal, t: i64) -> String {
    format!("(mkBal {} {} {})", qc(total), qc(free), zz(t))
}
fn coq_ord(o: &OrdIn) -> String {
    format!(
        "(mkOrd {} {} {} {} {} {} {} {} {} {} {})",
        nn(o.cid), nn(o.instr), nn(o.strategy), coq_side(o.buy), qc(o.price), qc(o.qty),
        coq_kind(o.market), nn(o.tif), nn(o.id), zz(o.t), qc(o.filled)
    )
}
fn coq_cfg(s: &Setup) -> String {
    format!(
        "(mkCfg {} {} {} {})",
        list(&s.instruments.iter().map(|(i, b, q)| pair(&nn(*i), &pair(&nn(*b), &nn(*q)))).collect::<Vec<_>>()),
        qc(s.fee),
        nn(s.latency),
        list(
            &s.instruments
                .iter()
                .zip(s.kinds.iter())
                .map(|((i, _, _), k)| {
                    let settle = if k.kind == 0 { "None".to_string() } else { format!("(Some {})", nn(k.settle)) };
                    pair(&nn(*i), &format!("(mkKind {} {} {})", nn(k.kind), qc(k.cs), settle))
                })
                .collect::<Vec<_>>()
        )
    )
}
fn coq_init(s: &Setup) -> String {
    format!(
        "(mkState {} {} {} [] {} {})",
        list(&s.balances.iter().map(|b| pair(&nn(b.asset), &coq_bal(b.total, b.free, b.t))).collect::<Vec<_>>()),
        nn(s.seq0),
        zz(0),
        list(&s.open.iter().map(coq_ord).collect::<Vec<_>>()),
        list(&s.canc.iter().map(coq_ord).collect::<Vec<_>>())
    )
}
fn coq_dop(o: &DOp) -> String {
    match o {
        DOp::SetTime(t) => format!("(DSetTime {})", zz(*t)),
        DOp::AccTime(t) => format!("(DAccTime {})", zz(*t)),
        DOp::Open(r) => format!("(DOpen {})", coq_req(r)),
    }
}
fn coq_batch(bt: &[RReq]) -> String {
    pair(&b(!bt.iter().any(|rq| rq.nosub)), &list(&bt.iter().map(coq_rreq).collect::<Vec<_>>()))
}
fn coq_rreq(r: &RReq) -> String {
    let k = match &r.kind {
        RKind::Snapshot => "KSnapshot".to_string(),
        RKind::Balances => "KBalances".to_string(),
        RKind::Orders => "KOrdersOpen".to_string(),
        RKind::Trades(s) => format!("(KTrades {})", zz(*s)),
        RKind::Cancel => "KCancel".to_string(),
        RKind::Open(q) => format!("(KOpen {})", coq_req(q)),
    };
    pair(&format!("(mkRq {} {})", zz(r.t), k), &r.beh.coq())
}

// ---- observed values -> Coq ----------------------------------------------------------------

fn id_num(s: &str) -> u64 {
    s.parse().unwrap_or(BAD)
}
fn obs_key(k: &OrderKey<ExchangeId, InstrumentNameExchange>) -> (u64, u64, u64) {
    (
        parse_idx(k.instrument.name().as_str(), 'i'),
        parse_idx(k.strategy.0.as_str(), 's'),
        parse_idx(k.cid.0.as_str(), 'c'),
    )
}
fn obs_trade(t: &Trade<QuoteAsset, InstrumentNameExchange>) -> String {
    format!(
        "(mkTrade {} {} {} {} {} {} {} {} {})",
        nn(id_num(t.id.0.as_str())),
        nn(id_num(t.order_id.0.as_str())),
        nn(parse_idx(t.instrument.name().as_str(), 'i')),
        nn(parse_idx(t.strategy.0.as_str(), 's')),
        zz(t.time_exchange.timestamp_millis()),
        coq_side(t.side == Side::Buy),
        qc(t.price),
        qc(t.quantity),
        qc(t.fees.fees)
    )
}
fn obs_asset_bal(b: &AssetBalance<AssetNameExchange>) -> (u64, String) {
    (
        parse_idx(b.asset.name().as_str(), 'a'),
        coq_bal(b.balance.total, b.balance.free, b.time_exchange.timestamp_millis()),
    )
}
fn obs_bals(bs: &[AssetBalance<AssetNameExchange>]) -> String {
    let mut v: Vec<(u64, String)> = bs.iter().map(obs_asset_bal).collect();
    v.sort();
    list(&v.iter().map(|(a, b)| pair(&nn(*a), b)).collect::<Vec<_>>())
}
fn obs_error(e: &UnindexedOrderError) -> String {
    match e {
        UnindexedOrderError::Rejected(ApiError::OrderRejected(_)) => "EKind".to_string(),
        UnindexedOrderError::Rejected(ApiError::InstrumentInvalid(i, _)) => {
            format!("(EInstr {})", nn(parse_idx(i.name().as_str(), 'i')))
        }
        UnindexedOrderError::Rejected(ApiError::BalanceInsufficient(a, _)) => {
            format!("(EFunds {})", nn(parse_idx(a.name().as_str(), 'a')))
        }
        UnindexedOrderError::Connectivity(ConnectivityError::ExchangeOffline(_)) => "EOffline".to_string(),
        _ => "(EInstr 18446744073709551616%N)".to_string(),
    }
}
type OpenResponse = Order<ExchangeId, InstrumentNameExchange, Result<Open, UnindexedOrderError>>;
fn obs_echo(o: &OpenResponse) -> String {
    let (i, s, c) = obs_key(&o.key);
    format!(
        "(mkReq {} {} {} {} {} {} {} {})",
        nn(i), nn(s), nn(c), coq_side(o.side == Side::Buy), qc(o.price), qc(o.quantity),
        coq_kind(o.kind == OrderKind::Market), nn(tif_idx(o.time_in_force))
    )
}
fn obs_result(o: &OpenResponse) -> String {
    match &o.state {
        Ok(open) => format!(
            "(ROpen {} {} {})",
            nn(id_num(open.id.0.as_str())),
            zz(open.time_exchange.timestamp_millis()),
            qc(open.filled_quantity)
        ),
        Err(e) => format!("(RErr {})", obs_error(e)),
    }
}
fn is_offline(o: &OpenResponse) -> bool {
    matches!(&o.state, Err(UnindexedOrderError::Connectivity(ConnectivityError::ExchangeOffline(_))))
}

/// account snapshot -> (balances, open orders, cancelled orders, well-formed flag)
fn obs_snapshot(snap: &UnindexedAccountSnapshot, ex: ExchangeId) -> (String, String, String, bool) {
    let mut ok = snap.exchange == ex;
    let mut open: Vec<(u64, String)> = vec![];
    let mut canc: Vec<(u64, String)> = vec![];
    for (k, inst) in snap.instruments.iter().enumerate() {
        // grouping: instruments strictly increasing (sorted, unique), every order in its group
        if k > 0 && snap.instruments[k - 1].instrument >= inst.instrument {
            ok = false;
        }
        if inst.orders.is_empty() {
            ok = false;
        }
        for o in &inst.orders {
            if o.key.instrument != inst.instrument || o.key.exchange != ex {
                ok = false;
            }
            let (i, s, c) = obs_key(&o.key);
            let (id, t, filled, is_open) = match &o.state {
                OrderState::Active(ActiveOrderState::Open(op)) => {
                    (id_num(op.id.0.as_str()), op.time_exchange.timestamp_millis(), op.filled_quantity, true)
                }
                OrderState::Inactive(InactiveOrderState::Cancelled(c)) => {
                    (id_num(c.id.0.as_str()), c.time_exchange.timestamp_millis(), Decimal::ZERO, false)
                }
                _ => {
                    ok = false;
                    (BAD, 0, Decimal::ZERO, true)
                }
            };
            let term = coq_ord(&OrdIn {
                cid: c,
                instr: i,
                strategy: s,
                buy: o.side == Side::Buy,
                price: o.price,
                qty: o.quantity,
                market: o.kind == OrderKind::Market,
                tif: tif_idx(o.time_in_force),
                id,
                t,
                filled,
            });
            if is_open { open.push((c, term)) } else { canc.push((c, term)) }
        }
    }
    open.sort();
    canc.sort();
    (
        obs_bals(&snap.balances),
        list(&open.into_iter().map(|x| x.1).collect::<Vec<_>>()),
        list(&canc.into_iter().map(|x| x.1).collect::<Vec<_>>()),
        ok,
    )
}
fn obs_open_orders(os: &[Order<ExchangeId, InstrumentNameExchange, Open>]) -> String {
    let mut v: Vec<(u64, String)> = os
        .iter()
        .map(|o| {
            let (i, s, c) = obs_key(&o.key);
            (
                c,
                coq_ord(&OrdIn {
                    cid: c,
                    instr: i,
                    strategy: s,
                    buy: o.side == Side::Buy,
                    price: o.price,
                    qty: o.quantity,
                    market: o.kind == OrderKind::Market,
                    tif: tif_idx(o.time_in_force),
                    id: id_num(o.state.id.0.as_str()),
                    t: o.state.time_exchange.timestamp_millis(),
                    filled: o.state.filled_quantity,
                }),
            )
        })
        .collect();
    v.sort();
    list(&v.into_iter().map(|x| x.1).collect::<Vec<_>>())
}

// ---------------------------------------------------------------------------------------------
// tags (evidence only)
// ---------------------------------------------------------------------------------------------

fn req_tags(s: &Setup, r: &Req, tags: &mut Vec<String>) {
    if r.qty.is_sign_negative() && !r.qty.is_zero() {
        tags.push("in:qty_negative".into());
    }
    if r.qty.is_zero() {
        tags.push("in:qty_zero".into());
    }
    if r.price.is_zero() {
        tags.push("in:price_zero".into());
    }
    if r.price.is_sign_negative() && !r.price.is_zero() {
        tags.push("in:price_negative".into());
    }
    if s.fee.is_zero() {
        tags.push("in:fee_zero".into());
    }
}
fn response_tags(r: &Req, resp: &OpenResponse, new_free: Option<Decimal>, tags: &mut Vec<String>) {
    let side = if r.buy { "buy" } else { "sell" };
    match &resp.state {
        Ok(_) => {
            tags.push(format!("open:accepted:{side}"));
            if new_free.map(|x| x.is_zero()).unwrap_or(false) {
                tags.push("boundary:exact_funds_accepted".into());
            }
        }
        Err(UnindexedOrderError::Rejected(ApiError::OrderRejected(_))) => tags.push("open:reject:kind".into()),
        Err(UnindexedOrderError::Rejected(ApiError::InstrumentInvalid(..))) => {
            tags.push("open:reject:instrument".into())
        }
        Err(UnindexedOrderError::Rejected(ApiError::BalanceInsufficient(..))) => {
            tags.push(format!("open:reject:funds:{side}"))
        }
        Err(_) => tags.push("open:offline".into()),
    }
}

// ---------------------------------------------------------------------------------------------
// direct mode
// ---------------------------------------------------------------------------------------------

struct Ran {
    coq: String,
    tags: Vec<String>,
    nontrivial: bool,
}

fn run_direct(s: &Setup, ops: &[DOp]) -> Ran {
    let ex = EXCHANGES[s.exchange as usize % 3];
    let (mut exchange, _request_tx, _event_rx) = build_exchange(s);
    let mut obs = vec![];
    let mut tags = vec![];
    let mut nontrivial = false;
    for op in ops {
        let out = match op {
            DOp::SetTime(t) => {
                exchange.time_exchange_latest = time_of(*t);
                tags.push("direct:set_time".to_string());
                "DoNone".to_string()
            }
            DOp::AccTime(t) => {
                exchange.account.update_time_exchange(time_of(*t));
                tags.push("direct:account_time".to_string());
                "DoNone".to_string()
            }
            DOp::Open(r) => {
                req_tags(s, r, &mut tags);
                let request = request_of(ex, r);
                let res = catch(AssertUnwindSafe(|| exchange.open_order(request)));
                match res {
                    Err(msg) => {
                        if msg.contains("MockExchange has Balance for all configured Instrument assets") {
                            tags.push("open:panic:no_balance".into());
                            "DoPanicNoBalance".to_string()
                        } else if msg.contains("left == right") || msg.contains("left: ") {
                            tags.push("open:panic:total_ne_free".into());
                            "DoPanicTotalFree".to_string()
                        } else {
                            tags.push("open:panic:other".into());
                            "DoPanicOther".to_string()
                        }
                    }
                    Ok((resp, notifs)) => {
                        let mut ok_ids = resp.key.exchange == ex;
                        let new_free = notifs.as_ref().map(|n| n.balance.0.balance.free);
                        response_tags(r, &resp, new_free, &mut tags);
                        if resp.state.is_ok() {
                            nontrivial = true;
                        }
                        let n = notifs.map(|n| {
                            let (a, b) = obs_asset_bal(&n.balance.0);
                            if n.trade.fees.asset != QuoteAsset {
                                ok_ids = false;
                            }
                            format!("(mkNotif {} {} {})", nn(a), b, obs_trade(&n.trade))
                        });
                        if !ok_ids {
                            "DoPanicOther".to_string()
                        } else {
                            format!("(DoDone {} {} {})", obs_echo(&resp), obs_result(&resp), opt(n))
                        }
                    }
                }
            }
        };
        let snap = exchange.account_snapshot();
        let (bals, open, canc, ok) = obs_snapshot(&snap, ex);
        let trades: Vec<String> = exchange.account.trades(DateTime::<Utc>::MIN_UTC).map(obs_trade).collect();
        obs.push(format!(
            "(mkDobs {} {} {} {} {} {} {} {})",
            out,
            nn(exchange.order_sequence),
            zz(exchange.time_exchange_latest.timestamp_millis()),
            bals,
            open,
            canc,
            list(&trades),
            b(ok && exchange.time_exchange() == exchange.time_exchange_latest)
        ));
    }
    let coq = format!(
        "(CDirect {} {} {} {})",
        coq_cfg(s),
        coq_init(s),
        list(&ops.iter().map(coq_dop).collect::<Vec<_>>()),
        list(&obs)
    );
    Ran { coq, tags, nontrivial }
}

// ---------------------------------------------------------------------------------------------
// run mode: MockExecution client + MockExchange::run on a paused clock
// ---------------------------------------------------------------------------------------------

enum Resp {
    Open(OpenResponse),
    Snapshot(Option<UnindexedAccountSnapshot>),
    Balances(Option<Vec<AssetBalance<AssetNameExchange>>>),
    Orders(Option<Vec<Order<ExchangeId, InstrumentNameExchange, Open>>>),
    Trades(Option<Vec<Trade<QuoteAsset, InstrumentNameExchange>>>),
    Cancel(bool), // true = the expected ExchangeOffline error
    NotAwaited,
    /// the call returned although the client meant to give up first
    Early(Box<Resp>),
}

/// a request for the exchange's request channel whose response nobody will read
fn dropped_request(ex: ExchangeId, time: DateTime<Utc>, kind: &RKind) -> MockExchangeRequest {
    match kind {
        RKind::Open(r) => {
            let (tx, rx) = oneshot::channel();
            drop(rx);
            MockExchangeRequest::open_order(time, tx, request_of(ex, r))
        }
        RKind::Snapshot => {
            let (tx, rx) = oneshot::channel();
            drop(rx);
            MockExchangeRequest::fetch_account_snapshot(time, tx)
        }
        RKind::Balances => {
            let (tx, rx) = oneshot::channel();
            drop(rx);
            MockExchangeRequest::fetch_balances(time, tx)
        }
        RKind::Orders => {
            let (tx, rx) = oneshot::channel();
            drop(rx);
            MockExchangeRequest::fetch_orders_open(time, tx)
        }
        RKind::Trades(since) => {
            let (tx, rx) = oneshot::channel();
            drop(rx);
            MockExchangeRequest::fetch_trades(time, tx, time_of(*since))
        }
        RKind::Cancel => {
            let (tx, rx) = oneshot::channel();
            drop(rx);
            MockExchangeRequest::cancel_order(
                time,
                tx,
                OrderEvent { key: key_of(ex, 0, 0, 0), state: RequestCancel { id: None } },
            )
        }
    }
}

/// one request through the public `MockExchangeRequest` API on the request channel, awaiting the
/// oneshot response: a polling client that never took the account-event receiver
async fn raw_call(
    tx: &mpsc::UnboundedSender<MockExchangeRequest>,
    ex: ExchangeId,
    time: DateTime<Utc>,
    kind: &RKind,
) -> Resp {
    match kind {
        RKind::Open(r) => {
            let request = request_of(ex, r);
            let offline = Order {
                key: request.key.clone(),
                side: request.state.side,
                price: request.state.price,
                quantity: request.state.quantity,
                kind: request.state.kind,
                time_in_force: request.state.time_in_force,
                state: Err(UnindexedOrderError::Connectivity(ConnectivityError::ExchangeOffline(ex))),
            };
            let (otx, orx) = oneshot::channel();
            if tx.send(MockExchangeRequest::open_order(time, otx, request)).is_err() {
                return Resp::Open(offline);
            }
            Resp::Open(orx.await.unwrap_or(offline))
        }
        RKind::Snapshot => {
            let (otx, orx) = oneshot::channel();
            let _ = tx.send(MockExchangeRequest::fetch_account_snapshot(time, otx));
            Resp::Snapshot(orx.await.ok())
        }
        RKind::Balances => {
            let (otx, orx) = oneshot::channel();
            let _ = tx.send(MockExchangeRequest::fetch_balances(time, otx));
            Resp::Balances(orx.await.ok())
        }
        RKind::Orders => {
            let (otx, orx) = oneshot::channel();
            let _ = tx.send(MockExchangeRequest::fetch_orders_open(time, otx));
            Resp::Orders(orx.await.ok())
        }
        RKind::Trades(since) => {
            let (otx, orx) = oneshot::channel();
            let _ = tx.send(MockExchangeRequest::fetch_trades(time, otx, time_of(*since)));
            Resp::Trades(orx.await.ok())
        }
        RKind::Cancel => {
            let (otx, orx) = oneshot::channel();
            let _ = tx.send(MockExchangeRequest::cancel_order(
                time,
                otx,
                OrderEvent { key: key_of(ex, 0, 0, 0), state: RequestCancel { id: None } },
            ));
            Resp::Cancel(orx.await.is_err())
        }
    }
}

fn run_run(s: &Setup, batches: &[Vec<RReq>]) -> Ran {
    let ex = EXCHANGES[s.exchange as usize % 3];
    let rt = tokio::runtime::Builder::new_current_thread()
        .enable_time()
        .start_paused(true)
        .build()
        .expect("runtime");
    let latency = s.latency;
    let (obs, tags, nontrivial) = rt.block_on(async move {
        let (exchange, request_tx, event_rx) = build_exchange(s);
        // the clock hands out the time of each request, in the order the client asks for it
        let times: Arc<Mutex<(VecDeque<i64>, i64)>> = Arc::new(Mutex::new((VecDeque::new(), 0)));
        let clock_times = times.clone();
        let clock = move || {
            let mut g = clock_times.lock().unwrap();
            if let Some(t) = g.0.pop_front() {
                g.1 = t;
            }
            time_of(g.1)
        };
        // a Sender clone is not a receiver: kept only to subscribe again later
        let event_tx = exchange.event_tx.clone();
        let mut first_rx = Some(event_rx);
        // the subscribed client (real MockExecution + its account stream), when there is one
        let mut live = None;
        let handle = tokio::spawn(exchange.run());

        let mut obs = vec![];
        let mut tags: Vec<String> = vec![];
        let mut nontrivial = false;
        for batch in batches {
            tags.push(format!("run:batch_size:{}", batch.len().min(4)));
            let want_sub = !batch.iter().any(|rq| rq.nosub);
            if want_sub && live.is_none() {
                let rx = first_rx.take().unwrap_or_else(|| {
                    tags.push("run:sub:resubscribed".into());
                    event_tx.subscribe()
                });
                let client: MockExecution<_> = ExecutionClient::new(MockExecutionClientConfig {
                    mocked_exchange: ex,
                    clock: clock.clone(),
                    request_tx: request_tx.clone(),
                    event_rx: rx,
                });
                let stream = client.account_stream(&[], &[]).await.expect("account stream");
                live = Some((client, stream));
            }
            if !want_sub {
                if live.take().is_some() {
                    tags.push("run:sub:dropped".into());
                }
                if first_rx.take().is_some() {
                    tags.push("run:sub:never_taken".into());
                }
            }
            tags.push(if want_sub { "run:sub:yes".to_string() } else { "run:sub:no".to_string() });
            if want_sub {
                let mut g = times.lock().unwrap();
                for rq in batch {
                    g.0.push_back(rq.t);
                }
            }
            let instr_names: Vec<InstrumentNameExchange> = batch
                .iter()
                .map(|rq| match &rq.kind {
                    RKind::Open(r) => instr_name(r.instr),
                    _ => instr_name(0),
                })
                .collect();
            let resps: Vec<Resp> = if let Some((client, _)) = live.as_ref() {
            let futs = batch.iter().zip(instr_names.iter()).map(|(rq, name)| {
                let call = async move {
                    match &rq.kind {
                        RKind::Open(r) => {
                            let owned = request_of(ex, r);
                            let request = OrderEvent {
                                key: OrderKey {
                                    exchange: owned.key.exchange,
                                    instrument: name,
                                    strategy: owned.key.strategy,
                                    cid: owned.key.cid,
                                },
                                state: owned.state,
                            };
                            Resp::Open(client.open_order(request).await)
                        }
                        RKind::Snapshot => Resp::Snapshot(client.account_snapshot(&[], &[]).await.ok()),
                        RKind::Balances => Resp::Balances(client.fetch_balances().await.ok()),
                        RKind::Orders => Resp::Orders(client.fetch_open_orders().await.ok()),
                        RKind::Trades(since) => Resp::Trades(client.fetch_trades(time_of(*since)).await.ok()),
                        RKind::Cancel => {
                            let request = OrderEvent {
                                key: OrderKey {
                                    exchange: ex,
                                    instrument: name,
                                    strategy: StrategyId::new("s0"),
                                    cid: ClientOrderId::new("c0"),
                                },
                                state: RequestCancel { id: None },
                            };
                            let resp = client.cancel_order(request).await;
                            Resp::Cancel(matches!(
                                resp.state,
                                Err(UnindexedOrderError::Connectivity(ConnectivityError::ExchangeOffline(_)))
                            ))
                        }
                    }
                };
                async move {
                    match rq.beh {
                        b if b.awaited(latency) => call.await,
                        Beh::GiveUp(ms) => {
                            match tokio::time::timeout(std::time::Duration::from_millis(ms), call).await {
                                Ok(r) => Resp::Early(Box::new(r)),
                                Err(_) => Resp::NotAwaited,
                            }
                        }
                        _ => {
                            // raw request straight onto the exchange's channel; nobody listens
                            drop(call);
                            let request = dropped_request(ex, client.time_request(), &rq.kind);
                            let _ = client.request_tx.send(request);
                            Resp::NotAwaited
                        }
                    }
                }
            });
            futures::future::join_all(futs).await
            } else {
                // nobody is subscribed: a polling client on the public request API
                let futs = batch.iter().map(|rq| {
                    let tx = &request_tx;
                    async move {
                        let time = time_of(rq.t);
                        match rq.beh {
                            b if b.awaited(latency) => raw_call(tx, ex, time, &rq.kind).await,
                            Beh::GiveUp(ms) => {
                                match tokio::time::timeout(
                                    std::time::Duration::from_millis(ms),
                                    raw_call(tx, ex, time, &rq.kind),
                                )
                                .await
                                {
                                    Ok(r) => Resp::Early(Box::new(r)),
                                    Err(_) => Resp::NotAwaited,
                                }
                            }
                            _ => {
                                let _ = tx.send(dropped_request(ex, time, &rq.kind));
                                Resp::NotAwaited
                            }
                        }
                    }
                });
                futures::future::join_all(futs).await
            };
            // let every latency task finish, then drain the account stream
            tokio::time::sleep(std::time::Duration::from_millis(latency + 1)).await;
            for _ in 0..4 {
                tokio::task::yield_now().await;
            }
            let mut ok = true;
            let mut events = vec![];
            if live.is_none() && event_tx.receiver_count() != 0 {
                ok = false; // the harness itself must not hold a receiver in these batches
            }
            while let Some(Some(ev)) = match live.as_mut() {
                Some((_, stream)) => stream.next().now_or_never(),
                None => None,
            } {
                nontrivial = true;
                if ev.exchange != ex {
                    ok = false;
                }
                match &ev.kind {
                    AccountEventKind::BalanceSnapshot(b) => {
                        let (a, bal) = obs_asset_bal(&b.0);
                        events.push(format!("(EvBalance {} {})", nn(a), bal));
                    }
                    AccountEventKind::Trade(t) => {
                        if t.fees.asset != QuoteAsset {
                            ok = false;
                        }
                        events.push(format!("(EvTrade {})", obs_trade(t)));
                    }
                    _ => {
                        ok = false;
                        events.push("(EvBalance 18446744073709551616%N (mkBal (qc 0%Z 0%N) (qc 0%Z 0%N) 0%Z))".to_string());
                    }
                }
            }
            let mut resp_terms = vec![];
            for (rq, resp) in batch.iter().zip(resps.iter()) {
                match rq.beh {
                    Beh::Await => {}
                    Beh::Drop => tags.push("run:beh:drop".into()),
                    Beh::GiveUp(_) => tags.push("run:beh:giveup".into()),
                }
                if !rq.beh.awaited(latency) && matches!(rq.kind, RKind::Open(_)) {
                    tags.push("run:open_not_awaited".into());
                }
                let (early, resp) = match resp {
                    Resp::Early(inner) => (true, inner.as_ref()),
                    other => (false, other),
                };
                let term = match resp {
                    Resp::NotAwaited | Resp::Early(_) => pair("None", "POffline"),
                    Resp::Open(o) => {
                        if o.key.exchange != ex {
                            ok = false;
                        }
                        if let RKind::Open(r) = &rq.kind {
                            req_tags(s, r, &mut tags);
                            response_tags(r, o, None, &mut tags);
                        }
                        if o.state.is_ok() {
                            nontrivial = true;
                        }
                        let p = if is_offline(o) { "POffline".to_string() } else { format!("(POpen {})", obs_result(o)) };
                        pair(&format!("(Some {})", obs_echo(o)), &p)
                    }
                    Resp::Snapshot(Some(snap)) => {
                        tags.push("run:snapshot".into());
                        let (bals, open, canc, sok) = obs_snapshot(snap, ex);
                        ok &= sok;
                        pair("None", &format!("(PSnapshot {} {} {})", bals, open, canc))
                    }
                    Resp::Balances(Some(bs)) => {
                        tags.push("run:balances".into());
                        pair("None", &format!("(PBalances {})", obs_bals(bs)))
                    }
                    Resp::Orders(Some(os)) => {
                        tags.push("run:orders_open".into());
                        pair("None", &format!("(POrders {})", obs_open_orders(os)))
                    }
                    Resp::Trades(Some(ts)) => {
                        tags.push("run:trades".into());
                        pair("None", &format!("(PTrades {})", list(&ts.iter().map(obs_trade).collect::<Vec<_>>())))
                    }
                    Resp::Cancel(true) => {
                        tags.push("run:cancel".into());
                        pair("None", "POffline")
                    }
                    Resp::Cancel(false) => {
                        ok = false;
                        pair("None", "POffline")
                    }
                    _ => {
                        tags.push("run:offline".into());
                        pair("None", "POffline")
                    }
                };
                // a call that came back before the client gave up: only "exchange gone" is expected
                let term = if early && term.ends_with("POffline)") { pair("None", "POffline") } else { term };
                resp_terms.push(term);
            }
            // follow-up queries at the time of the batch's last request
            let (snap, trades) = match live.as_ref() {
                Some((client, _)) => (
                    client.account_snapshot(&[], &[]).await.ok(),
                    client.fetch_trades(DateTime::<Utc>::MIN_UTC).await.ok(),
                ),
                None => {
                    let time = time_of(batch.last().map(|rq| rq.t).unwrap_or(0));
                    let sn = match raw_call(&request_tx, ex, time, &RKind::Snapshot).await {
                        Resp::Snapshot(x) => x,
                        _ => None,
                    };
                    let (otx, orx) = oneshot::channel();
                    let _ = request_tx.send(MockExchangeRequest::fetch_trades(time, otx, DateTime::<Utc>::MIN_UTC));
                    let tr = orx.await.ok();
                    (sn, tr)
                }
            };
            let snap_term = snap.map(|sn| {
                let (bals, open, canc, sok) = obs_snapshot(&sn, ex);
                ok &= sok;
                pair(&pair(&bals, &open), &canc)
            });
            let trades_term = trades.map(|ts| list(&ts.iter().map(obs_trade).collect::<Vec<_>>()));
            // nothing may arrive on the account stream because of queries
            tokio::time::sleep(std::time::Duration::from_millis(latency + 1)).await;
            if let Some((_, stream)) = live.as_mut() {
                if let Some(Some(_)) = stream.next().now_or_never() {
                    ok = false;
                }
            }
            obs.push(format!(
                "(mkRobs {} {} {} {} {})",
                list(&resp_terms),
                list(&events),
                opt(snap_term),
                opt(trades_term),
                b(ok)
            ));
        }
        drop(live);
        drop(request_tx);
        let _ = handle.await;
        (obs, tags, nontrivial)
    });
    let coq = format!(
        "(CRun {} {} {} {})",
        coq_cfg(s),
        coq_init(s),
        list(&batches.iter().map(|bt| coq_batch(bt)).collect::<Vec<_>>()),
        list(&obs)
    );
    Ran { coq, tags, nontrivial }
}

// ---------------------------------------------------------------------------------------------
// emit
// ---------------------------------------------------------------------------------------------

fn dedup_tags(mut t: Vec<String>) -> Vec<String> {
    // keep multiplicity information coarse: one tag per kind per case
    t.sort();
    t.dedup();
    t
}

fn emit_direct(em: &mut Emitter, stream: &'static str, s: &Setup, ops: &[DOp], extra: &[&str]) {
    // a panic anywhere while driving the case must not take the harness down: it becomes an
    // explicit observation that neither the model nor the oracle accepts
    let ran = catch(AssertUnwindSafe(|| run_direct(s, ops))).unwrap_or_else(|_| Ran {
        coq: format!(
            "(CDirect {} {} {} [mkDobs DoPanicOther 0%N 0%Z [] [] [] [] false])",
            coq_cfg(s),
            coq_init(s),
            list(&ops.iter().map(coq_dop).collect::<Vec<_>>())
        ),
        tags: vec!["harness:case_panicked".to_string()],
        nontrivial: false,
    });
    let mut input = setup_json(s);
    input["mode"] = json!("direct");
    input["ops"] = Value::Array(ops.iter().map(dop_json).collect());
    let mut tags = ran.tags;
    tags.extend(extra.iter().map(|x| x.to_string()));
    em.emit(Case { stream, input, coq: ran.coq, nontrivial: ran.nontrivial, tags: dedup_tags(tags) });
}
fn emit_run(em: &mut Emitter, stream: &'static str, s: &Setup, batches: &[Vec<RReq>], extra: &[&str]) {
    let ran = catch(AssertUnwindSafe(|| run_run(s, batches))).unwrap_or_else(|_| Ran {
        coq: format!(
            "(CRun {} {} {} [mkRobs [] [] None None false])",
            coq_cfg(s),
            coq_init(s),
            list(&batches.iter().map(|bt| coq_batch(bt)).collect::<Vec<_>>())
        ),
        tags: vec!["harness:case_panicked".to_string()],
        nontrivial: false,
    });
    let mut input = setup_json(s);
    input["mode"] = json!("run");
    input["batches"] = Value::Array(
        batches.iter().map(|bt| Value::Array(bt.iter().map(rreq_json).collect())).collect(),
    );
    let mut tags = ran.tags;
    tags.extend(extra.iter().map(|x| x.to_string()));
    em.emit(Case { stream, input, coq: ran.coq, nontrivial: ran.nontrivial, tags: dedup_tags(tags) });
}

// ---------------------------------------------------------------------------------------------
// generators
// ---------------------------------------------------------------------------------------------

#[derive(Clone, Copy, PartialEq, Debug)]
enum Cls {
    Normal,
    Tiny,
    Huge,
}

/// All products price*qty*fee and differences balance-required must stay exact in a 96-bit
/// mantissa / 28-digit scale Decimal: each class bounds scales and magnitudes accordingly.
fn gen_price(r: &mut Rng, c: Cls) -> Decimal {
    match c {
        Cls::Normal => match r.below(4) {
            0 => *r.pick(&[mk_dec(1, 0), mk_dec(2, 0), mk_dec(4, 0), mk_dec(5, 1), mk_dec(25, 2), mk_dec(10, 0)]),
            1 => mk_dec(r.range(1, 500), 0),
            _ => mk_dec(r.range(1, 5_000_000), 2),
        },
        Cls::Tiny => mk_dec(r.range(1, 1_000_000), 8),
        Cls::Huge => mk_dec(r.range(1, 1_000_000_000) * 1000, 0),
    }
}
fn gen_qty(r: &mut Rng, c: Cls) -> Decimal {
    match c {
        Cls::Normal => match r.below(3) {
            0 => mk_dec(r.range(1, 20), 0),
            1 => mk_dec(r.range(1, 5000), 2),
            _ => mk_dec(r.range(1, 100_000), 4),
        },
        Cls::Tiny => mk_dec(r.range(1, 1_000_000), 8),
        Cls::Huge => mk_dec(r.range(1, 1_000_000), 0),
    }
}
fn gen_fee(r: &mut Rng, c: Cls) -> Decimal {
    match c {
        Cls::Huge => *r.pick(&[Decimal::ZERO, mk_dec(1, 2), mk_dec(25, 2), mk_dec(1, 0), mk_dec(5, 1)]),
        _ => *r.pick(&[
            Decimal::ZERO,
            mk_dec(1, 3),
            mk_dec(25, 4),
            mk_dec(1, 2),
            mk_dec(75, 5),
            mk_dec(1, 1),
            mk_dec(25, 2),
            mk_dec(5, 1),
            mk_dec(1, 0),
            mk_dec(2, 0),
        ]),
    }
}
fn gen_balance(r: &mut Rng, c: Cls) -> Decimal {
    match c {
        Cls::Normal => match r.below(5) {
            0 => Decimal::ZERO,
            1 => mk_dec(r.range(0, 1000), 2),
            2 => mk_dec(r.range(0, 100_000), 0),
            _ => mk_dec(r.range(0, 100_000_000_000), 2),
        },
        Cls::Tiny => match r.below(4) {
            0 => Decimal::ZERO,
            1 => mk_dec(r.range(0, 1_000_000), 8),
            _ => mk_dec(r.range(0, 10_000_000_000), 8),
        },
        Cls::Huge => match r.below(4) {
            0 => Decimal::ZERO,
            1 => mk_dec(r.range(0, 1_000_000_000_000), 0),
            _ => Decimal::from_i128_with_scale(r.range(0, 1_000_000_000_000) as i128 * 1_000_000_000, 0),
        },
    }
}

/// the generator's own ledger, used only to aim orders at interesting amounts
struct Shadow {
    bal: BTreeMap<u64, Decimal>,
    fee: Decimal,
    instruments: Vec<(u64, u64, u64)>,
}
impl Shadow {
    fn of(s: &Setup) -> Self {
        Shadow {
            bal: s.balances.iter().map(|b| (b.asset, b.free)).collect(),
            fee: s.fee,
            instruments: s.instruments.clone(),
        }
    }
    fn spent(&self, r: &Req) -> Option<u64> {
        if !r.market {
            return None;
        }
        self.instruments.iter().find(|x| x.0 == r.instr).map(|(_, b, q)| if r.buy { *q } else { *b })
    }
    fn need(&self, r: &Req) -> Decimal {
        let v = if r.buy { r.price * r.qty.abs() } else { r.qty.abs() };
        v + v * self.fee
    }
    fn apply(&mut self, r: &Req) -> bool {
        let Some(a) = self.spent(r) else { return false };
        let need = self.need(r);
        match self.bal.get_mut(&a) {
            Some(x) if *x - need >= Decimal::ZERO => {
                *x -= need;
                true
            }
            _ => false,
        }
    }
}

fn ulp_of(d: Decimal) -> Decimal {
    Decimal::new(1, d.scale())
}

/// every product the code forms for this order stays exact and far from the 96-bit limit
/// (Decimal overflow panics / rounding are outside the model)
fn fits(req: &Req, fee: Decimal) -> bool {
    let lim = Decimal::from_i128_with_scale(10i128.pow(26), 0);
    let Some(pq) = req.price.abs().checked_mul(req.qty.abs()) else { return false };
    let Some(pqf) = pq.checked_mul(Decimal::ONE + fee.abs()) else { return false };
    let scale = req.price.scale() + req.qty.scale() + fee.scale();
    scale <= 22 && pqf < lim && pqf.scale() <= scale
}

fn gen_setup(r: &mut Rng, c: Cls, adversarial: bool) -> Setup {
    let n_assets = 2 + r.below(4); // 2..5
    // instruments over the assets: several share assets, some reverse another's pair
    let mut pool: Vec<(u64, u64)> = vec![];
    for b in 0..n_assets {
        for q in 0..n_assets {
            if b != q {
                pool.push((b, q));
            }
        }
    }
    r.shuffle(&mut pool);
    let n_instr = 1 + r.below(4.min(pool.len() as u64));
    let mut instruments: Vec<(u64, u64, u64)> = vec![];
    let mut kinds: Vec<KindIn> = vec![];
    // exchange names "i<n>": either small consecutive numbers or numbers sharing a prefix
    let ids: Vec<u64> = if r.chance(1, 3) {
        let mut v = vec![1u64, 10, 11, 100, 101, 110];
        r.shuffle(&mut v);
        v
    } else {
        let mut next_i = r.below(3);
        (0..6)
            .map(|_| {
                let x = next_i;
                next_i += 1 + r.below(2);
                x
            })
            .collect()
    };
    for (k, (b, q)) in pool.into_iter().take(n_instr as usize).enumerate() {
        instruments.push((ids[k], b, q));
        // spot / perpetual / future / option; contract size 1, 0.01, 0.001 or 100; settlement in
        // the quote asset or in another one
        let kind = *r.pick(&[0u64, 0, 1, 1, 2, 3]);
        let cs = if kind == 0 {
            Decimal::ONE
        } else {
            *r.pick(&[Decimal::ONE, mk_dec(1, 2), mk_dec(1, 3), mk_dec(100, 0)])
        };
        let settle = if r.chance(1, 2) { q } else { r.below(n_assets) };
        kinds.push(if kind == 0 { KindIn::spot() } else { KindIn { kind, cs, settle } });
    }
    let fee = if adversarial && r.chance(1, 8) { -gen_fee(r, c) } else { gen_fee(r, c) };
    let mut balances: Vec<BalIn> = vec![];
    for a in 0..n_assets + r.below(2) {
        // sometimes drop the balance of an asset (adversarial: panics when an instrument needs it)
        if adversarial && r.chance(1, 10) {
            continue;
        }
        let free = gen_balance(r, c);
        let total = if adversarial && r.chance(1, 10) { free + mk_dec(r.range(1, 100), 2) } else { free };
        balances.push(BalIn { asset: a, total, free, t: r.range(0, 1000) });
    }
    // a few pre-existing orders carried by the initial snapshot
    let mut open = vec![];
    let mut canc = vec![];
    let n_orders = if r.chance(1, 3) { r.below(4) } else { 0 };
    for k in 0..n_orders {
        let o = OrdIn {
            cid: 1000 + k,
            instr: if r.chance(3, 4) && !instruments.is_empty() { r.pick(&instruments).0 } else { 50 + r.below(3) },
            strategy: r.below(3),
            buy: r.chance(1, 2),
            price: gen_price(r, c),
            qty: gen_qty(r, c),
            market: r.chance(1, 4),
            tif: r.below(5),
            id: 5000 + r.below(100),
            t: r.range(0, 1000),
            filled: Decimal::ZERO,
        };
        if r.chance(2, 3) {
            open.push(OrdIn { filled: if r.chance(1, 2) { Decimal::ZERO } else { o.qty * mk_dec(5, 1) }, ..o });
        } else {
            canc.push(o);
        }
    }
    Setup {
        exchange: r.below(3),
        fee,
        latency: *r.pick(&[0u64, 1, 2, 5, 7, 10, 100, 251]),
        seq0: if r.chance(1, 4) { r.below(1_000_000) } else { 0 },
        instruments,
        kinds,
        balances,
        open,
        canc,
    }
}

struct ReqGen {
    next_cid: u64,
}

impl ReqGen {
    fn gen_req(
        &mut self,
        r: &mut Rng,
        s: &Setup,
        sh: &Shadow,
        c: Cls,
        adversarial: bool,
        no_aim: Option<u64>,
    ) -> Req {
        self.next_cid += 1;
        let known = !s.instruments.is_empty() && !r.chance(1, 12);
        let instr = if known { r.pick(&s.instruments).0 } else { 90 + r.below(5) };
        let mut req = Req {
            instr,
            strategy: r.below(3),
            cid: self.next_cid,
            buy: r.chance(1, 2),
            price: gen_price(r, c),
            qty: gen_qty(r, c),
            market: !r.chance(1, 12),
            tif: r.below(5),
        };
        // aim at the funds boundary: required == balance exactly, one ulp more, one ulp less
        if known && r.chance(1, 3) {
            if let Some(a) = sh.spent(&Req { market: true, ..req.clone() }) {
                if let Some(bal) = sh.bal.get(&a).copied().filter(|_| Some(a) != no_aim) {
                    if bal > Decimal::ZERO {
                        let one_f = Decimal::ONE + sh.fee;
                        let inv_f = match one_f.to_string().as_str() {
                            "1" => Some(Decimal::ONE),
                            "1.25" => Some(mk_dec(8, 1)),
                            "1.5" => None,
                            "2" => Some(mk_dec(5, 1)),
                            _ => None,
                        };
                        if let Some(inv_f) = inv_f {
                            let (p, inv_p) = *r.pick(&[
                                (mk_dec(1, 0), mk_dec(1, 0)),
                                (mk_dec(2, 0), mk_dec(5, 1)),
                                (mk_dec(4, 0), mk_dec(25, 2)),
                                (mk_dec(5, 1), mk_dec(2, 0)),
                                (mk_dec(25, 2), mk_dec(4, 0)),
                                (mk_dec(10, 0), mk_dec(1, 1)),
                            ]);
                            let q = if req.buy { bal * inv_f * inv_p } else { bal * inv_f };
                            if q.scale() <= 12 && c != Cls::Huge || (c == Cls::Huge && q.scale() <= 3) {
                                if req.buy {
                                    req.price = p;
                                }
                                let u = ulp_of(q);
                                req.qty = match r.below(4) {
                                    0 | 1 => q,
                                    2 => q + u,
                                    _ => {
                                        if q > u {
                                            q - u
                                        } else {
                                            q
                                        }
                                    }
                                };
                            }
                        }
                    }
                }
            }
        }
        if !fits(&req, sh.fee) {
            req.price = mk_dec(r.range(1, 1000), 0);
        }
        if !fits(&req, sh.fee) {
            req.qty = gen_qty(r, c);
        }
        assert!(fits(&req, sh.fee));
        if r.chance(1, 25) {
            req.qty = Decimal::ZERO;
        }
        if r.chance(1, 25) {
            req.price = Decimal::ZERO;
        }
        if adversarial {
            if r.chance(1, 8) {
                req.qty = -req.qty;
            }
            if r.chance(1, 12) {
                req.price = -req.price;
            }
        }
        req
    }
}

/// make one asset's initial balance exactly the sum (+/- one ulp) of what the first k orders
/// spending it need, so that an order meets `required == balance` for arbitrary fee percentages
fn boundary_by_init(r: &mut Rng, s: &mut Setup, reqs: &[&Req]) -> Option<&'static str> {
    let sh = Shadow::of(s);
    let spenders: Vec<(u64, Decimal)> = reqs
        .iter()
        .filter_map(|q| sh.spent(q).map(|a| (a, sh.need(q))))
        .filter(|(_, need)| *need > Decimal::ZERO)
        .collect();
    if spenders.is_empty() {
        return None;
    }
    let target = r.pick(&spenders).0;
    let needs: Vec<Decimal> = spenders.iter().filter(|x| x.0 == target).map(|x| x.1).collect();
    let k = 1 + r.below(needs.len() as u64) as usize;
    let sum: Decimal = needs[..k].iter().copied().sum();
    let (delta, tag) = match r.below(3) {
        0 => (Decimal::ZERO, "boundary:init_exact"),
        1 => (ulp_of(sum), "boundary:init_one_ulp_more"),
        _ => (-ulp_of(sum), "boundary:init_one_ulp_short"),
    };
    let v = sum + delta;
    if v < Decimal::ZERO {
        return None;
    }
    let b = s.balances.iter_mut().find(|b| b.asset == target)?;
    if b.total != b.free {
        return None;
    }
    b.total = v;
    b.free = v;
    Some(tag)
}

/// Static exactness guard: every value the exchange can form on this case (balances, order
/// values, fees, their sums and differences) is a multiple of 10^-S bounded by B; if
/// B * 10^S stays well below 2^96 rust_decimal neither rounds nor overflows, so the exact
/// rational model applies.  Cases failing the guard are regenerated.
fn exact_safe(s: &Setup, reqs: &[&Req]) -> bool {
    let mut scale = s.balances.iter().map(|b| b.free.scale().max(b.total.scale())).max().unwrap_or(0);
    let mut bound = s
        .balances
        .iter()
        .map(|b| b.free.abs().max(b.total.abs()).to_f64().unwrap_or(f64::INFINITY))
        .fold(0f64, f64::max);
    for q in reqs {
        scale = scale.max(q.price.scale() + q.qty.scale() + s.fee.scale());
        let p = q.price.abs().to_f64().unwrap_or(f64::INFINITY).max(1.0);
        let v = p * q.qty.abs().to_f64().unwrap_or(f64::INFINITY) * (1.0 + s.fee.abs().to_f64().unwrap_or(f64::INFINITY));
        bound += v;
    }
    scale <= 24 && bound * 10f64.powi(scale as i32) < 2.0e28
}

fn gen_direct_case(r: &mut Rng, max_ops: u64, adversarial: bool) -> (Setup, Vec<DOp>, Vec<&'static str>) {
    loop {
        let (s, ops, extra) = gen_direct_case_once(r, max_ops, adversarial);
        let reqs: Vec<&Req> = ops.iter().filter_map(|o| if let DOp::Open(q) = o { Some(q) } else { None }).collect();
        if exact_safe(&s, &reqs) {
            return (s, ops, extra);
        }
    }
}

fn gen_direct_case_once(r: &mut Rng, max_ops: u64, adversarial: bool) -> (Setup, Vec<DOp>, Vec<&'static str>) {
    let c = *r.pick(&[Cls::Normal, Cls::Normal, Cls::Normal, Cls::Tiny, Cls::Huge]);
    let mut s = gen_setup(r, c, adversarial);
    let mut sh = Shadow::of(&s);
    let by_init = r.chance(1, 3);
    let init_asset_rich = if by_init { s.balances.first().map(|b| b.asset) } else { None };
    if let Some(a) = init_asset_rich {
        // generate as if this asset were plentiful; its real initial balance is fixed afterwards
        let rich = match c {
            Cls::Huge => Decimal::from_i128_with_scale(10i128.pow(21), 0),
            Cls::Normal => mk_dec(1_000_000_000_000, 0),
            Cls::Tiny => mk_dec(1_000_000, 0),
        };
        sh.bal.insert(a, rich);
    }
    let mut g = ReqGen { next_cid: 0 };
    let n_ops = 1 + r.below(max_ops);
    let mut ops = vec![];
    let mut now = 0i64;
    for _ in 0..n_ops {
        if r.chance(2, 3) {
            now = if adversarial && r.chance(1, 5) { r.range(0, 5000) } else { now + r.range(0, 500) };
            ops.push(DOp::SetTime(now));
        }
        if r.chance(1, 10) {
            ops.push(DOp::AccTime(now + r.range(-5, 5)));
        }
        let req = g.gen_req(r, &s, &sh, c, adversarial, init_asset_rich);
        sh.apply(&req);
        ops.push(DOp::Open(req));
    }
    let mut extra = vec![match c {
        Cls::Normal => "magnitude:normal",
        Cls::Tiny => "magnitude:tiny",
        Cls::Huge => "magnitude:huge",
    }];
    if by_init {
        let reqs: Vec<&Req> = ops.iter().filter_map(|o| if let DOp::Open(q) = o { Some(q) } else { None }).collect();
        // only orders spending the "rich" asset were generated without looking at its balance
        let reqs: Vec<&Req> = reqs
            .into_iter()
            .filter(|q| Shadow::of(&s).spent(q) == init_asset_rich)
            .collect();
        if let Some(t) = boundary_by_init(r, &mut s, &reqs) {
            extra.push(t);
        }
    }
    (s, ops, extra)
}

fn gen_run_case(r: &mut Rng, max_reqs: u64, adversarial: bool) -> (Setup, Vec<Vec<RReq>>, Vec<&'static str>) {
    loop {
        let (s, batches, extra) = gen_run_case_once(r, max_reqs, adversarial);
        let reqs: Vec<&Req> = batches
            .iter()
            .flatten()
            .filter_map(|q| if let RKind::Open(x) = &q.kind { Some(x) } else { None })
            .collect();
        if exact_safe(&s, &reqs) {
            return (s, batches, extra);
        }
    }
}

fn gen_run_case_once(r: &mut Rng, max_reqs: u64, adversarial: bool) -> (Setup, Vec<Vec<RReq>>, Vec<&'static str>) {
    let c = *r.pick(&[Cls::Normal, Cls::Normal, Cls::Normal, Cls::Tiny, Cls::Huge]);
    // an account the exchange task panics on ends the run: keep that rare
    let panicky = adversarial && r.chance(1, 3);
    let mut s = gen_setup(r, c, panicky);
    let mut sh = Shadow::of(&s);
    let by_init = r.chance(1, 3);
    let init_asset_rich = if by_init { s.balances.first().map(|b| b.asset) } else { None };
    if let Some(a) = init_asset_rich {
        let rich = match c {
            Cls::Huge => Decimal::from_i128_with_scale(10i128.pow(21), 0),
            Cls::Normal => mk_dec(1_000_000_000_000, 0),
            Cls::Tiny => mk_dec(1_000_000, 0),
        };
        sh.bal.insert(a, rich);
    }
    let mut g = ReqGen { next_cid: 0 };
    let n = 1 + r.below(max_reqs);
    let mut batches: Vec<Vec<RReq>> = vec![];
    let mut now = r.range(0, 1000);
    let mut left = n;
    let mut seen_times: Vec<i64> = vec![];
    // request times reaching the exchange are NOT monotone in practice: a first-class dimension.
    // 0 monotone, 1 jitter (small steps back and forth, ties), 2 wild (anywhere, ties, big jumps back)
    let time_mode = if adversarial { 1 + r.below(2) } else { r.below(3) };
    while left > 0 {
        let size = if r.chance(1, 4) { 1 + r.below(4.min(left)) } else { 1 };
        let mut batch = vec![];
        for _ in 0..size {
            now = match time_mode {
                0 => now + r.range(0, 400),
                1 => match r.below(6) {
                    0 => now,                                  // tie
                    1 | 2 => (now - r.range(1, 300)).max(0),   // small step back
                    _ => now + r.range(0, 400),
                },
                _ => match r.below(6) {
                    0 => now,
                    1 if !seen_times.is_empty() => *r.pick(&seen_times), // tie with an earlier order
                    2 => (now - r.range(300, 4000)).max(0),    // large step back
                    _ => r.range(0, 5000),
                },
            };
            let kind = match r.below(20) {
                0 | 1 => RKind::Snapshot,
                2 => RKind::Balances,
                3 => RKind::Orders,
                4 | 5 => {
                    // aim at the exchange time of an earlier request (boundary of `>=`), +/- 1 ms
                    if !seen_times.is_empty() && r.chance(2, 3) {
                        let base = *r.pick(&seen_times) + (s.latency / 2) as i64;
                        RKind::Trades(base + r.range(-1, 1))
                    } else {
                        RKind::Trades(now + r.range(-600, 200))
                    }
                }
                6 => RKind::Cancel,
                _ => {
                    let req = g.gen_req(r, &s, &sh, c, adversarial, init_asset_rich);
                    sh.apply(&req);
                    RKind::Open(req)
                }
            };
            if matches!(kind, RKind::Open(_)) {
                seen_times.push(now);
            }
            let beh = match r.below(8) {
                0 => Beh::Drop,
                1 if s.latency > 0 => Beh::GiveUp(r.below(s.latency)),
                1 => Beh::Drop,
                _ => Beh::Await,
            };
            batch.push(RReq { t: now, kind, beh, nosub: false });
        }
        left -= size;
        batches.push(batch);
    }
    // a sweep of fetch_trades(since) around EVERY stored fill time: one ms before, equal, one ms
    // after, plus before all / after all; the queries' own request times wander as well
    if seen_times.len() >= 2 && r.chance(2, 3) {
        let half = (s.latency / 2) as i64;
        let mut sinces: Vec<i64> = vec![];
        for t in &seen_times {
            sinces.extend([t + half - 1, t + half, t + half + 1]);
        }
        sinces.push(seen_times.iter().min().unwrap() + half - 1000);
        sinces.push(seen_times.iter().max().unwrap() + half + 1000);
        r.shuffle(&mut sinces);
        sinces.truncate(8);
        for since in sinces {
            now = match time_mode {
                0 => now + r.range(0, 50),
                _ => (now + r.range(-400, 400)).max(0),
            };
            batches.push(vec![RReq { t: now, kind: RKind::Trades(since), beh: Beh::Await, nosub: false }]);
        }
    }
    let mut extra = vec![match c {
        Cls::Normal => "magnitude:normal",
        Cls::Tiny => "magnitude:tiny",
        Cls::Huge => "magnitude:huge",
    }];
    // subscriber dimension: the account-event receiver is held throughout / dropped at a random
    // point / never taken / absent for a stretch and taken (again) later
    let nb = batches.len();
    let (lo, hi, sub_tag) = match r.below(8) {
        0 => (r.below(nb as u64) as usize, nb, "run:subs:dropped_midway"),
        1 => (0, nb, "run:subs:never"),
        2 => {
            let a = r.below(nb as u64) as usize;
            (a, a + 1 + r.below((nb - a) as u64) as usize, "run:subs:resubscribed_later")
        }
        3 => (0, 1 + r.below(nb as u64) as usize, "run:subs:late_first_subscription"),
        _ => (0, 0, "run:subs:held"),
    };
    for batch in batches[lo..hi.min(nb)].iter_mut() {
        for rq in batch.iter_mut() {
            rq.nosub = true;
            if matches!(rq.kind, RKind::Open(_)) {
                // unheard orders are only known through their response
                rq.beh = Beh::Await;
            }
        }
    }
    extra.push(sub_tag);
    extra.push(match time_mode {
        0 => "run:times:monotone",
        1 => "run:times:jitter",
        _ => "run:times:wild",
    });
    if by_init {
        let base = Shadow::of(&s);
        let reqs: Vec<&Req> = batches
            .iter()
            .flatten()
            .filter_map(|q| if let RKind::Open(x) = &q.kind { Some(x) } else { None })
            .filter(|q| base.spent(q) == init_asset_rich)
            .collect();
        if let Some(t) = boundary_by_init(r, &mut s, &reqs) {
            extra.push(t);
        }
    }
    (s, batches, extra)
}

/// Exhaustive single-order table over the abstract domain open_order's control flow depends on:
/// kind x instrument known x side x (balance - required in {-ulp, 0, +ulp, +much, fine ulp}) x
/// fee {0, >0} x price {0, >0} x quantity {0, >0, <0} x account shape {ok, total != free on the
/// spent asset, total != free elsewhere, spent asset has no balance}.
fn table(em: &mut Emitter) {
    // i0: a0/a1 perpetual (contract size 0.01, settled in the quote), i1: a2/a1 option (shares the
    // quote; contract size 100), i2: a1/a0 future (i0 reversed; contract size 100, settled in a2),
    // i10: a0/a1 spot (same pair as i0, name sharing its prefix)
    let instruments = vec![(0u64, 0u64, 1u64), (1, 2, 1), (2, 1, 0), (10, 0, 1)];
    let kinds = vec![
        KindIn { kind: 1, cs: mk_dec(1, 2), settle: 1 },
        KindIn { kind: 3, cs: mk_dec(100, 0), settle: 1 },
        KindIn { kind: 2, cs: mk_dec(100, 0), settle: 2 },
        KindIn::spot(),
    ];
    let other = mk_dec(777, 1);
    let mut cid = 0;
    for market in [true, false] {
        for known in [true, false] {
            for buy in [true, false] {
                for fee in [Decimal::ZERO, mk_dec(25, 3)] {
                    for price in [Decimal::ZERO, mk_dec(12, 1)] {
                        for qty in [Decimal::ZERO, mk_dec(35, 1), mk_dec(-35, 1)] {
                            for shape in 0..4u32 {
                                for delta in 0..5u32 {
                                    // the error arms do not look at amounts: one amount class is enough
                                    if (!market || !known) && (delta != 1 || shape > 1 || qty.is_sign_negative()) {
                                        continue;
                                    }
                                    cid += 1;
                                    let instr = if known { *[0u64, 2, 10].get((cid % 3) as usize).unwrap() } else { 9 };
                                    let req = Req { instr, strategy: cid % 3, cid, buy, price, qty, market, tif: cid % 5 };
                                    let (b, q) = if instr == 2 { (1u64, 0u64) } else { (0, 1) };
                                    let spent = if buy { q } else { b };
                                    let v = if buy { price * qty.abs() } else { qty.abs() };
                                    let need = v + v * fee;
                                    let bal = match delta {
                                        0 => need - ulp_of(need),
                                        1 => need,
                                        2 => need + ulp_of(need),
                                        3 => need + mk_dec(1000, 0),
                                        _ => need - mk_dec(1, 12), // short by much less than the order's own ulp
                                    };
                                    if bal < Decimal::ZERO {
                                        continue;
                                    }
                                    let mut balances = vec![];
                                    for a in 0..3u64 {
                                        let free = if a == spent { bal } else { other };
                                        let total = match shape {
                                            1 if a == spent => free + mk_dec(1, 2),
                                            2 if a != spent => free + mk_dec(1, 2),
                                            _ => free,
                                        };
                                        if shape == 3 && a == spent {
                                            continue;
                                        }
                                        balances.push(BalIn { asset: a, total, free, t: 5 });
                                    }
                                    let s = Setup {
                                        exchange: cid % 3,
                                        fee,
                                        latency: 10,
                                        seq0: cid % 7,
                                        instruments: instruments.clone(),
                                        kinds: kinds.clone(),
                                        balances,
                                        open: vec![],
                                        canc: vec![],
                                    };
                                    let ops = vec![DOp::SetTime(100 + cid as i64), DOp::Open(req)];
                                    let tag = format!("table:delta{delta}:shape{shape}");
                                    emit_direct(em, "table", &s, &ops, &[tag.as_str()]);
                                }
                            }
                        }
                    }
                }
            }
        }
    }
}

fn exec_input(em: &mut Emitter, stream: &'static str, inp: &Value) {
    let s = setup_from(inp);
    if inp["mode"] == "run" {
        let batches: Vec<Vec<RReq>> = inp["batches"]
            .as_array()
            .unwrap()
            .iter()
            .map(|b| b.as_array().unwrap().iter().map(rreq_from).collect())
            .collect();
        // an emptied batch (shrinking) is dropped: a batch is at least one request
        let batches: Vec<Vec<RReq>> = batches.into_iter().filter(|b| !b.is_empty()).collect();
        emit_run(em, stream, &s, &batches, &[]);
    } else {
        let ops: Vec<DOp> = inp["ops"].as_array().unwrap().iter().map(dop_from).collect();
        emit_direct(em, stream, &s, &ops, &[]);
    }
}

fn main() {
    quiet_panics();
    let args = parse_args();
    let mut em = Emitter::create(&args.out);
    match args.mode.as_str() {
        "gen" => {
            let mut r = Rng::new(args.seed);
            let thorough = args.tier == "thorough";
            let (n_direct, n_direct_adv, n_run, n_run_adv, max_ops, max_reqs) =
                if thorough { (1500, 600, 1500, 500, 30, 30) } else { (260, 120, 220, 80, 14, 12) };
            table(&mut em);
            for _ in 0..n_direct {
                let (s, ops, extra) = gen_direct_case(&mut r, max_ops, false);
                emit_direct(&mut em, "random", &s, &ops, &extra);
            }
            for _ in 0..n_direct_adv {
                let (s, ops, extra) = gen_direct_case(&mut r, max_ops, true);
                emit_direct(&mut em, "adversarial", &s, &ops, &extra);
            }
            for _ in 0..n_run {
                let (s, batches, extra) = gen_run_case(&mut r, max_reqs, false);
                emit_run(&mut em, "random", &s, &batches, &extra);
            }
            for _ in 0..n_run_adv {
                let (s, batches, extra) = gen_run_case(&mut r, max_reqs, true);
                emit_run(&mut em, "adversarial", &s, &batches, &extra);
            }
        }
        "exec" => {
            for (inp, stream) in read_inputs(args.input.as_deref().expect("--in")) {
                exec_input(&mut em, stream_static(&stream), &inp);
            }
        }
        m => panic!("unknown mode {m}"),
    }
    em.finish();
}
