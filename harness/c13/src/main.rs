//! C13 correspondence harness: for every (exchange connector, subscription kind) pair of the
//! dynamic stream builder that uses the generic `StatelessTransformer` (19 pairs; the two Binance
//! L2 pairs have their own transformer and belong to C06) it drives
//!   * the real `WebSocketSubMapper::map` on generated subscription sets (all three instrument
//!     data flavours: `MarketDataInstrument`, `Keyed<u64, MarketDataInstrument>`,
//!     `MarketInstrumentData<u64>`),
//!   * for Bitfinex additionally the real `BitfinexWebSocketSubValidator::validate` over a
//!     loop-back WebSocket against a simulated venue that answers the connector's own
//!     subscription requests with `subscribed` events carrying numeric channel ids,
//!   * the real `StatelessTransformer::{init, transform}` on payloads synthesised in the venue's
//!     documented JSON format (formats taken from the connectors' doc comments / unit tests) and
//!     deserialised into the connector's message type,
//! and prints inputs + observed outputs as Coq terms of type `case` (Corr/C13.v).
use barter_data::{
    Identifier,
    event::MarketEvent,
    exchange::{
        Connector, StreamSelector,
        binance::{book::l2::BinanceOrderBookL2Snapshot, futures::BinanceFuturesUsd, spot::BinanceSpot},
        bitfinex::Bitfinex,
        bitmex::Bitmex,
        bybit::{futures::BybitPerpetualsUsd, spot::BybitSpot},
        coinbase::Coinbase,
        gateio::{
            future::{GateioFuturesBtc, GateioFuturesUsd},
            option::GateioOptions,
            perpetual::{GateioPerpetualsBtc, GateioPerpetualsUsd},
            spot::GateioSpot,
        },
        kraken::Kraken,
        okx::Okx,
    },
    instrument::{InstrumentData, MarketInstrumentData},
    streams::builder::dynamic::validate_subscriptions,
    subscriber::{
        mapper::{SubscriptionMapper, WebSocketSubMapper},
        validator::SubscriptionValidator,
    },
    subscription::{
        Map, SubKind, Subscription, SubscriptionKind, SubscriptionMeta,
        book::{OrderBookEvent, OrderBookL1, OrderBooksL1, OrderBooksL2},
        exchange_supports_instrument_kind, exchange_supports_instrument_kind_sub_kind,
        liquidation::{Liquidation, Liquidations},
        trade::{PublicTrade, PublicTrades},
    },
    transformer::ExchangeTransformer,
};
use barter_instrument::{
    Keyed, Side,
    exchange::ExchangeId,
    instrument::{
        kind::option::{OptionExercise, OptionKind},
        market_data::{
            MarketDataInstrument,
            kind::{MarketDataFutureContract, MarketDataInstrumentKind, MarketDataOptionContract},
        },
    },
};
use barter_integration::{
    Transformer,
    protocol::StreamParser,
    stream::ExchangeStream,
    protocol::websocket::{WsMessage, connect},
};
use chrono::{DateTime, SecondsFormat, TimeZone, Utc};
use futures::{SinkExt, StreamExt};
use rust_decimal::Decimal;
use serde::Deserialize;
use serde_json::{Value, json};
use std::panic::AssertUnwindSafe;
use vh_common::*;

// ---------------------------------------------------------------------------------------------
// abstract inputs
// ---------------------------------------------------------------------------------------------

#[derive(Clone, Copy, PartialEq, Eq, Debug)]
enum Ex {
    BinanceSpot,
    BinanceFuturesUsd,
    Bitfinex,
    Bitmex,
    BybitSpot,
    BybitPerpetualsUsd,
    Coinbase,
    GateioSpot,
    GateioFuturesUsd,
    GateioFuturesBtc,
    GateioPerpetualsUsd,
    GateioPerpetualsBtc,
    GateioOptions,
    Kraken,
    Okx,
}
const ALL_EX: [Ex; 15] = [
    Ex::BinanceSpot,
    Ex::BinanceFuturesUsd,
    Ex::Bitfinex,
    Ex::Bitmex,
    Ex::BybitSpot,
    Ex::BybitPerpetualsUsd,
    Ex::Coinbase,
    Ex::GateioSpot,
    Ex::GateioFuturesUsd,
    Ex::GateioFuturesBtc,
    Ex::GateioPerpetualsUsd,
    Ex::GateioPerpetualsBtc,
    Ex::GateioOptions,
    Ex::Kraken,
    Ex::Okx,
];
impl Ex {
    fn name(self) -> String {
        format!("{:?}", self)
    }
    fn parse(s: &str) -> Ex {
        *ALL_EX.iter().find(|e| e.name() == s).expect("exchange")
    }
    fn is_gateio(self) -> bool {
        self.name().starts_with("Gateio")
    }
    fn is_binance(self) -> bool {
        self.name().starts_with("Binance")
    }
    fn is_bybit(self) -> bool {
        self.name().starts_with("Bybit")
    }
}

#[derive(Clone, Copy, PartialEq, Eq, Debug)]
enum Sk {
    Trades,
    L1,
    Liq,
}
impl Sk {
    fn name(self) -> String {
        match self {
            Sk::Trades => "PublicTrades",
            Sk::L1 => "OrderBooksL1",
            Sk::Liq => "Liquidations",
        }
        .to_string()
    }
    fn parse(s: &str) -> Sk {
        match s {
            "PublicTrades" => Sk::Trades,
            "OrderBooksL1" => Sk::L1,
            "Liquidations" => Sk::Liq,
            _ => panic!("sub kind {s}"),
        }
    }
}

/// the 19 (exchange, kind) pairs of `DynamicStreams::init` served by `StatelessTransformer`,
/// with the instrument kinds `exchange_supports_instrument_kind_sub_kind` accepts for them
/// (0 spot, 1 perpetual, 2 future, 3 option)
const PAIRS: [(Ex, Sk, &[u8]); 19] = [
    (Ex::BinanceSpot, Sk::Trades, &[0]),
    (Ex::BinanceSpot, Sk::L1, &[0]),
    (Ex::BinanceFuturesUsd, Sk::Trades, &[1]),
    (Ex::BinanceFuturesUsd, Sk::L1, &[1]),
    (Ex::BinanceFuturesUsd, Sk::Liq, &[1]),
    (Ex::Bitfinex, Sk::Trades, &[0]),
    (Ex::Bitmex, Sk::Trades, &[1]),
    (Ex::BybitSpot, Sk::Trades, &[0]),
    (Ex::BybitPerpetualsUsd, Sk::Trades, &[1]),
    (Ex::Coinbase, Sk::Trades, &[0]),
    (Ex::GateioSpot, Sk::Trades, &[0]),
    (Ex::GateioFuturesUsd, Sk::Trades, &[2]),
    (Ex::GateioFuturesBtc, Sk::Trades, &[2]),
    (Ex::GateioPerpetualsUsd, Sk::Trades, &[1]),
    (Ex::GateioPerpetualsBtc, Sk::Trades, &[1]),
    (Ex::GateioOptions, Sk::Trades, &[3]),
    (Ex::Kraken, Sk::Trades, &[0]),
    (Ex::Kraken, Sk::L1, &[0]),
    (Ex::Okx, Sk::Trades, &[0, 1, 2, 3]),
];

#[derive(Clone, Copy, PartialEq, Eq, Debug)]
enum Flavour {
    Plain, // MarketDataInstrument (key = the instrument itself)
    Keyed, // Keyed<u64, MarketDataInstrument>
    Named, // MarketInstrumentData<u64> (exchange name given verbatim)
}
impl Flavour {
    fn name(self) -> &'static str {
        match self {
            Flavour::Plain => "plain",
            Flavour::Keyed => "keyed",
            Flavour::Named => "named",
        }
    }
    fn parse(s: &str) -> Flavour {
        match s {
            "plain" => Flavour::Plain,
            "keyed" => Flavour::Keyed,
            "named" => Flavour::Named,
            _ => panic!("flavour {s}"),
        }
    }
}

#[derive(Clone, PartialEq, Eq, Debug)]
enum IK {
    Spot,
    Perp,
    Future(i64),
    Option { call: bool, expiry: i64, strike: String },
}
impl IK {
    fn to_json(&self) -> Value {
        match self {
            IK::Spot => json!({"t": "spot"}),
            IK::Perp => json!({"t": "perp"}),
            IK::Future(e) => json!({"t": "future", "expiry": e}),
            IK::Option { call, expiry, strike } => {
                json!({"t": "option", "call": call, "expiry": expiry, "strike": strike})
            }
        }
    }
    fn from_json(v: &Value) -> IK {
        match v["t"].as_str().unwrap() {
            "spot" => IK::Spot,
            "perp" => IK::Perp,
            "future" => IK::Future(v["expiry"].as_i64().unwrap()),
            "option" => IK::Option {
                call: v["call"].as_bool().unwrap(),
                expiry: v["expiry"].as_i64().unwrap(),
                strike: v["strike"].as_str().unwrap().to_string(),
            },
            t => panic!("instrument kind {t}"),
        }
    }
    fn coq(&self) -> String {
        match self {
            IK::Spot => "KSpot".into(),
            IK::Perp => "KPerp".into(),
            IK::Future(e) => format!("(KFuture {})", z(*e as i128)),
            IK::Option { call, expiry, strike } => format!(
                "(KOption {} {} {})",
                if *call { "Call" } else { "Put" },
                z(*expiry as i128),
                s(strike)
            ),
        }
    }
    fn real(&self) -> MarketDataInstrumentKind {
        match self {
            IK::Spot => MarketDataInstrumentKind::Spot,
            IK::Perp => MarketDataInstrumentKind::Perpetual,
            IK::Future(e) => MarketDataInstrumentKind::Future(MarketDataFutureContract {
                expiry: Utc.timestamp_millis_opt(*e).unwrap(),
            }),
            IK::Option { call, expiry, strike } => {
                MarketDataInstrumentKind::Option(MarketDataOptionContract {
                    kind: if *call { OptionKind::Call } else { OptionKind::Put },
                    exercise: OptionExercise::European,
                    expiry: Utc.timestamp_millis_opt(*expiry).unwrap(),
                    strike: strike.parse::<Decimal>().expect("strike"),
                })
            }
        }
    }
    fn tag(&self) -> &'static str {
        match self {
            IK::Spot => "spot",
            IK::Perp => "perpetual",
            IK::Future(_) => "future",
            IK::Option { .. } => "option",
        }
    }
}

#[derive(Clone, Debug)]
struct SubIn {
    key: u64,
    base: String,
    quote: String,
    name: String, // exchange name, used by the Named flavour only
    kind: IK,
}
impl SubIn {
    fn to_json(&self) -> Value {
        json!({"key": self.key, "base": self.base, "quote": self.quote, "name": self.name,
               "kind": self.kind.to_json()})
    }
    fn from_json(v: &Value) -> SubIn {
        SubIn {
            key: v["key"].as_u64().unwrap(),
            base: v["base"].as_str().unwrap().to_string(),
            quote: v["quote"].as_str().unwrap().to_string(),
            name: v["name"].as_str().unwrap().to_string(),
            kind: IK::from_json(&v["kind"]),
        }
    }
}

/// venue independent content of one trade / top-of-book / liquidation. Prices and amounts are
/// in quarter units (x/4: exact in f64 and Decimal). Amounts are magnitudes (> 0); venues that
/// encode the side in the sign of the amount get the sign from `sell`.
#[derive(Clone, Debug)]
struct ItemIn {
    sym: String,
    id: String,
    time: Option<i64>,
    /// microseconds within the millisecond, for venues whose wire format states them (Kraken's
    /// fractional epoch seconds, Coinbase's RFC 3339 times); 0 elsewhere
    us: i64,
    sell: bool,
    price: i64,
    amount: i64,
    price2: i64,
    amount2: i64,
}
impl ItemIn {
    fn zero() -> ItemIn {
        ItemIn { sym: String::new(), id: String::new(), time: None, us: 0, sell: false, price: 0, amount: 0, price2: 0, amount2: 0 }
    }
    fn to_json(&self) -> Value {
        json!({"sym": self.sym, "id": self.id, "time": self.time, "us": self.us, "sell": self.sell,
               "price": self.price, "amount": self.amount, "price2": self.price2, "amount2": self.amount2})
    }
    fn from_json(v: &Value) -> ItemIn {
        ItemIn {
            sym: v["sym"].as_str().unwrap().to_string(),
            id: v["id"].as_str().unwrap().to_string(),
            time: v["time"].as_i64(),
            us: v.get("us").and_then(|x| x.as_i64()).unwrap_or(0),
            sell: v["sell"].as_bool().unwrap(),
            price: v["price"].as_i64().unwrap(),
            amount: v["amount"].as_i64().unwrap(),
            price2: v["price2"].as_i64().unwrap(),
            amount2: v["amount2"].as_i64().unwrap(),
        }
    }
    fn coq(&self) -> String {
        format!(
            "(mkItem {} {} {} {} {} {} {} {})",
            s(&self.sym),
            s(&self.id),
            // exchange times are compared in MICROSECONDS
            opt(self.time.map(|t| z(t as i128 * 1000 + self.us as i128))),
            if self.sell { "Sell" } else { "Buy" },
            z(self.price as i128),
            z(self.amount as i128),
            z(self.price2 as i128),
            z(self.amount2 as i128)
        )
    }
}

#[derive(Clone, Debug)]
enum MsgIn {
    /// heartbeat / pong / event / Bitfinex "tu": carries no subscription id
    Ctl(u64),
    /// chan: channel / table / topic prefix as carried in the payload (ignored where the venue's
    /// payload has none); sym: envelope level symbol (Okx arg.instId, Bybit topic suffix, Kraken
    /// pair); cid: Bitfinex channel id
    Data { chan: String, sym: String, cid: u64, items: Vec<ItemIn> },
}
impl MsgIn {
    fn to_json(&self) -> Value {
        match self {
            MsgIn::Ctl(v) => json!({"ctl": v}),
            MsgIn::Data { chan, sym, cid, items } => json!({"chan": chan, "sym": sym, "cid": cid,
                "items": items.iter().map(|i| i.to_json()).collect::<Vec<_>>()}),
        }
    }
    fn from_json(v: &Value) -> MsgIn {
        if let Some(c) = v.get("ctl").and_then(|c| c.as_u64()) {
            MsgIn::Ctl(c)
        } else {
            MsgIn::Data {
                chan: v["chan"].as_str().unwrap().to_string(),
                sym: v["sym"].as_str().unwrap().to_string(),
                cid: v["cid"].as_u64().unwrap(),
                items: v["items"].as_array().unwrap().iter().map(ItemIn::from_json).collect(),
            }
        }
    }
    fn coq(&self) -> String {
        match self {
            MsgIn::Ctl(v) => format!("(MControl {})", n(*v as u128)),
            MsgIn::Data { chan, sym, cid, items } => format!(
                "(MData {} {} {} {})",
                s(chan),
                s(sym),
                n(*cid as u128),
                list(&items.iter().map(|i| i.coq()).collect::<Vec<_>>())
            ),
        }
    }
}

#[derive(Clone, Debug)]
struct CaseIn {
    ex: Ex,
    sk: Sk,
    flavour: Flavour,
    subs: Vec<SubIn>,
    /// Bitfinex only: channel ids the simulated venue hands out, in order of the distinct
    /// (channel, symbol) subscription requests it receives
    bfx_cids: Vec<u64>,
    /// Bitfinex only: unsolicited confirmations (symbol, channel id) for markets nobody asked
    /// for, sent by the simulated venue before the real ones (the validator must ignore them)
    bfx_extra: Vec<(String, u64)>,
    msgs: Vec<MsgIn>,
}
impl CaseIn {
    fn to_json(&self) -> Value {
        json!({"exch": self.ex.name(), "sk": self.sk.name(), "flavour": self.flavour.name(),
               "subs": self.subs.iter().map(|s| s.to_json()).collect::<Vec<_>>(),
               "bfx_cids": self.bfx_cids,
               "bfx_extra": self.bfx_extra.iter().map(|(a, b)| json!([a, b])).collect::<Vec<_>>(),
               "msgs": self.msgs.iter().map(|m| m.to_json()).collect::<Vec<_>>()})
    }
    fn from_json(v: &Value) -> CaseIn {
        CaseIn {
            ex: Ex::parse(v["exch"].as_str().unwrap()),
            sk: Sk::parse(v["sk"].as_str().unwrap()),
            flavour: Flavour::parse(v["flavour"].as_str().unwrap()),
            subs: v["subs"].as_array().unwrap().iter().map(SubIn::from_json).collect(),
            bfx_cids: v["bfx_cids"].as_array().map(|a| a.iter().map(|x| x.as_u64().unwrap()).collect()).unwrap_or_default(),
            bfx_extra: v
                .get("bfx_extra")
                .and_then(|a| a.as_array())
                .map(|a| a.iter().map(|x| (x[0].as_str().unwrap().to_string(), x[1].as_u64().unwrap())).collect())
                .unwrap_or_default(),
            msgs: v["msgs"].as_array().unwrap().iter().map(MsgIn::from_json).collect(),
        }
    }
}

// ---------------------------------------------------------------------------------------------
// venue payload synthesis (formats as documented in the connectors' doc comments and tests)
// ---------------------------------------------------------------------------------------------

fn q4(q: i64) -> String {
    let sign = if q < 0 { "-" } else { "" };
    let a = q.abs();
    format!("{}{}.{:02}", sign, a / 4, (a % 4) * 25)
}
/// quarter value as text in one of the shapes venues use: plain ("12.25"), eight decimals
/// ("12.25000000"), integer form when integral ("12")
fn q4v(q: i64, shape: u8) -> String {
    match shape {
        1 => format!("{}000000", q4(q)),
        2 if q % 4 == 0 => format!("{}", q / 4),
        _ => q4(q),
    }
}
/// integer form when integral ("12"), else plain
fn q4n(q: i64) -> String {
    if q % 4 == 0 { format!("{}", q / 4) } else { q4(q) }
}
fn q4n_num(q: i64) -> Value {
    serde_json::from_str::<Value>(&q4n(q)).unwrap()
}
fn q4_num(q: i64) -> Value {
    serde_json::from_str::<Value>(&q4(q)).unwrap()
}
fn rfc3339(ms: i64) -> String {
    Utc.timestamp_millis_opt(ms).unwrap().to_rfc3339_opts(SecondsFormat::Millis, true)
}
/// RFC 3339 with microseconds (Coinbase: "2014-11-07T08:19:27.028459Z")
fn rfc3339_us(ms: i64, us: i64) -> String {
    (Utc.timestamp_millis_opt(ms).unwrap() + chrono::Duration::microseconds(us)).to_rfc3339_opts(SecondsFormat::Micros, true)
}
/// fractional epoch seconds with microseconds (Kraken: "1534614057.321597")
fn secs_frac(ms: i64, us: i64) -> String {
    format!("{}.{:03}{:03}", ms / 1000, ms % 1000, us)
}
fn num_id(id: &str) -> u64 {
    id.parse::<u64>().unwrap_or(0)
}

fn payload(ex: Ex, sk: Sk, m: &MsgIn) -> String {
    match m {
        MsgIn::Ctl(v) => match ex {
            Ex::Bitfinex => {
                if v % 2 == 0 {
                    format!("[{},\"hb\"]", 400000 + v)
                } else {
                    format!("[{},\"tu\",[1225484398,1665452200022,-0.25,19027.25]]", 400000 + v)
                }
            }
            Ex::BybitSpot | Ex::BybitPerpetualsUsd => {
                if v % 2 == 0 {
                    r#"{"success":true,"ret_msg":"pong","conn_id":"0970e817-426e-429a-a679-ff7f55e0b16a","op":"ping"}"#.to_string()
                } else {
                    r#"{"success":true,"ret_msg":"subscribe","conn_id":"2324d924-aa4d-45b0-a858-7b8be29ab52b","req_id":"10001","op":"subscribe"}"#.to_string()
                }
            }
            Ex::Kraken => {
                if v % 2 == 0 {
                    r#"{"event": "heartbeat"}"#.to_string()
                } else {
                    r#"{"errorMessage": "Malformed request", "event": "error"}"#.to_string()
                }
            }
            // the other connectors' message types have no control variant: an empty batch is
            // the closest thing (handled as Data with no items); here: not deserialisable
            _ => r#"{"event":"heartbeat"}"#.to_string(),
        },
        MsgIn::Data { chan, sym, cid, items } => {
            // Every field of the venue payload that the normaliser must NOT use carries a decoy:
            // a value different from every value it must use (prices / quantities above all used
            // ones, times at least a second away, other ids, the opposite boolean), so that a
            // normaliser reading a neighbouring field (event time instead of trade time, filled
            // instead of ordered quantity, average instead of order price ...) is observed. The
            // designated fields are the ones the venue documentation / the connectors' own doc
            // comments and tests name. The textual shape of numbers varies per item (plain, eight
            // decimals, integer form) within what the venue sends.
            let first = items.first();
            let t0 = first.and_then(|i| i.time).unwrap_or(1_700_000_000_000);
            let dq = |it: &ItemIn, k: i64| it.price.max(it.amount).max(it.price2).max(it.amount2) + 3 + 17 * k;
            let dt = |t: i64, k: i64| t + 1009 * (k + 1) + 1;
            let shape = |it: &ItemIn| ((it.price + 3 * it.amount + it.time.unwrap_or(0) / 7) % 3) as u8;
            let qs = |q: i64, sh: u8| q4v(q, sh);
            match (ex, sk) {
                (Ex::BinanceSpot | Ex::BinanceFuturesUsd, Sk::Trades) => {
                    let it = first.expect("single item");
                    let sh = shape(it);
                    if ex == Ex::BinanceSpot {
                        json!({"e":"trade","E":dt(t0,0),"s":it.sym,"t":num_id(&it.id),"p":qs(it.price,sh),"q":qs(it.amount,sh),
                               "b":num_id(&it.id)+1_000_003,"a":num_id(&it.id)+2_000_003,"T":t0,"m":it.sell,"M":!it.sell}).to_string()
                    } else {
                        json!({"e":"trade","E":dt(t0,0),"T":t0,"s":it.sym,"t":num_id(&it.id),"p":qs(it.price,sh),"q":qs(it.amount,sh),
                               "X":(["MARKET","LIQUIDATION","INSURANCE_FUND"][sh as usize]),"m":it.sell}).to_string()
                    }
                }
                (Ex::BinanceSpot | Ex::BinanceFuturesUsd, Sk::L1) => {
                    let it = first.expect("single item");
                    let sh = shape(it);
                    let mut v = json!({"u":22606535573u64 + dq(it,0) as u64,"s":it.sym,"b":qs(it.price,sh),"B":qs(it.amount,sh),
                                       "a":qs(it.price2,sh),"A":qs(it.amount2,sh)});
                    if let Some(t) = it.time {
                        v["e"] = json!("bookTicker");
                        v["T"] = json!(t);
                        v["E"] = json!(dt(t,0));
                    }
                    v.to_string()
                }
                (Ex::BinanceFuturesUsd, Sk::Liq) => {
                    // q = original quantity, p = price (designated); ap = average price,
                    // l = last filled, z = accumulated filled quantity, E = event time (decoys)
                    let it = first.expect("single item");
                    let sh = shape(it);
                    json!({"e":"forceOrder","E":dt(t0,0),"o":{"s":it.sym,"S":if it.sell {"SELL"} else {"BUY"},
                           "o":"LIMIT","f":"IOC","q":qs(it.amount,sh),"p":qs(it.price,sh),"ap":qs(dq(it,0),sh),
                           "X":(["PARTIALLY_FILLED","NEW","FILLED"][sh as usize]),"l":qs(dq(it,1),sh),"z":qs(dq(it,2),sh),"T":t0}}).to_string()
                }
                (Ex::Bitfinex, _) => {
                    // [CHANNEL_ID, "te", [ID, MTS, AMOUNT, PRICE]]; the connector must ignore
                    // trailing elements the venue may add
                    let it = first.expect("single item");
                    let signed = if it.sell { -it.amount } else { it.amount };
                    match shape(it) {
                        0 => format!("[{},\"te\",[{},{},{},{}]]", cid, num_id(&it.id), t0, q4n(signed), q4n(it.price)),
                        1 => format!("[{},\"te\",[{},{},{},{},{}]]", cid, num_id(&it.id), t0, q4(signed), q4(it.price), q4(dq(it,0))),
                        _ => format!("[{},\"te\",[{},{},{},{}],{}]", cid, num_id(&it.id), t0, q4n(signed), q4(it.price), dt(t0,0)),
                    }
                }
                (Ex::Bitmex, _) => json!({"table": chan, "action": "insert", "data": items.iter().map(|it| json!({
                        "timestamp": rfc3339(it.time.unwrap_or(t0)), "symbol": it.sym,
                        "side": if it.sell {"Sell"} else {"Buy"},
                        "size": if shape(it) == 0 { q4_num(it.amount) } else { q4n_num(it.amount) },
                        "price": if shape(it) == 1 { q4_num(it.price) } else { q4n_num(it.price) },
                        "tickDirection": "MinusTick", "trdMatchID": it.id, "grossValue": dq(it,0) * 25,
                        "homeNotional": q4_num(dq(it,1)), "foreignNotional": q4n_num(dq(it,2)), "trdType": "Regular"})).collect::<Vec<_>>()})
                    .to_string(),
                (Ex::BybitSpot | Ex::BybitPerpetualsUsd, _) => json!({"topic": format!("{chan}.{sym}"), "type": "snapshot",
                        "ts": dt(t0,0), "data": items.iter().enumerate().map(|(i, it)| json!({
                        "T": it.time.unwrap_or(t0), "s": it.sym, "S": if it.sell {"Sell"} else {"Buy"},
                        "v": qs(it.amount, shape(it)), "p": qs(it.price, shape(it)), "L": "PlusTick", "i": it.id,
                        "BT": !it.sell, "seq": dq(it, i as i64)})).collect::<Vec<_>>()})
                    .to_string(),
                (Ex::Coinbase, _) => {
                    let it = first.expect("single item");
                    json!({"type":"match","trade_id":num_id(&it.id),"sequence":num_id(&it.id) + 777,
                           "maker_order_id":"ac928c66-ca53-498f-9c13-a110027a60e8",
                           "taker_order_id":"132fb6ae-456b-4654-b4e0-d681ac05cea1",
                           "time": rfc3339_us(t0, it.us), "product_id": it.sym, "size": qs(it.amount, shape(it)), "price": qs(it.price, shape(it)),
                           "side": if it.sell {"sell"} else {"buy"}}).to_string()
                }
                (Ex::GateioSpot, _) => {
                    // create_time_ms (designated) vs create_time / time / time_ms (decoys)
                    let it = first.expect("single item");
                    let frac = ["", ".5", ".25"][(t0 % 3) as usize];
                    json!({"time": dt(t0,0)/1000, "time_ms": dt(t0,0), "channel": chan, "event": "update", "result": {
                           "id": num_id(&it.id), "create_time": dt(t0,1)/1000, "create_time_ms": format!("{t0}{frac}"),
                           "side": if it.sell {"sell"} else {"buy"}, "currency_pair": it.sym,
                           "amount": qs(it.amount, shape(it)), "price": qs(it.price, shape(it))}}).to_string()
                }
                (e, _) if e.is_gateio() => json!({"time": dt(t0,0)/1000, "time_ms": dt(t0,0), "channel": chan, "event": "update",
                        "result": items.iter().map(|it| {
                        let signed = if it.sell { -it.amount } else { it.amount };
                        json!({
                        "size": if shape(it) == 0 { q4_num(signed) } else { q4n_num(signed) }, "id": num_id(&it.id),
                        "create_time": dt(it.time.unwrap_or(t0),1)/1000, "create_time_ms": it.time.unwrap_or(t0),
                        "price": qs(it.price, shape(it)), "contract": it.sym})}).collect::<Vec<_>>()})
                    .to_string(),
                (Ex::Kraken, Sk::Trades) => json!([dq(items.first().unwrap_or(&ItemIn::zero()), 0), items.iter().map(|it| json!([
                        qs(it.price, shape(it) % 2), qs(it.amount, shape(it) % 2), secs_frac(it.time.unwrap_or(t0), it.us),
                        if it.sell {"s"} else {"b"}, if shape(it) == 0 {"l"} else {"m"}, ""])).collect::<Vec<_>>(), "trade", sym])
                    .to_string(),
                (Ex::Kraken, _) => {
                    // [bid, ask, timestamp, bidVolume, askVolume]
                    let it = first.expect("single item");
                    let sh = shape(it) % 2;
                    json!([dq(it,0), [qs(it.price,sh), qs(it.price2,sh), secs_frac(t0, it.us), qs(it.amount,sh), qs(it.amount2,sh)], "spread", sym])
                        .to_string()
                }
                (Ex::Okx, _) => json!({"arg": {"channel": chan, "instId": sym}, "data": items.iter().enumerate().map(|(i, it)| json!({
                        "instId": it.sym, "tradeId": it.id, "px": qs(it.price, shape(it)), "sz": qs(it.amount, shape(it)),
                        "side": if it.sell {"sell"} else {"buy"}, "ts": it.time.unwrap_or(t0).to_string(),
                        "count": (dq(it, i as i64)).to_string()})).collect::<Vec<_>>()})
                    .to_string(),
                (e, k) => panic!("unsupported pair {e:?} {k:?}"),
            }
        }
    }
}

// ---------------------------------------------------------------------------------------------
// observation
// ---------------------------------------------------------------------------------------------

fn f64_q4(x: f64) -> String {
    let y = x * 4.0;
    if y.is_finite() && (y - y.round()).abs() < 1e-9 && y.abs() < 1e15 {
        z(y.round() as i128)
    } else {
        z(7_777_777_777_777_777) // sentinel: not a quarter value
    }
}
fn dec_q4(d: Decimal) -> String {
    let y = (d * Decimal::from(4)).normalize();
    if y.scale() == 0 { z(y.mantissa()) } else { z(7_777_777_777_777_777) }
}
fn side_coq(sd: Side) -> &'static str {
    match sd {
        Side::Buy => "Buy",
        Side::Sell => "Sell",
    }
}
fn time_coq(t: DateTime<Utc>, present: bool) -> String {
    // when the message carried no exchange time the connector stamps `Utc::now()`: not compared
    // microseconds, rounded to the nearest one: Kraken's fractional seconds go through an f64
    // (Duration::from_secs_f64), which is exact only to ~0.12 us at today's epoch; every other
    // venue's time must be a whole number of microseconds
    if !present {
        return "None".into();
    }
    let ns = t.timestamp_nanos_opt().unwrap_or(i64::MAX) as i128;
    opt(Some(z((ns + 500).div_euclid(1000))))
}

trait ObsBody {
    fn coq(&self, time_present: bool, norm_id: bool) -> String;
}
impl ObsBody for PublicTrade {
    fn coq(&self, _: bool, norm_id: bool) -> String {
        // Kraken carries no trade id; the connector makes one up from the other fields
        let id = if norm_id { "" } else { self.id.as_str() };
        format!("(BTrade {} {} {} {})", s(id), f64_q4(self.price), f64_q4(self.amount), side_coq(self.side))
    }
}
impl ObsBody for OrderBookL1 {
    fn coq(&self, tp: bool, _: bool) -> String {
        let lv = |l: &Option<barter_data::books::Level>| {
            opt(l.map(|l| pair(&dec_q4(l.price), &dec_q4(l.amount))))
        };
        format!("(BL1 {} {} {})", time_coq(self.last_update_time, tp), lv(&self.best_bid), lv(&self.best_ask))
    }
}
impl ObsBody for Liquidation {
    fn coq(&self, tp: bool, _: bool) -> String {
        format!("(BLiq {} {} {} {})", side_coq(self.side), f64_q4(self.price), f64_q4(self.quantity), time_coq(self.time, tp))
    }
}

fn exch_coq(id: ExchangeId) -> String {
    let d = format!("{:?}", id);
    if ALL_EX.iter().any(|e| e.name() == d) { d } else { "ExOther".into() }
}

static RETRIES_EXHAUSTED: std::sync::atomic::AtomicBool = std::sync::atomic::AtomicBool::new(false);
const UNIDENT_PREFIX: &str = "consumed unidentifiable message: ";

struct RunOut {
    /// instrument map handed to the transformer: (subscription id, key index), sorted
    map: Vec<(String, u64)>,
    /// Bitfinex: (channel, symbol, channel id) confirmations the simulated venue sent
    confs: Vec<(String, String, u64)>,
    outcomes: Vec<(String, &'static str)>, // (coq outcome, tag)
    note: Option<String>,
}

/// Simulated Bitfinex: answers the connector's own subscription requests.
async fn bitfinex_venue(
    listener: tokio::net::TcpListener,
    cids: Vec<u64>,
    extra: Vec<(String, u64)>,
) -> Vec<(String, String, u64)> {
    let (stream, _) = listener.accept().await.expect("accept");
    let mut ws = tokio_tungstenite::accept_async(stream).await.expect("ws accept");
    let mut reqs: Vec<(String, String)> = vec![];
    while let Some(Ok(m)) = ws.next().await {
        if let WsMessage::Text(t) = m {
            if t.as_str() == "END" {
                break;
            }
            let v: Value = serde_json::from_str(t.as_str()).expect("request json");
            assert_eq!(v["event"], "subscribe");
            let r = (v["channel"].as_str().unwrap().to_string(), v["symbol"].as_str().unwrap().to_string());
            if !reqs.contains(&r) {
                reqs.push(r);
            }
        }
    }
    ws.send(WsMessage::text(
        r#"{"event": "info", "version": 2, "serverId": "5b73a436-19ca-4a15-8160-9069bdd7f181", "platform": { "status": 1 }}"#,
    ))
    .await
    .expect("send info");
    let mut confs = vec![];
    for (sym, cid) in extra.iter().filter(|(sy, _)| !reqs.iter().any(|(_, r)| r == sy)) {
        confs.push(("trades".to_string(), sym.clone(), *cid));
        ws.send(WsMessage::text(
            json!({"event": "subscribed", "channel": "trades", "chanId": cid, "symbol": sym, "pair": &sym[sym.len().min(1)..]}).to_string(),
        ))
        .await
        .expect("send extra subscribed");
    }
    let n_extra = confs.len();
    for (i, (ch, sym)) in reqs.iter().enumerate() {
        // (a shrunk input may list fewer ids than there are requests)
        let cid = cids.get(i).copied().unwrap_or(900_000 + i as u64);
        confs.push((ch.clone(), sym.clone(), cid));
        ws.send(WsMessage::text(
            json!({"event": "subscribed", "channel": ch, "chanId": cid, "symbol": sym, "pair": &sym[sym.len().min(1)..]}).to_string(),
        ))
        .await
        .expect("send subscribed");
    }
    for (_, _, cid) in confs.iter().skip(n_extra) {
        // initial snapshot of the channel
        ws.send(WsMessage::text(format!("[{cid},[[1225484398,1665452200022,0.25,19027.25]]]")))
            .await
            .expect("send snapshot");
    }
    // keep the socket open until the client is done
    let _ = tokio::time::timeout(std::time::Duration::from_secs(20), ws.next()).await;
    confs
}

/// The transformer type a connector's `StreamSelector` wires to a (connector, kind) stream:
/// `<Exchange as StreamSelector<Instrument, Kind>>::Stream` is an
/// `ExchangeStream<Parser, WsStream, Transformer>`; `init_market_stream::<Exchange, ..>` (what
/// every arm of `DynamicStreams::init` calls) initialises exactly that type. The harness takes
/// the transformer (and through `Transformer::Input` the message type the payloads are
/// deserialised into) from there instead of naming it.
trait TransformerOf {
    type T;
}
impl<P, S, T> TransformerOf for ExchangeStream<P, S, T>
where
    P: StreamParser,
    S: futures::Stream,
    T: Transformer,
{
    type T = T;
}
type TrOf<Exc, Inst, Kind> = <<Exc as StreamSelector<Inst, Kind>>::Stream as TransformerOf>::T;

async fn run_g<Exc, Kind, Inst>(
    subs: Vec<Subscription<Exc, Inst, Kind>>,
    key_idx: &dyn Fn(&Inst::Key) -> u64,
    case: &CaseIn,
) -> RunOut
where
    Exc: Connector + StreamSelector<Inst, Kind> + Send + Sync,
    Kind: SubscriptionKind + Send + Sync,
    Inst: InstrumentData,
    Inst::Key: Clone + Send,
    Subscription<Exc, Inst, Kind>: Identifier<Exc::Channel> + Identifier<Exc::Market>,
    <Exc as StreamSelector<Inst, Kind>>::Stream: TransformerOf,
    TrOf<Exc, Inst, Kind>: ExchangeTransformer<Exc, Inst::Key, Kind>,
    <TrOf<Exc, Inst, Kind> as Transformer>::Input: for<'de> Deserialize<'de>,
    <TrOf<Exc, Inst, Kind> as Transformer>::OutputIter:
        IntoIterator<Item = Result<MarketEvent<Inst::Key, Kind::Event>, barter_data::error::DataError>>,
    Kind::Event: ObsBody,
{
    let SubscriptionMeta { instrument_map, ws_subscriptions } =
        WebSocketSubMapper::map::<Exc, Inst, Kind>(&subs);
    let mut note = None;
    let mut confs = vec![];
    let instrument_map: Map<Inst::Key> = if case.ex == Ex::Bitfinex {
        // the validator gives up after Connector::subscription_timeout() (10 s): on a heavily
        // loaded machine that is retried (twice, and only until one case exhausted its retries)
        // so that scheduling delays are not reported as behaviour of the code
        let mut attempt = 0;
        loop {
            attempt += 1;
            let listener = tokio::net::TcpListener::bind("127.0.0.1:0").await.expect("bind");
            let port = listener.local_addr().unwrap().port();
            let venue = tokio::spawn(bitfinex_venue(listener, case.bfx_cids.clone(), case.bfx_extra.clone()));
            let mut ws = connect(format!("ws://127.0.0.1:{port}")).await.expect("connect loopback");
            for m in ws_subscriptions.iter().cloned() {
                ws.send(m).await.expect("send request");
            }
            ws.send(WsMessage::text("END")).await.expect("send END");
            let res = Exc::SubValidator::validate::<Exc, Inst::Key, Kind>(Map(instrument_map.0.clone()), &mut ws).await;
            let _ = ws.close(None).await;
            confs = venue.await.expect("venue task");
            match res {
                Ok((m, _)) => break m,
                Err(e) => {
                    let retry = e.to_string().contains("timeout")
                        && attempt < 3
                        && !RETRIES_EXHAUSTED.load(std::sync::atomic::Ordering::Relaxed);
                    if retry {
                        continue;
                    }
                    RETRIES_EXHAUSTED.store(true, std::sync::atomic::Ordering::Relaxed);
                    note = Some(format!("validator error: {e}"));
                    break Map(Default::default());
                }
            }
        }
    } else {
        instrument_map
    };
    let mut map: Vec<(String, u64)> =
        instrument_map.0.iter().map(|(id, k)| (id.0.to_string(), key_idx(k))).collect();
    map.sort();

    let (tx, _rx) = tokio::sync::mpsc::unbounded_channel::<WsMessage>();
    let mut tr = <TrOf<Exc, Inst, Kind> as ExchangeTransformer<Exc, Inst::Key, Kind>>::init(instrument_map, &[], tx)
        .await
        .expect("transformer init");
    let norm_id = case.ex == Ex::Kraken;
    let mut outcomes = vec![];
    for m in &case.msgs {
        let text = payload(case.ex, case.sk, m);
        let time_present = match m {
            MsgIn::Data { items, .. } => items.first().map(|i| i.time.is_some()).unwrap_or(true),
            _ => true,
        };
        let res = std::panic::catch_unwind(AssertUnwindSafe(|| {
            serde_json::from_str::<<TrOf<Exc, Inst, Kind> as Transformer>::Input>(&text)
                .map(|msg| tr.transform(msg).into_iter().collect::<Vec<_>>())
        }));
        let out = match res {
            Err(_) => ("OPanic".to_string(), "panic"),
            Ok(Err(_)) => ("ODeser".to_string(), "deser_error"),
            Ok(Ok(v)) => {
                let mut tag = if v.is_empty() { "no_output" } else { "attributed" };
                let items: Vec<String> = v
                    .iter()
                    .map(|r| match r {
                        Ok(MarketEvent { time_exchange, exchange, instrument, kind, .. }) => format!(
                            "(OEv (mkEv {} {} {} {}))",
                            n(key_idx(instrument) as u128),
                            exch_coq(*exchange),
                            time_coq(*time_exchange, time_present),
                            kind.coq(time_present, norm_id)
                        ),
                        Err(e) => {
                            let txt = match e {
                                barter_data::error::DataError::Socket(t) => t.clone(),
                                other => other.to_string(),
                            };
                            if let Some(id) = txt.strip_prefix(UNIDENT_PREFIX) {
                                tag = "unidentifiable";
                                format!("(OUnident {})", s(id))
                            } else {
                                tag = "other_error";
                                format!("(OErr {})", s(&txt.replace(|c: char| !c.is_ascii(), "?")))
                            }
                        }
                    })
                    .collect();
                (format!("(OOut {})", list(&items)), tag)
            }
        };
        outcomes.push(out);
    }
    RunOut { map, confs, outcomes, note }
}

fn mdi(su: &SubIn) -> MarketDataInstrument {
    MarketDataInstrument::new(su.base.as_str(), su.quote.as_str(), su.kind.real())
}

async fn run_pair<Exc, Kind>(exc: Exc, kind: Kind, case: &CaseIn, keys: &[u64]) -> RunOut
where
    Exc: Connector
        + StreamSelector<MarketDataInstrument, Kind>
        + StreamSelector<Keyed<u64, MarketDataInstrument>, Kind>
        + StreamSelector<MarketInstrumentData<u64>, Kind>
        + Send
        + Sync
        + Clone,
    Kind: SubscriptionKind + Send + Sync + Clone,
    Kind::Event: ObsBody,
    Subscription<Exc, MarketDataInstrument, Kind>: Identifier<Exc::Channel> + Identifier<Exc::Market>,
    Subscription<Exc, Keyed<u64, MarketDataInstrument>, Kind>: Identifier<Exc::Channel> + Identifier<Exc::Market>,
    Subscription<Exc, MarketInstrumentData<u64>, Kind>: Identifier<Exc::Channel> + Identifier<Exc::Market>,
    <Exc as StreamSelector<MarketDataInstrument, Kind>>::Stream: TransformerOf,
    TrOf<Exc, MarketDataInstrument, Kind>: ExchangeTransformer<Exc, MarketDataInstrument, Kind>,
    <TrOf<Exc, MarketDataInstrument, Kind> as Transformer>::Input: for<'de> Deserialize<'de>,
    <TrOf<Exc, MarketDataInstrument, Kind> as Transformer>::OutputIter:
        IntoIterator<Item = Result<MarketEvent<MarketDataInstrument, Kind::Event>, barter_data::error::DataError>>,
    <Exc as StreamSelector<Keyed<u64, MarketDataInstrument>, Kind>>::Stream: TransformerOf,
    TrOf<Exc, Keyed<u64, MarketDataInstrument>, Kind>: ExchangeTransformer<Exc, u64, Kind>,
    <TrOf<Exc, Keyed<u64, MarketDataInstrument>, Kind> as Transformer>::Input: for<'de> Deserialize<'de>,
    <TrOf<Exc, Keyed<u64, MarketDataInstrument>, Kind> as Transformer>::OutputIter:
        IntoIterator<Item = Result<MarketEvent<u64, Kind::Event>, barter_data::error::DataError>>,
    <Exc as StreamSelector<MarketInstrumentData<u64>, Kind>>::Stream: TransformerOf,
    TrOf<Exc, MarketInstrumentData<u64>, Kind>: ExchangeTransformer<Exc, u64, Kind>,
    <TrOf<Exc, MarketInstrumentData<u64>, Kind> as Transformer>::Input: for<'de> Deserialize<'de>,
    <TrOf<Exc, MarketInstrumentData<u64>, Kind> as Transformer>::OutputIter:
        IntoIterator<Item = Result<MarketEvent<u64, Kind::Event>, barter_data::error::DataError>>,
{
    match case.flavour {
        Flavour::Plain => {
            let insts: Vec<MarketDataInstrument> = case.subs.iter().map(mdi).collect();
            let subs: Vec<Subscription<Exc, MarketDataInstrument, Kind>> =
                insts.iter().map(|i| Subscription::new(exc.clone(), i.clone(), kind.clone())).collect();
            let keys = keys.to_vec();
            let idx = move |k: &MarketDataInstrument| -> u64 {
                insts.iter().position(|i| i == k).map(|p| keys[p]).unwrap_or(999_999_999)
            };
            run_g::<Exc, Kind, MarketDataInstrument>(subs, &idx, case).await
        }
        Flavour::Keyed => {
            let subs: Vec<Subscription<Exc, Keyed<u64, MarketDataInstrument>, Kind>> = case
                .subs
                .iter()
                .map(|su| Subscription::new(exc.clone(), Keyed::new(su.key, mdi(su)), kind.clone()))
                .collect();
            run_g::<Exc, Kind, Keyed<u64, MarketDataInstrument>>(subs, &|k: &u64| *k, case).await
        }
        Flavour::Named => {
            let subs: Vec<Subscription<Exc, MarketInstrumentData<u64>, Kind>> = case
                .subs
                .iter()
                .map(|su| {
                    Subscription::new(
                        exc.clone(),
                        MarketInstrumentData { key: su.key, name_exchange: su.name.as_str().into(), kind: su.kind.real() },
                        kind.clone(),
                    )
                })
                .collect();
            run_g::<Exc, Kind, MarketInstrumentData<u64>>(subs, &|k: &u64| *k, case).await
        }
    }
}

/// key of each subscription as the model sees it: the given key for the keyed flavours; for the
/// plain flavour the instrument is its own key, so equal instruments share the (first) key
fn model_keys(case: &CaseIn) -> Vec<u64> {
    match case.flavour {
        Flavour::Plain => {
            let insts: Vec<MarketDataInstrument> = case.subs.iter().map(mdi).collect();
            insts.iter().map(|i| case.subs[insts.iter().position(|j| j == i).unwrap()].key).collect()
        }
        _ => case.subs.iter().map(|s| s.key).collect(),
    }
}

async fn run_case(case: &CaseIn) -> RunOut {
    let keys = model_keys(case);
    match (case.ex, case.sk) {
        (Ex::BinanceSpot, Sk::Trades) => run_pair(BinanceSpot::default(), PublicTrades, case, &keys).await,
        (Ex::BinanceSpot, Sk::L1) => run_pair(BinanceSpot::default(), OrderBooksL1, case, &keys).await,
        (Ex::BinanceFuturesUsd, Sk::Trades) => run_pair(BinanceFuturesUsd::default(), PublicTrades, case, &keys).await,
        (Ex::BinanceFuturesUsd, Sk::L1) => run_pair(BinanceFuturesUsd::default(), OrderBooksL1, case, &keys).await,
        (Ex::BinanceFuturesUsd, Sk::Liq) => run_pair(BinanceFuturesUsd::default(), Liquidations, case, &keys).await,
        (Ex::Bitfinex, Sk::Trades) => run_pair(Bitfinex, PublicTrades, case, &keys).await,
        (Ex::Bitmex, Sk::Trades) => run_pair(Bitmex, PublicTrades, case, &keys).await,
        (Ex::BybitSpot, Sk::Trades) => run_pair(BybitSpot::default(), PublicTrades, case, &keys).await,
        (Ex::BybitPerpetualsUsd, Sk::Trades) => run_pair(BybitPerpetualsUsd::default(), PublicTrades, case, &keys).await,
        (Ex::Coinbase, Sk::Trades) => run_pair(Coinbase, PublicTrades, case, &keys).await,
        (Ex::GateioSpot, Sk::Trades) => run_pair(GateioSpot::default(), PublicTrades, case, &keys).await,
        (Ex::GateioFuturesUsd, Sk::Trades) => run_pair(GateioFuturesUsd::default(), PublicTrades, case, &keys).await,
        (Ex::GateioFuturesBtc, Sk::Trades) => run_pair(GateioFuturesBtc::default(), PublicTrades, case, &keys).await,
        (Ex::GateioPerpetualsUsd, Sk::Trades) => run_pair(GateioPerpetualsUsd::default(), PublicTrades, case, &keys).await,
        (Ex::GateioPerpetualsBtc, Sk::Trades) => run_pair(GateioPerpetualsBtc::default(), PublicTrades, case, &keys).await,
        (Ex::GateioOptions, Sk::Trades) => run_pair(GateioOptions::default(), PublicTrades, case, &keys).await,
        (Ex::Kraken, Sk::Trades) => run_pair(Kraken, PublicTrades, case, &keys).await,
        (Ex::Kraken, Sk::L1) => run_pair(Kraken, OrderBooksL1, case, &keys).await,
        (Ex::Okx, Sk::Trades) => run_pair(Okx, PublicTrades, case, &keys).await,
        (e, k) => panic!("pair ({e:?}, {k:?}) is not served by StatelessTransformer in the dynamic builder"),
    }
}

fn emit_case(em: &mut Emitter, rt: &tokio::runtime::Runtime, stream: &'static str, case: &CaseIn, extra_tags: &[String]) {
    // a panic anywhere in the implementation (mapper, validator, transformer init) must not
    // take the harness down: the case is emitted with every message observed as a panic
    let out = match std::panic::catch_unwind(AssertUnwindSafe(|| rt.block_on(run_case(case)))) {
        Ok(o) => o,
        Err(_) => RunOut {
            map: vec![],
            confs: vec![],
            outcomes: case.msgs.iter().map(|_| ("OPanic".to_string(), "panic")).collect(),
            note: Some("panic outside transform".into()),
        },
    };
    let keys = model_keys(case);
    let subs_coq: Vec<String> = case
        .subs
        .iter()
        .zip(keys.iter())
        .map(|(su, k)| {
            let d = if case.flavour == Flavour::Named {
                format!("(INamed {} {})", s(&su.name), su.kind.coq())
            } else {
                format!("(IPair {} {} {})", s(&su.base), s(&su.quote), su.kind.coq())
            };
            pair(&n(*k as u128), &d)
        })
        .collect();
    let confs: Vec<String> = out
        .confs
        .iter()
        .map(|(c, sy, id)| format!("({}, {}, {})", s(c), s(sy), n(*id as u128)))
        .collect();
    let map: Vec<String> = out.map.iter().map(|(id, k)| pair(&s(id), &n(*k as u128))).collect();
    let msgs: Vec<String> = case
        .msgs
        .iter()
        .zip(out.outcomes.iter())
        .map(|(m, (o, _))| pair(&m.coq(), o))
        .collect();
    let coq = format!(
        "(CStream (mkCase {} {} {} {} {} {}))",
        case.ex.name(),
        case.sk.name(),
        list(&subs_coq),
        list(&confs),
        list(&map),
        list(&msgs)
    );
    let mut tags: Vec<String> = vec![
        format!("ex:{}", case.ex.name()),
        format!("pair:{}/{}", case.ex.name(), case.sk.name()),
        format!("flavour:{}", case.flavour.name()),
    ];
    for su in &case.subs {
        let t = format!("ikind:{}", su.kind.tag());
        if !tags.contains(&t) {
            tags.push(t);
        }
    }
    for (_, t) in &out.outcomes {
        tags.push(format!("msg:{t}"));
    }
    if let Some(nt) = &out.note {
        tags.push(format!("note:{nt}"));
    }
    tags.extend(extra_tags.iter().cloned());
    let nontrivial = out.outcomes.iter().any(|(_, t)| *t == "attributed")
        && out.outcomes.iter().any(|(_, t)| *t == "unidentifiable");
    em.emit(Case { stream, input: case.to_json(), coq, nontrivial, tags });
}

// ---------------------------------------------------------------------------------------------
// generators
// ---------------------------------------------------------------------------------------------

const BASES: [&str; 16] = [
    "btc", "BTC", "Btc", "btcd", "bt", "b", "eth", "ETH", "xbt", "XBT", "1inch", "usd1", "t", "tb", "sol2", "eTh",
];
const QUOTES: [&str; 12] = [
    "usdt", "USDT", "usd", "Usd", "cusdt", "tcusdt", "usdc", "btc", "eur", "d", "dusd", "usdt2",
];
/// pairs whose concatenation / prefixing collides or nearly collides
const RELATED: [(&str, &str); 14] = [
    ("btc", "usdt"),
    ("bt", "cusdt"),
    ("b", "tcusdt"),
    ("btcd", "usd"),
    ("btc", "dusd"),
    ("btc", "usd"),
    ("btcd", "usdt"),
    ("BTC", "USDT"),
    ("Btc", "Usd"),
    ("tb", "tcusdt"),
    ("t", "btcusd"),
    ("eth", "btc"),
    ("btc", "usdt2"),
    ("xbt", "usd"),
];

const DAY: i64 = 86_400_000;
fn ymd_ms(y: i32, m: u32, d: u32) -> i64 {
    Utc.with_ymd_and_hms(y, m, d, 8, 0, 0).unwrap().timestamp_millis()
}
/// expiries including the turn of the year (where a week based year differs from the calendar
/// year), month ends and leap days
fn gen_expiry(r: &mut Rng) -> i64 {
    match r.below(4) {
        0 => {
            let y = 2021 + r.below(12) as i32;
            ymd_ms(y, 12, 26) + DAY * r.below(12) as i64 // Dec 26 .. Jan 6
        }
        1 => *r.pick(&[
            ymd_ms(2024, 2, 29),
            ymd_ms(2023, 12, 29),
            ymd_ms(2020, 12, 25),
            ymd_ms(2025, 3, 28),
            ymd_ms(2028, 2, 29),
            ymd_ms(2030, 1, 1),
            ymd_ms(2027, 1, 1),
            ymd_ms(2024, 12, 30),
        ]),
        _ => ymd_ms(2022, 1, 1) + DAY * r.below(3650) as i64 + r.below(DAY as u64) as i64,
    }
}
fn gen_strike(r: &mut Rng) -> String {
    // canonical decimal strings (no trailing zeros, no exponent)
    match r.below(5) {
        0 => format!("{}", 1000 * (1 + r.below(99))),
        1 => format!("{}", 1 + r.below(500)),
        2 => format!("0.{}", 1 + r.below(9)),
        3 => format!("{}.5", 1 + r.below(200)),
        _ => format!("{}", 35000 + 500 * r.below(20)),
    }
}
fn gen_kind(r: &mut Rng, code: u8) -> IK {
    match code {
        0 => IK::Spot,
        1 => IK::Perp,
        2 => IK::Future(gen_expiry(r)),
        _ => IK::Option { call: r.chance(1, 2), expiry: gen_expiry(r), strike: gen_strike(r) },
    }
}

fn yyyymmdd(ms: i64) -> String {
    Utc.timestamp_millis_opt(ms).unwrap().date_naive().format("%Y%m%d").to_string()
}
fn yymmdd(ms: i64) -> String {
    Utc.timestamp_millis_opt(ms).unwrap().date_naive().format("%y%m%d").to_string()
}

/// the symbol the venue uses in its payloads for this market (venue conventions: upper-case
/// symbols; separators and dated suffixes as in the connectors' doc comments) - generator side
/// copy, only used to aim messages; the judge is the oracle in Corr/C13.v
fn venue_symbol(ex: Ex, b: &str, q: &str, k: &IK) -> String {
    let (b, q) = (b.to_uppercase(), q.to_uppercase());
    match ex {
        Ex::BinanceSpot | Ex::BinanceFuturesUsd | Ex::Bitmex | Ex::BybitSpot | Ex::BybitPerpetualsUsd => format!("{b}{q}"),
        Ex::Bitfinex => format!("t{b}{q}"),
        Ex::Coinbase => format!("{b}-{q}"),
        Ex::Kraken => format!("{b}/{q}"),
        Ex::Okx => match k {
            IK::Spot => format!("{b}-{q}"),
            IK::Perp => format!("{b}-{q}-SWAP"),
            IK::Future(e) => format!("{b}-{q}-{}", yymmdd(*e)),
            IK::Option { call, expiry, strike } => {
                format!("{b}-{q}-{}-{}-{}", yymmdd(*expiry), strike, if *call { "C" } else { "P" })
            }
        },
        _ => match k {
            IK::Spot | IK::Perp => format!("{b}_{q}"),
            IK::Future(e) => format!("{b}_{q}_QUARTERLY_{}", yyyymmdd(*e)),
            IK::Option { call, expiry, strike } => {
                format!("{b}_{q}-{}-{}-{}", yyyymmdd(*expiry), strike, if *call { "C" } else { "P" })
            }
        },
    }
}
/// channel name as carried in the venue's payloads (where the payload carries one)
fn venue_chan(ex: Ex, k: &IK) -> &'static str {
    match ex {
        Ex::Bitmex => "trade",
        Ex::BybitSpot | Ex::BybitPerpetualsUsd => "publicTrade",
        Ex::Okx => "trades",
        e if e.is_gateio() => match k {
            IK::Spot => "spot.trades",
            IK::Perp | IK::Future(_) => "futures.trades",
            IK::Option { .. } => "options.trades",
        },
        _ => "",
    }
}
const WRONG_CHANS: [&str; 9] = [
    "tickers", "trade", "trades", "spot.trades", "futures.trades", "options.trades", "orderbook", "publicTrade", "spot.tickers",
];

fn numeric_ids(ex: Ex) -> bool {
    ex.is_binance() || ex.is_gateio() || matches!(ex, Ex::Bitfinex | Ex::Coinbase)
}
fn batch_venue(ex: Ex, sk: Sk) -> bool {
    sk == Sk::Trades
        && (ex.is_bybit()
            || matches!(ex, Ex::Bitmex | Ex::Okx | Ex::Kraken)
            || (ex.is_gateio() && ex != Ex::GateioSpot))
}
fn has_ctl(ex: Ex) -> bool {
    ex.is_bybit() || matches!(ex, Ex::Bitfinex | Ex::Kraken)
}

fn gen_item(r: &mut Rng, ex: Ex, sk: Sk, sym: &str) -> ItemIn {
    #[allow(unused_mut)]
    let mut ms = 1_500_000_000_000 + r.below(300_000_000_000) as i64;
    if ex == Ex::Kraken && r.chance(1, 8) {
        ms -= ms % 125;
    }
    let us = if matches!(ex, Ex::Kraken | Ex::Coinbase) { r.below(1000) as i64 } else { 0 };
    let time = if ex == Ex::BinanceSpot && sk == Sk::L1 { None } else { Some(ms) };
    let id = if ex == Ex::Kraken {
        String::new()
    } else if numeric_ids(ex) {
        format!("{}", 1 + r.below(4_000_000_000))
    } else {
        format!("{}-{:x}", 1 + r.below(1_000_000), r.below(1 << 32))
    };
    let zero_price = sk == Sk::L1 && r.chance(1, 6);
    ItemIn {
        sym: sym.to_string(),
        id,
        time,
        us,
        sell: r.chance(1, 2),
        price: if zero_price { 0 } else { 1 + r.below(400_000) as i64 },
        amount: 1 + r.below(40_000) as i64,
        price2: if sk == Sk::L1 && r.chance(1, 6) { 0 } else { 1 + r.below(400_000) as i64 },
        amount2: 1 + r.below(40_000) as i64,
    }
}

fn variant_symbol(r: &mut Rng, sym: &str) -> String {
    match r.below(8) {
        0 => sym.to_lowercase(),
        1 => format!("{sym}D"),
        2 => sym[..sym.len().saturating_sub(1)].to_string(),
        3 => sym.replace(['-', '_', '/'], ""),
        4 => sym.replace('-', "_").replace('/', "-"),
        5 => {
            // flip the case of one letter
            let mut cs: Vec<char> = sym.chars().collect();
            if !cs.is_empty() {
                let i = r.below(cs.len() as u64) as usize;
                cs[i] = if cs[i].is_ascii_uppercase() { cs[i].to_ascii_lowercase() } else { cs[i].to_ascii_uppercase() };
            }
            cs.into_iter().collect()
        }
        6 => format!("t{sym}"),
        _ => sym.strip_prefix('t').unwrap_or("T").to_string(),
    }
}

fn data_msg(r: &mut Rng, ex: Ex, sk: Sk, chan: &str, sym: &str, cid: u64, n_items: usize) -> MsgIn {
    let items = (0..n_items).map(|_| gen_item(r, ex, sk, sym)).collect();
    MsgIn::Data { chan: chan.to_string(), sym: sym.to_string(), cid, items }
}

/// the symbols / channels a sub is subscribed under, as the venue would put them in payloads
fn sub_symbol(ex: Ex, fl: Flavour, su: &SubIn) -> String {
    if fl == Flavour::Named { su.name.clone() } else { venue_symbol(ex, &su.base, &su.quote, &su.kind) }
}

fn gen_msgs(r: &mut Rng, case: &CaseIn, n_msgs: usize, adversarial: bool) -> Vec<MsgIn> {
    let (ex, sk, fl) = (case.ex, case.sk, case.flavour);
    let mut out = vec![];
    let multi = batch_venue(ex, sk);
    for _ in 0..n_msgs {
        let su = r.pick(&case.subs).clone();
        let sym = sub_symbol(ex, fl, &su);
        let chan = venue_chan(ex, &su.kind).to_string();
        let n_items = if multi { 1 + r.below(3) as usize } else { 1 };
        let cid_pool = &case.bfx_cids;
        let sub_pos = case.subs.iter().position(|x| x.key == su.key).unwrap_or(0);
        let cid = if ex == Ex::Bitfinex && !cid_pool.is_empty() { cid_pool[sub_pos.min(cid_pool.len() - 1)] } else { 0 };
        let class = r.below(if adversarial { 12 } else { 9 });
        let m = match class {
            0..=3 => data_msg(r, ex, sk, &chan, &sym, cid, n_items), // subscribed market
            4 => {
                // a market nobody subscribed to
                let (b, q) = *r.pick(&RELATED);
                let other = venue_symbol(ex, b, q, &su.kind);
                {
                    let c2 = match case.bfx_extra.first() {
                        Some((_, c)) if r.chance(1, 2) => *c,
                        _ => cid + 1 + r.below(1000),
                    };
                    data_msg(r, ex, sk, &chan, &other, c2, n_items)
                }
            }
            5 | 6 => {
                let v = variant_symbol(r, &sym);
                {
                    let c2 = if r.chance(1, 2) { cid * 10 } else { cid / 10 };
                    data_msg(r, ex, sk, &chan, &v, c2, n_items)
                }
            }
            7 => {
                if has_ctl(ex) {
                    MsgIn::Ctl(r.below(4))
                } else if multi {
                    data_msg(r, ex, sk, &chan, &sym, cid, 0) // empty batch
                } else {
                    data_msg(r, ex, sk, &chan, &sym, cid, 1)
                }
            }
            8 => {
                // the payload names another channel (only meaningful where payloads carry one)
                let wc = if chan.is_empty() { chan.clone() } else { r.pick(&WRONG_CHANS).to_string() };
                data_msg(r, ex, sk, &wc, &sym, cid, n_items)
            }
            9 => {
                // envelope and item symbols disagree / a batch mixing two markets
                let (b, q) = *r.pick(&RELATED);
                let other = venue_symbol(ex, b, q, &su.kind);
                let mut m = data_msg(r, ex, sk, &chan, &sym, cid, n_items.max(1));
                if let MsgIn::Data { items, .. } = &mut m {
                    let k = items.len() - 1;
                    items[k].sym = other;
                }
                m
            }
            10 => {
                if multi { data_msg(r, ex, sk, &chan, &sym, cid, 0) } else { data_msg(r, ex, sk, &chan, &sym, cid, 1) }
            }
            _ => {
                // symbol with the separators of another venue
                let other_ex = *r.pick(&ALL_EX);
                let v = venue_symbol(other_ex, &su.base, &su.quote, &su.kind);
                data_msg(r, ex, sk, &chan, &v, cid + 7, n_items)
            }
        };
        out.push(m);
    }
    out
}

fn gen_subs(r: &mut Rng, ex: Ex, fl: Flavour, kinds: &[u8], n_subs: usize, related: bool, collide: bool) -> Vec<SubIn> {
    let mut subs: Vec<SubIn> = vec![];
    let mut tries = 0;
    while subs.len() < n_subs && tries < 200 {
        tries += 1;
        let (b, q) = if related || r.chance(1, 3) {
            let (b, q) = *r.pick(&RELATED);
            (b.to_string(), q.to_string())
        } else {
            (r.pick(&BASES).to_string(), r.pick(&QUOTES).to_string())
        };
        let code = *r.pick(kinds);
        let kind = gen_kind(r, code);
        let mut name = venue_symbol(ex, &b, &q, &kind);
        if fl == Flavour::Named && r.chance(1, 5) {
            name = variant_symbol(r, &name);
        }
        let su = SubIn { key: 1 + r.below(1000), base: b, quote: q, name, kind };
        let sym = sub_symbol(ex, fl, &su);
        let clash = subs.iter().any(|o| sub_symbol(ex, fl, o) == sym && venue_chan(ex, &o.kind) == venue_chan(ex, &su.kind));
        let key_clash = subs.iter().any(|o| o.key == su.key);
        if key_clash || (clash && !collide) {
            continue;
        }
        subs.push(su);
    }
    subs
}

fn gen_case(r: &mut Rng, pair: (Ex, Sk, &[u8]), fl: Flavour, adversarial: bool, max_subs: u64, n_msgs: usize) -> CaseIn {
    let (ex, sk, kinds) = pair;
    let n_subs = 1 + r.below(max_subs) as usize;
    let related = r.chance(1, 2);
    let collide = adversarial && r.chance(1, 2);
    let subs = gen_subs(r, ex, fl, kinds, n_subs, related, collide);
    let mut bfx_cids = vec![];
    if ex == Ex::Bitfinex {
        while bfx_cids.len() < subs.len() {
            let c = match r.below(3) {
                0 => 1 + r.below(30),
                1 => 100 + r.below(900),
                _ => 400_000 + r.below(100_000),
            };
            if !bfx_cids.contains(&c) {
                bfx_cids.push(c);
            }
        }
    }
    let mut bfx_extra = vec![];
    if ex == Ex::Bitfinex && r.chance(1, 2) {
        let (b, q) = *r.pick(&RELATED);
        let c = 50_000 + r.below(1000);
        bfx_extra.push((format!("t{}{}X", b.to_uppercase(), q.to_uppercase()), c));
    }
    let mut case = CaseIn { ex, sk, flavour: fl, subs, bfx_cids, bfx_extra, msgs: vec![] };
    case.msgs = gen_msgs(r, &case, n_msgs, adversarial);
    case
}

/// Exhaustive table over the abstract domain the modelled control flow depends on:
/// every (exchange, kind) pair x every supported instrument kind x every instrument data flavour
/// x every message class (subscribed / unsubscribed / case variant / prefix variant / separator
/// variant / control or empty batch / foreign channel / second subscribed market).
fn table(em: &mut Emitter, rt: &tokio::runtime::Runtime, r: &mut Rng) {
    for pair in PAIRS.iter() {
        let (ex, sk, kinds) = *pair;
        for code in kinds {
            for fl in [Flavour::Plain, Flavour::Keyed, Flavour::Named] {
                let k1 = gen_kind(r, *code);
                let k2 = gen_kind(r, *code);
                let mk = |key: u64, b: &str, q: &str, k: &IK| SubIn {
                    key,
                    base: b.into(),
                    quote: q.into(),
                    name: venue_symbol(ex, b, q, k),
                    kind: k.clone(),
                };
                let subs = vec![mk(11, "Btc", "usdt", &k1), mk(7, "eth", "BTC", &k2), mk(23, "btcd", "usd", &k1)];
                let bfx_cids = if ex == Ex::Bitfinex { vec![420191, 17, 2203] } else { vec![] };
                let bfx_extra = if ex == Ex::Bitfinex { vec![("tSOLUSD".to_string(), 5u64)] } else { vec![] };
                let mut case = CaseIn { ex, sk, flavour: fl, subs, bfx_cids: bfx_cids.clone(), bfx_extra, msgs: vec![] };
                let multi = batch_venue(ex, sk);
                let syms: Vec<String> = case.subs.iter().map(|su| sub_symbol(ex, fl, su)).collect();
                let chan = venue_chan(ex, &k1).to_string();
                let cid = |i: usize| if ex == Ex::Bitfinex { bfx_cids[i] } else { 0 };
                let mut msgs = vec![
                    data_msg(r, ex, sk, &chan, &syms[0], cid(0), 1),
                    data_msg(r, ex, sk, &chan, &syms[1], cid(1), if multi { 2 } else { 1 }),
                    data_msg(r, ex, sk, &chan, &syms[2], cid(2), 1),
                    data_msg(r, ex, sk, &chan, &venue_symbol(ex, "sol", "usdt", &k1), 5, 1),
                    data_msg(r, ex, sk, &chan, &syms[0].to_lowercase(), cid(0) * 10, 1),
                    data_msg(r, ex, sk, &chan, &format!("{}D", syms[0]), cid(0) + 1, 1),
                    data_msg(r, ex, sk, &chan, &syms[0][..syms[0].len() - 1], cid(0) / 10, 1),
                    data_msg(r, ex, sk, &chan, &syms[0].replace(['-', '_', '/'], "+"), 0, 1),
                ];
                if has_ctl(ex) {
                    msgs.push(MsgIn::Ctl(0));
                    msgs.push(MsgIn::Ctl(1));
                }
                if multi {
                    msgs.push(data_msg(r, ex, sk, &chan, &syms[0], cid(0), 0));
                }
                if !chan.is_empty() {
                    for wc in ["tickers", "trade", "trades", "spot.trades", "futures.trades", "options.trades"] {
                        if wc != chan {
                            msgs.push(data_msg(r, ex, sk, wc, &syms[0], cid(0), 1));
                        }
                    }
                }
                case.msgs = msgs;
                emit_case(em, rt, "table", &case, &["table:pair_x_kind_x_flavour".to_string()]);
            }
        }
    }
    // dated instruments around the turn of the year, month ends, leap days (Gateio futures /
    // options, Okx futures / options): every day from Dec 26 to Jan 6 for several years
    for (ex, code) in [(Ex::Okx, 2u8), (Ex::Okx, 3), (Ex::GateioFuturesUsd, 2), (Ex::GateioOptions, 3)] {
        for y in [2024, 2026] {
            let mut subs = vec![];
            for d in 0..12 {
                let e = ymd_ms(y, 12, 26) + DAY * d;
                let kind = if code == 2 { IK::Future(e) } else { IK::Option { call: d % 2 == 0, expiry: e, strike: "35000".into() } };
                subs.push(SubIn { key: 100 + d as u64, base: "btc".into(), quote: "usd".into(),
                                  name: venue_symbol(ex, "btc", "usd", &kind), kind });
            }
            let mut case = CaseIn { ex, sk: Sk::Trades, flavour: Flavour::Keyed, subs, bfx_cids: vec![], bfx_extra: vec![], msgs: vec![] };
            case.msgs = case
                .subs
                .clone()
                .iter()
                .map(|su| data_msg(r, ex, Sk::Trades, venue_chan(ex, &su.kind), &sub_symbol(ex, Flavour::Keyed, su), 0, 1))
                .collect();
            emit_case(em, rt, "table", &case, &["table:turn_of_year_expiries".to_string()]);
        }
    }
}


// ---------------------------------------------------------------------------------------------
// which (exchange, instrument kind, subscription kind) triples the dynamic builder accepts:
// exchange_supports_instrument_kind_sub_kind / exchange_supports_instrument_kind /
// validate_subscriptions (the offline-callable part of streams::builder::dynamic)
// ---------------------------------------------------------------------------------------------

const ALL_EXCHANGE_IDS: [&str; 42] = [
    "other", "simulated", "mock", "binance_futures_coin", "binance_futures_usd", "binance_options",
    "binance_portfolio_margin", "binance_spot", "binance_us", "bitazza", "bitfinex", "bitflyer", "bitget",
    "bitmart", "bitmart_futures_usd", "bitmex", "bitso", "bitstamp", "bitvavo", "bithumb",
    "bybit_perpetuals_usd", "bybit_spot", "cexio", "coinbase", "coinbase_international", "cryptocom",
    "deribit", "gateio_futures_btc", "gateio_futures_usd", "gateio_options", "gateio_perpetuals_btc",
    "gateio_perpetuals_usd", "gateio_spot", "gemini", "hitbtc", "htx", "kraken", "kucoin", "liquid", "mexc",
    "okx", "poloniex",
];
const ALL_SUB_KINDS: [(SubKind, &str); 6] = [
    (SubKind::PublicTrades, "SKPublicTrades"),
    (SubKind::OrderBooksL1, "SKOrderBooksL1"),
    (SubKind::OrderBooksL2, "SKOrderBooksL2"),
    (SubKind::OrderBooksL3, "SKOrderBooksL3"),
    (SubKind::Liquidations, "SKLiquidations"),
    (SubKind::Candles, "SKCandles"),
];
fn exchange_id(name: &str) -> ExchangeId {
    serde_json::from_str::<ExchangeId>(&format!("\"{name}\"")).unwrap_or_else(|_| panic!("exchange id {name}"))
}
fn support_kind(code: u64) -> IK {
    match code {
        0 => IK::Spot,
        1 => IK::Perp,
        2 => IK::Future(1_735_545_600_000),
        _ => IK::Option { call: true, expiry: 1_703_836_800_000, strike: "35000".into() },
    }
}
fn sub_kind(i: u64) -> (SubKind, &'static str) {
    ALL_SUB_KINDS[(i as usize) % 6]
}

/// input: {"support": true, "triples": [[exchange, kind code, sub kind index] ..],
///         "batches": [[[exchange, kind code, sub kind index, base, quote] ..] ..]}
fn emit_support(em: &mut Emitter, stream: &'static str, input: &Value) {
    let mut tags = vec!["support:case".to_string()];
    let triples: Vec<String> = input["triples"]
        .as_array()
        .unwrap()
        .iter()
        .map(|t| {
            let ex = exchange_id(t[0].as_str().unwrap());
            let ik = support_kind(t[1].as_u64().unwrap());
            let (sk, skn) = sub_kind(t[2].as_u64().unwrap());
            let real = ik.real();
            let r3 = catch(AssertUnwindSafe(|| exchange_supports_instrument_kind_sub_kind(&ex, &real, sk)));
            let r2 = catch(AssertUnwindSafe(|| exchange_supports_instrument_kind(ex, &real)));
            let ob = |r: Result<bool, String>| match r {
                Ok(true) => "SYes",
                Ok(false) => "SNo",
                Err(_) => "SPanic",
            };
            format!("({}, {}, {}, {}, {})", exch_coq(ex), ik.coq(), skn, ob(r3), ob(r2))
        })
        .collect();
    if !triples.is_empty() {
        tags.push("support:triple_table".into());
    }
    let mut batches = vec![];
    for b in input["batches"].as_array().unwrap() {
        let subs: Vec<Subscription<ExchangeId, MarketDataInstrument, SubKind>> = b
            .as_array()
            .unwrap()
            .iter()
            .map(|x| {
                Subscription::new(
                    exchange_id(x[0].as_str().unwrap()),
                    MarketDataInstrument::new(x[3].as_str().unwrap(), x[4].as_str().unwrap(), support_kind(x[1].as_u64().unwrap()).real()),
                    sub_kind(x[2].as_u64().unwrap()).0,
                )
            })
            .collect();
        let id_of = |su: &Subscription<ExchangeId, MarketDataInstrument, SubKind>| subs.iter().position(|o| o == su).unwrap_or(999_999);
        let ins: Vec<String> = b
            .as_array()
            .unwrap()
            .iter()
            .zip(subs.iter())
            .map(|(x, su)| {
                format!(
                    "({}, {}, {}, {})",
                    n(id_of(su) as u128),
                    exch_coq(su.exchange),
                    support_kind(x[1].as_u64().unwrap()).coq(),
                    sub_kind(x[2].as_u64().unwrap()).1
                )
            })
            .collect();
        let res = catch(AssertUnwindSafe(|| validate_subscriptions::<_, _, MarketDataInstrument>(subs.clone())));
        let out = match res {
            Err(_) => {
                tags.push("support:batch_panic".into());
                "VPanic".to_string()
            }
            Ok(Err(_)) => {
                tags.push("support:batch_rejected".into());
                "VErr".to_string()
            }
            Ok(Ok(v)) => {
                tags.push("support:batch_accepted".into());
                let sorted = v.windows(2).all(|w| w[0] < w[1]);
                format!("(VOk {} {})", list(&v.iter().map(|su| n(id_of(su) as u128)).collect::<Vec<_>>()), b_(sorted))
            }
        };
        batches.push(pair(&list(&ins), &out));
    }
    let coq = format!("(CSupport {} {})", list(&triples), list(&batches));
    em.emit(Case { stream, input: input.clone(), coq, nontrivial: true, tags });
}
fn b_(x: bool) -> String {
    if x { "true".into() } else { "false".into() }
}

/// triples the builder is expected to accept (generator side copy, only used to aim batches)
const GOOD_TRIPLES: [(&str, u64, u64); 24] = [
    ("binance_spot", 0, 0), ("binance_spot", 0, 1), ("binance_spot", 0, 2),
    ("binance_futures_usd", 1, 0), ("binance_futures_usd", 1, 1), ("binance_futures_usd", 1, 2), ("binance_futures_usd", 1, 4),
    ("bitfinex", 0, 0), ("bitmex", 1, 0), ("bybit_spot", 0, 0), ("bybit_perpetuals_usd", 1, 0), ("coinbase", 0, 0),
    ("gateio_spot", 0, 0), ("gateio_futures_usd", 2, 0), ("gateio_futures_btc", 2, 0), ("gateio_perpetuals_usd", 1, 0),
    ("gateio_perpetuals_btc", 1, 0), ("gateio_options", 3, 0), ("kraken", 0, 0), ("kraken", 0, 1),
    ("okx", 0, 0), ("okx", 1, 0), ("okx", 2, 0), ("okx", 3, 0),
];

fn gen_support(em: &mut Emitter, r: &mut Rng, n_batch_cases: usize) {
    // exhaustive: every ExchangeId x instrument kind x subscription kind
    // (one case per exchange keeps replays small)
    for ex in ALL_EXCHANGE_IDS.iter() {
        let mut triples = vec![];
        for k in 0..4u64 {
            for sk in 0..6u64 {
                triples.push(json!([ex, k, sk]));
            }
        }
        emit_support(em, "table", &json!({"support": true, "triples": triples, "batches": []}));
    }
    for i in 0..n_batch_cases {
        let mut batches = vec![];
        for _ in 0..10 {
            let n_subs = 1 + r.below(6);
            let mut b: Vec<Value> = vec![];
            let spoil = r.chance(1, 3);
            for _ in 0..n_subs {
                let (ex, k, sk) = *r.pick(&GOOD_TRIPLES);
                let (ba, qu) = *r.pick(&RELATED);
                if !b.is_empty() && r.chance(1, 4) {
                    let d = r.pick(&b).clone(); // duplicate subscription
                    b.push(d);
                } else {
                    b.push(json!([ex, k, sk, ba, qu]));
                }
            }
            if spoil {
                // one subscription the builder must refuse: wrong instrument kind, wrong
                // subscription kind or an exchange without connector
                let (ex, k, sk) = *r.pick(&GOOD_TRIPLES);
                let bad = match r.below(3) {
                    0 => json!([ex, (k + 1 + r.below(3)) % 4, sk, "btc", "usdt"]),
                    1 => json!([ex, k, 3 + 2 * r.below(2), "btc", "usdt"]),
                    _ => json!([*r.pick(&["binance_us", "deribit", "kucoin", "mock", "htx"]), k, sk, "btc", "usdt"]),
                };
                let pos = r.below(b.len() as u64 + 1) as usize;
                b.insert(pos, bad);
            }
            batches.push(Value::Array(b));
        }
        emit_support(em, if i % 2 == 0 { "random" } else { "adversarial" }, &json!({"support": true, "triples": [], "batches": batches}));
    }
}

// ---------------------------------------------------------------------------------------------
// Binance OrderBooksL2 (spot and futures): mapper + ExchangeTransformer::init with REST snapshots
// + first depth updates. Only the attribution side is judged here (C06 owns the sequencing).
// ---------------------------------------------------------------------------------------------

#[derive(Clone, Debug)]
struct L2Msg {
    sym: String,
    first: u64, // U
    last: u64,  // u
    prev: u64,  // pu (futures)
    te: i64,    // E
    tt: i64,    // T (futures)
    bid: (i64, i64),
    ask: (i64, i64),
}
impl L2Msg {
    fn to_json(&self) -> Value {
        json!({"sym": self.sym, "U": self.first, "u": self.last, "pu": self.prev, "E": self.te, "T": self.tt,
               "bid": {"p": self.bid.0, "a": self.bid.1}, "ask": {"p": self.ask.0, "a": self.ask.1}})
    }
    fn from_json(v: &Value) -> L2Msg {
        let lv = |x: &Value| (x["p"].as_i64().unwrap_or(4), x["a"].as_i64().unwrap_or(4));
        L2Msg {
            sym: v["sym"].as_str().unwrap().to_string(),
            first: v["U"].as_u64().unwrap(),
            last: v["u"].as_u64().unwrap(),
            prev: v["pu"].as_u64().unwrap(),
            te: v["E"].as_i64().unwrap(),
            tt: v["T"].as_i64().unwrap(),
            bid: lv(&v["bid"]),
            ask: lv(&v["ask"]),
        }
    }
    fn coq(&self) -> String {
        format!(
            "(mkL2 {} {} {} {} {} {} [{}] [{}])",
            s(&self.sym), n(self.first as u128), n(self.last as u128), n(self.prev as u128),
            z(self.te as i128), z(self.tt as i128),
            pair(&z(self.bid.0 as i128), &z(self.bid.1 as i128)),
            pair(&z(self.ask.0 as i128), &z(self.ask.1 as i128))
        )
    }
    fn payload(&self, futures: bool) -> String {
        let mut v = json!({"e": "depthUpdate", "E": self.te, "s": self.sym, "U": self.first, "u": self.last,
                           "b": [[q4v(self.bid.0, 1), q4v(self.bid.1, 1)]], "a": [[q4v(self.ask.0, 0), q4v(self.ask.1, 2)]]});
        if futures {
            v["T"] = json!(self.tt);
            v["pu"] = json!(self.prev);
        }
        v.to_string()
    }
}

struct L2Out {
    map: Vec<(String, u64)>,
    init_ok: bool,
    note: Option<String>,
    outcomes: Vec<(String, &'static str)>,
}

fn levels_coq(ls: &[barter_data::books::Level]) -> String {
    list(&ls.iter().map(|l| pair(&dec_q4(l.price), &dec_q4(l.amount))).collect::<Vec<_>>())
}

async fn run_l2<Exc, Inst>(
    ex: Ex,
    subs: Vec<Subscription<Exc, Inst, OrderBooksL2>>,
    snap_keys: Vec<(Inst::Key, u64)>,
    key_idx: &dyn Fn(&Inst::Key) -> u64,
    msgs: &[L2Msg],
) -> L2Out
where
    Exc: Connector + StreamSelector<Inst, OrderBooksL2> + Send + Sync,
    Inst: InstrumentData,
    Inst::Key: Clone + Send,
    Subscription<Exc, Inst, OrderBooksL2>: Identifier<Exc::Channel> + Identifier<Exc::Market>,
    <Exc as StreamSelector<Inst, OrderBooksL2>>::Stream: TransformerOf,
    TrOf<Exc, Inst, OrderBooksL2>: ExchangeTransformer<Exc, Inst::Key, OrderBooksL2>,
    <TrOf<Exc, Inst, OrderBooksL2> as Transformer>::Input: for<'de> Deserialize<'de>,
    <TrOf<Exc, Inst, OrderBooksL2> as Transformer>::OutputIter:
        IntoIterator<Item = Result<MarketEvent<Inst::Key, OrderBookEvent>, barter_data::error::DataError>>,
{
    let futures = ex == Ex::BinanceFuturesUsd;
    let SubscriptionMeta { instrument_map, .. } = WebSocketSubMapper::map::<Exc, Inst, OrderBooksL2>(&subs);
    let mut map: Vec<(String, u64)> = instrument_map.0.iter().map(|(id, k)| (id.0.to_string(), key_idx(k))).collect();
    map.sort();
    // one REST depth snapshot per subscription, in the venue's JSON format, keyed the way the
    // SnapshotFetcher keys them (MarketEvent::from((exchange id, instrument key, snapshot)))
    let snapshots: Vec<MarketEvent<Inst::Key, OrderBookEvent>> = snap_keys
        .into_iter()
        .map(|(k, l)| {
            let body = if futures {
                json!({"lastUpdateId": l, "E": 1_589_436_922_972i64 + l as i64, "T": 1_589_436_922_959i64 + l as i64,
                       "bids": [["4.00000000", "431.00000000"]], "asks": [["4.00000200", "12.00000000"]]})
            } else {
                json!({"lastUpdateId": l, "bids": [["4.00000000", "431.00000000"]], "asks": [["4.00000200", "12.00000000"]]})
            };
            let snap: BinanceOrderBookL2Snapshot = serde_json::from_value(body).expect("snapshot json");
            MarketEvent::from((Exc::ID, k, snap))
        })
        .collect();
    let (tx, _rx) = tokio::sync::mpsc::unbounded_channel::<WsMessage>();
    let mut tr = match <TrOf<Exc, Inst, OrderBooksL2> as ExchangeTransformer<Exc, Inst::Key, OrderBooksL2>>::init(instrument_map, &snapshots, tx).await {
        Ok(t) => t,
        Err(e) => return L2Out { map, init_ok: false, note: Some(format!("init error: {e}")), outcomes: vec![] },
    };
    let mut outcomes = vec![];
    for m in msgs {
        let text = m.payload(futures);
        let res = std::panic::catch_unwind(AssertUnwindSafe(|| {
            serde_json::from_str::<<TrOf<Exc, Inst, OrderBooksL2> as Transformer>::Input>(&text)
                .map(|msg| tr.transform(msg).into_iter().collect::<Vec<_>>())
        }));
        let out = match res {
            Err(_) => ("L2Panic".to_string(), "l2:panic"),
            Ok(Err(_)) => ("L2Deser".to_string(), "l2:deser_error"),
            Ok(Ok(v)) => {
                let mut tag = if v.is_empty() { "l2:dropped" } else { "l2:attributed" };
                let items: Vec<String> = v
                    .iter()
                    .map(|r| match r {
                        Ok(MarketEvent { time_exchange, exchange, instrument, kind, .. }) => match kind {
                            OrderBookEvent::Update(b) => format!(
                                "(L2Ev {} {} {} {} {} {} {})",
                                n(key_idx(instrument) as u128),
                                exch_coq(*exchange),
                                z(time_exchange.timestamp_millis() as i128),
                                n(b.sequence as u128),
                                opt(b.time_engine.map(|t| z(t.timestamp_millis() as i128))),
                                levels_coq(b.bids().levels()),
                                levels_coq(b.asks().levels())
                            ),
                            OrderBookEvent::Snapshot(_) => {
                                tag = "l2:other_error";
                                "(L2Err \"snapshot event\"%string)".to_string()
                            }
                        },
                        Err(barter_data::error::DataError::InvalidSequence { prev_last_update_id, first_update_id }) => {
                            tag = "l2:invalid_sequence";
                            format!("(L2InvalidSeq {} {})", n(*prev_last_update_id as u128), n(*first_update_id as u128))
                        }
                        Err(e) => {
                            let txt = match e {
                                barter_data::error::DataError::Socket(t) => t.clone(),
                                other => other.to_string(),
                            };
                            if let Some(id) = txt.strip_prefix(UNIDENT_PREFIX) {
                                tag = "l2:unidentifiable";
                                format!("(L2Unident {})", s(id))
                            } else {
                                tag = "l2:other_error";
                                format!("(L2Err {})", s(&txt.replace(|c: char| !c.is_ascii(), "?")))
                            }
                        }
                    })
                    .collect();
                (format!("(L2Out {})", list(&items)), tag)
            }
        };
        outcomes.push(out);
    }
    L2Out { map, init_ok: true, note: None, outcomes }
}

async fn run_l2_flavour<Exc>(exc: Exc, ex: Ex, fl: Flavour, subs_in: &[SubIn], keys: &[u64], snaps: &[(usize, u64)], msgs: &[L2Msg]) -> L2Out
where
    Exc: Connector
        + StreamSelector<MarketDataInstrument, OrderBooksL2>
        + StreamSelector<Keyed<u64, MarketDataInstrument>, OrderBooksL2>
        + StreamSelector<MarketInstrumentData<u64>, OrderBooksL2>
        + Send + Sync + Clone,
    Subscription<Exc, MarketDataInstrument, OrderBooksL2>: Identifier<Exc::Channel> + Identifier<Exc::Market>,
    Subscription<Exc, Keyed<u64, MarketDataInstrument>, OrderBooksL2>: Identifier<Exc::Channel> + Identifier<Exc::Market>,
    Subscription<Exc, MarketInstrumentData<u64>, OrderBooksL2>: Identifier<Exc::Channel> + Identifier<Exc::Market>,
    <Exc as StreamSelector<MarketDataInstrument, OrderBooksL2>>::Stream: TransformerOf,
    TrOf<Exc, MarketDataInstrument, OrderBooksL2>: ExchangeTransformer<Exc, MarketDataInstrument, OrderBooksL2>,
    <TrOf<Exc, MarketDataInstrument, OrderBooksL2> as Transformer>::Input: for<'de> Deserialize<'de>,
    <TrOf<Exc, MarketDataInstrument, OrderBooksL2> as Transformer>::OutputIter:
        IntoIterator<Item = Result<MarketEvent<MarketDataInstrument, OrderBookEvent>, barter_data::error::DataError>>,
    <Exc as StreamSelector<Keyed<u64, MarketDataInstrument>, OrderBooksL2>>::Stream: TransformerOf,
    TrOf<Exc, Keyed<u64, MarketDataInstrument>, OrderBooksL2>: ExchangeTransformer<Exc, u64, OrderBooksL2>,
    <TrOf<Exc, Keyed<u64, MarketDataInstrument>, OrderBooksL2> as Transformer>::Input: for<'de> Deserialize<'de>,
    <TrOf<Exc, Keyed<u64, MarketDataInstrument>, OrderBooksL2> as Transformer>::OutputIter:
        IntoIterator<Item = Result<MarketEvent<u64, OrderBookEvent>, barter_data::error::DataError>>,
    <Exc as StreamSelector<MarketInstrumentData<u64>, OrderBooksL2>>::Stream: TransformerOf,
    TrOf<Exc, MarketInstrumentData<u64>, OrderBooksL2>: ExchangeTransformer<Exc, u64, OrderBooksL2>,
    <TrOf<Exc, MarketInstrumentData<u64>, OrderBooksL2> as Transformer>::Input: for<'de> Deserialize<'de>,
    <TrOf<Exc, MarketInstrumentData<u64>, OrderBooksL2> as Transformer>::OutputIter:
        IntoIterator<Item = Result<MarketEvent<u64, OrderBookEvent>, barter_data::error::DataError>>,
{
    match fl {
        Flavour::Plain => {
            let insts: Vec<MarketDataInstrument> = subs_in.iter().map(mdi).collect();
            let subs = insts.iter().map(|i| Subscription::new(exc.clone(), i.clone(), OrderBooksL2)).collect();
            let snap_keys = snaps.iter().map(|(i, l)| (insts[*i].clone(), *l)).collect();
            let keys = keys.to_vec();
            let insts2 = insts.clone();
            let idx = move |k: &MarketDataInstrument| insts2.iter().position(|i| i == k).map(|p| keys[p]).unwrap_or(999_999_999);
            run_l2::<Exc, MarketDataInstrument>(ex, subs, snap_keys, &idx, msgs).await
        }
        Flavour::Keyed => {
            let subs = subs_in.iter().map(|su| Subscription::new(exc.clone(), Keyed::new(su.key, mdi(su)), OrderBooksL2)).collect();
            let snap_keys = snaps.iter().map(|(i, l)| (subs_in[*i].key, *l)).collect();
            run_l2::<Exc, Keyed<u64, MarketDataInstrument>>(ex, subs, snap_keys, &|k: &u64| *k, msgs).await
        }
        Flavour::Named => {
            let subs = subs_in
                .iter()
                .map(|su| Subscription::new(exc.clone(), MarketInstrumentData { key: su.key, name_exchange: su.name.as_str().into(), kind: su.kind.real() }, OrderBooksL2))
                .collect();
            let snap_keys = snaps.iter().map(|(i, l)| (subs_in[*i].key, *l)).collect();
            run_l2::<Exc, MarketInstrumentData<u64>>(ex, subs, snap_keys, &|k: &u64| *k, msgs).await
        }
    }
}

/// input: {"l2": true, "exch", "flavour", "subs": [..], "snaps": [{"sub": index, "l": lastUpdateId} ..]
///         (in the order handed to init), "msgs": [..]}
fn emit_l2(em: &mut Emitter, rt: &tokio::runtime::Runtime, stream: &'static str, input: &Value, extra_tags: &[String]) {
    let ex = Ex::parse(input["exch"].as_str().unwrap());
    let fl = Flavour::parse(input["flavour"].as_str().unwrap());
    let subs: Vec<SubIn> = input["subs"].as_array().unwrap().iter().map(SubIn::from_json).collect();
    let snaps: Vec<(usize, u64)> = input["snaps"]
        .as_array()
        .unwrap()
        .iter()
        .filter_map(|x| Some((x["sub"].as_u64()? as usize, x["l"].as_u64()?)))
        .filter(|(i, _)| *i < subs.len())
        .collect();
    let msgs: Vec<L2Msg> = input["msgs"].as_array().unwrap().iter().map(L2Msg::from_json).collect();
    let tmp = CaseIn { ex, sk: Sk::Trades, flavour: fl, subs: subs.clone(), bfx_cids: vec![], bfx_extra: vec![], msgs: vec![] };
    let keys = model_keys(&tmp);
    let res = std::panic::catch_unwind(AssertUnwindSafe(|| {
        rt.block_on(async {
            match ex {
                Ex::BinanceSpot => run_l2_flavour(BinanceSpot::default(), ex, fl, &subs, &keys, &snaps, &msgs).await,
                Ex::BinanceFuturesUsd => run_l2_flavour(BinanceFuturesUsd::default(), ex, fl, &subs, &keys, &snaps, &msgs).await,
                e => panic!("no OrderBooksL2 connector for {e:?}"),
            }
        })
    }));
    let out = res.unwrap_or_else(|_| L2Out {
        map: vec![],
        init_ok: true,
        note: Some("panic outside transform".into()),
        outcomes: msgs.iter().map(|_| ("L2Panic".to_string(), "l2:panic")).collect(),
    });
    let subs_coq: Vec<String> = subs
        .iter()
        .zip(keys.iter())
        .map(|(su, k)| {
            let d = if fl == Flavour::Named {
                format!("(INamed {} {})", s(&su.name), su.kind.coq())
            } else {
                format!("(IPair {} {} {})", s(&su.base), s(&su.quote), su.kind.coq())
            };
            pair(&n(*k as u128), &d)
        })
        .collect();
    let map: Vec<String> = out.map.iter().map(|(id, k)| pair(&s(id), &n(*k as u128))).collect();
    let snaps_coq: Vec<String> = snaps.iter().map(|(i, l)| pair(&n(keys[*i] as u128), &n(*l as u128))).collect();
    let msgs_coq: Vec<String> = if out.init_ok {
        msgs.iter().zip(out.outcomes.iter()).map(|(m, (o, _))| pair(&m.coq(), o)).collect()
    } else {
        vec![]
    };
    let coq = format!(
        "(CL2 {} {} {} {} {} {})",
        ex.name(), list(&subs_coq), list(&map), list(&snaps_coq), if out.init_ok { "true" } else { "false" }, list(&msgs_coq)
    );
    let mut tags = vec![format!("ex:{}", ex.name()), format!("pair:{}/OrderBooksL2", ex.name()), format!("flavour:{}", fl.name())];
    tags.push(if out.init_ok { "l2:init_ok".into() } else { "l2:init_error".into() });
    for (_, t) in &out.outcomes {
        tags.push(t.to_string());
    }
    if let Some(nt) = &out.note {
        tags.push(format!("note:{nt}"));
    }
    tags.extend(extra_tags.iter().cloned());
    let nontrivial = out.outcomes.iter().filter(|(_, t)| *t == "l2:attributed").count() >= 2;
    em.emit(Case { stream, input: input.clone(), coq, nontrivial, tags });
}

const L2_BASES: [&str; 12] = ["btc", "BTC", "1000pepe", "pepe", "1000shib", "shib", "eth", "ethw", "bt", "b", "sol", "1000sats"];
const L2_QUOTES: [&str; 6] = ["usdt", "usdc", "USDT", "fdusd", "cusdt", "tcusdt"];

fn gen_l2_case(r: &mut Rng, ex: Ex, fl: Flavour, permuted: bool, adversarial: bool, max_subs: u64) -> Value {
    let kind = if ex == Ex::BinanceSpot { IK::Spot } else { IK::Perp };
    let n_subs = 2 + r.below(max_subs - 1) as usize;
    let mut subs: Vec<SubIn> = vec![];
    let mut tries = 0;
    while subs.len() < n_subs && tries < 200 {
        tries += 1;
        let (b, q) = (r.pick(&L2_BASES).to_string(), r.pick(&L2_QUOTES).to_string());
        let name = venue_symbol(ex, &b, &q, &kind);
        let su = SubIn { key: 1 + r.below(1000), base: b, quote: q, name, kind: kind.clone() };
        let sym = sub_symbol(ex, fl, &su);
        if subs.iter().any(|o| sub_symbol(ex, fl, o) == sym || o.key == su.key) {
            continue;
        }
        subs.push(su);
    }
    // snapshot ids far apart, so that a market's first update is invalid against any other
    // market's snapshot
    let mut ls: Vec<u64> = (0..subs.len() as u64).map(|i| 1000 * (i + 1) + r.below(400)).collect();
    r.shuffle(&mut ls);
    let mut order: Vec<usize> = (0..subs.len()).collect();
    if permuted {
        r.shuffle(&mut order);
        if order.iter().enumerate().all(|(i, o)| i == *o) {
            order.rotate_left(1);
        }
    }
    let mut snaps: Vec<Value> = order.iter().map(|i| json!({"sub": i, "l": ls[*i]})).collect();
    if adversarial && r.chance(1, 6) {
        snaps.pop(); // a missing snapshot: init must fail
    }
    let t0 = 1_571_889_000_000i64 + r.below(1_000_000_000) as i64;
    let mk = |r: &mut Rng, sym: &str, first: u64, last: u64, prev: u64| L2Msg {
        sym: sym.to_string(),
        first,
        last,
        prev,
        te: t0 + r.below(100_000) as i64,
        tt: t0 - 1 - r.below(1000) as i64,
        bid: (4 + r.below(400_000) as i64, 4 * (1 + r.below(1000)) as i64),
        ask: (400_004 + r.below(400_000) as i64, 4 * (1 + r.below(1000)) as i64),
    };
    let mut msgs: Vec<L2Msg> = vec![];
    let mut idx: Vec<usize> = (0..subs.len()).collect();
    r.shuffle(&mut idx);
    for i in idx {
        let sym = sub_symbol(ex, fl, &subs[i]);
        let l = ls[i];
        // valid first update for both rule sets: U <= l, l + 1 <= u
        let first = l - r.below(3);
        let last = l + 1 + r.below(5);
        let pu = first - 1 - r.below(3);
        msgs.push(mk(r, &sym, first, last, pu));
        if adversarial {
            match r.below(4) {
                0 => msgs.push(mk(r, &sym, last + 1, last + 3, last)),  // valid next
                1 => msgs.push(mk(r, &sym, last + 5, last + 9, last + 4)), // gap
                2 => msgs.push(mk(r, &sym, first, l - 1 + (ex == Ex::BinanceSpot) as u64, pu)), // stale
                _ => {}
            }
        }
    }
    // a market nobody subscribed to, and a case variant of a subscribed one
    let other = venue_symbol(ex, "doge", "usdt", &kind);
    let pos = r.below(msgs.len() as u64 + 1) as usize;
    let m = mk(r, &other, 1000, 1004, 998);
    msgs.insert(pos, m);
    if r.chance(1, 2) {
        let v = sub_symbol(ex, fl, &subs[0]).to_lowercase();
        let m = mk(r, &v, ls[0], ls[0] + 2, ls[0] - 1);
        msgs.push(m);
    }
    json!({"l2": true, "exch": ex.name(), "flavour": fl.name(),
           "subs": subs.iter().map(|s| s.to_json()).collect::<Vec<_>>(), "snaps": snaps,
           "msgs": msgs.iter().map(|m| m.to_json()).collect::<Vec<_>>()})
}

fn gen_l2(em: &mut Emitter, rt: &tokio::runtime::Runtime, r: &mut Rng, n_rand: usize) {
    // table: both pairs x three flavours x snapshots in subscription order / permuted
    for ex in [Ex::BinanceSpot, Ex::BinanceFuturesUsd] {
        for fl in [Flavour::Plain, Flavour::Keyed, Flavour::Named] {
            for permuted in [false, true] {
                for n in [3u64, 8] {
                    let c = gen_l2_case(r, ex, fl, permuted, false, n);
                    emit_l2(em, rt, "table", &c, &[format!("l2:snapshots_{}", if permuted { "permuted" } else { "in_order" })]);
                }
            }
        }
    }
    for i in 0..n_rand {
        let ex = if i % 2 == 0 { Ex::BinanceSpot } else { Ex::BinanceFuturesUsd };
        let fl = [Flavour::Plain, Flavour::Keyed, Flavour::Named][(i / 2) % 3];
        let adversarial = i % 3 == 2;
        let permuted = r.chance(2, 3);
        let c = gen_l2_case(r, ex, fl, permuted, adversarial, 8);
        emit_l2(em, rt, if adversarial { "adversarial" } else { "random" }, &c, &[]);
    }
}

fn main() {
    quiet_panics();
    let args = parse_args();
    let mut em = Emitter::create(&args.out);
    let rt = tokio::runtime::Builder::new_current_thread().enable_all().build().expect("runtime");
    match args.mode.as_str() {
        "gen" => {
            let mut r = Rng::new(args.seed);
            let (n_rand, n_adv, max_subs, n_msgs) = if args.tier == "thorough" { (6000, 3000, 8, 10) } else { (380, 190, 5, 7) };
            table(&mut em, &rt, &mut r);
            gen_support(&mut em, &mut r, if args.tier == "thorough" { 40 } else { 6 });
            gen_l2(&mut em, &rt, &mut r, if args.tier == "thorough" { 900 } else { 60 });
            let fls = [Flavour::Plain, Flavour::Keyed, Flavour::Named];
            for i in 0..n_rand {
                let pair = PAIRS[i % PAIRS.len()];
                let fl = fls[(i / PAIRS.len()) % 3];
                let case = gen_case(&mut r, pair, fl, false, max_subs, n_msgs);
                emit_case(&mut em, &rt, "random", &case, &[]);
            }
            for i in 0..n_adv {
                let pair = PAIRS[i % PAIRS.len()];
                let fl = fls[(i / PAIRS.len()) % 3];
                let case = gen_case(&mut r, pair, fl, true, max_subs, n_msgs);
                emit_case(&mut em, &rt, "adversarial", &case, &[]);
            }
        }
        "exec" => {
            for (inp, stream) in read_inputs(args.input.as_deref().expect("--in")) {
                if inp.get("l2").is_some() {
                    emit_l2(&mut em, &rt, stream_static(&stream), &inp, &[]);
                    continue;
                }
                if inp.get("support").is_some() {
                    emit_support(&mut em, stream_static(&stream), &inp);
                    continue;
                }
                let case = CaseIn::from_json(&inp);
                emit_case(&mut em, &rt, stream_static(&stream), &case, &[]);
            }
        }
        m => panic!("unknown mode {m}"),
    }
    em.finish();
}
