//! C19 correspondence harness: CancelOrders / ClosePositions commands act on exactly the filtered
//! scope. Generated engine states (several exchanges and underlyings, every mix of order states,
//! long / short / no position, price known / unknown) x every filter (None, every subset of the
//! exchanges, of the instruments, of the underlyings, plus unknown keys) x both commands, each
//! issued twice (through Engine::process and through Engine::action). The machinery (spec, stubs,
//! observation, Coq printers) is in `vh-engine`; requests are compared as multisets in Coq
//! (the code iterates a hash map).
use serde_json::Value;
use vh_common::*;
use vh_engine::*;

const STRAT: u32 = 7;

fn key(ex: usize, inst: usize, cid: u32) -> KeyS {
    KeyS { ex, inst, strat: STRAT, cid }
}
fn meta(oid: u32, t: i64, filled: D4) -> MetaS {
    MetaS { oid, t, filled }
}
fn order(ex: usize, inst: usize, cid: u32, st: StS) -> OrderS {
    OrderS {
        key: key(ex, inst, cid),
        buy: cid % 2 == 0,
        price: 1_002_500 + 2500 * cid as i64,
        qty: 20_000,
        kind: (cid % 2) as u8,
        tif: (cid % 5) as u8,
        st,
    }
}
fn default_close() -> CloseS {
    CloseS::Default { strat: 9, cid_base: 1000 }
}

fn emit(em: &mut Emitter, stream: &'static str, spec: &Spec, extra_tags: &[String]) {
    let ran = match catch(std::panic::AssertUnwindSafe(|| run(spec))) {
        Ok(r) => r,
        Err(_) => panicked(),
    };
    let mut tags = ran.tags;
    tags.extend(extra_tags.iter().cloned());
    em.emit(Case {
        stream,
        input: serde_json::to_value(spec).expect("spec to json"),
        coq: ran.coq,
        nontrivial: ran.nontrivial,
        tags,
    });
}

/// all subsets of `items`
fn subsets<T: Clone>(items: &[T]) -> Vec<Vec<T>> {
    (0..(1u32 << items.len()))
        .map(|m| items.iter().enumerate().filter(|(i, _)| m & (1 << i) != 0).map(|(_, x)| x.clone()).collect())
        .collect()
}

/// every filter for a state: None, all subsets of exchanges / instruments / distinct underlyings,
/// plus unknown keys, a swapped underlying and a duplicated entry
fn all_filters(lay: &[(usize, usize, usize)], n_ex: usize) -> Vec<FilterS> {
    let mut fs = vec![FilterS::None];
    let exs: Vec<usize> = (0..n_ex).collect();
    for s in subsets(&exs) {
        fs.push(FilterS::Exchanges(s));
    }
    fs.push(FilterS::Exchanges(vec![n_ex + 3]));
    fs.push(FilterS::Exchanges(vec![0, 0]));
    let is: Vec<usize> = (0..lay.len()).collect();
    for s in subsets(&is) {
        fs.push(FilterS::Instruments(s));
    }
    fs.push(FilterS::Instruments(vec![lay.len() + 2]));
    fs.push(FilterS::Instruments(vec![lay.len() - 1, lay.len() - 1]));
    let mut us: Vec<(usize, usize)> = lay.iter().map(|l| (l.1, l.2)).collect();
    us.sort();
    us.dedup();
    for s in subsets(&us) {
        fs.push(FilterS::Underlyings(s));
    }
    fs.push(FilterS::Underlyings(vec![(us[0].1, us[0].0)])); // quote/base swapped
    fs.push(FilterS::Underlyings(vec![(us[0].0, us[0].1 + 50)]));
    fs
}

fn cmd_steps(cmd: &CmdS, path: usize) -> Vec<StepS> {
    let op = |c: &CmdS| if path == 0 { OpS::Process(EvS::Command(c.clone())) } else { OpS::Action(c.clone()) };
    // the command, issued twice
    vec![
        StepS { op: op(cmd), g: GS::default(), close: default_close() },
        StepS { op: op(cmd), g: GS::default(), close: default_close() },
    ]
}

/// the fixed table state: 3 exchanges; two instruments on exchange 0 sharing an underlying, the same
/// asset names on exchange 1 (different asset indices), a different underlying on exchange 2;
/// per instrument a different mix of order states, long / short / no position, price or not
fn table_state(links: Vec<LinkS>) -> Spec {
    let all_states = |ex: usize, inst: usize| {
        vec![
            order(ex, inst, 1, StS::Oif),
            order(ex, inst, 2, StS::Open(meta(12, 5, 0))),
            order(ex, inst, 3, StS::Open(meta(13, 6, 5_000))), // partially filled
            order(ex, inst, 4, StS::Cif(None)),
            order(ex, inst, 5, StS::Cif(Some(meta(15, 7, 0)))),
        ]
    };
    Spec {
        trading: false,
        links,
        instruments: vec![
            InstS {
                ex: 0,
                base: "a".into(),
                quote: "b".into(),
                orders: all_states(0, 0),
                pos: Some(PosS { buy: true, qty: 15_000, qty_max: 20_000 }),
                last: Some((10, 1_002_500)),
            },
            InstS {
                ex: 0,
                base: "a".into(),
                quote: "b".into(),
                orders: vec![order(0, 1, 2, StS::Cif(Some(meta(22, 1, 0)))), order(0, 1, 7, StS::Oif)],
                pos: Some(PosS { buy: false, qty: 7_500, qty_max: 10_000 }),
                last: None, // position but no price
            },
            InstS {
                ex: 1,
                base: "a".into(),
                quote: "b".into(),
                orders: vec![order(1, 2, 1, StS::Open(meta(31, 2, 0)))],
                pos: Some(PosS { buy: false, qty: 2_500, qty_max: 2_500 }),
                last: Some((3, 505_000)),
            },
            InstS {
                ex: 1,
                base: "c".into(),
                quote: "a".into(),
                orders: vec![],
                pos: None, // price but no position
                last: Some((4, 20_000)),
            },
            InstS {
                ex: 2,
                base: "b".into(),
                quote: "c".into(),
                orders: all_states(2, 4),
                pos: Some(PosS { buy: true, qty: 100, qty_max: 30_000 }),
                last: Some((9, 77_500)),
            },
        ],
        steps: vec![],
    }
}

fn filter_kind(f: &FilterS) -> &'static str {
    match f {
        FilterS::None => "none",
        FilterS::Exchanges(_) => "exchanges",
        FilterS::Instruments(_) => "instruments",
        FilterS::Underlyings(_) => "underlyings",
    }
}

fn table(em: &mut Emitter) {
    let base = table_state(vec![LinkS::Open, LinkS::Open, LinkS::Open]);
    let (lay, n_ex) = layout(&base);
    let filters = all_filters(&lay, n_ex);
    for f in &filters {
        for (ci, cmd) in [CmdS::CancelOrders(f.clone()), CmdS::ClosePositions(f.clone())].iter().enumerate() {
            for path in 0..2 {
                // all links open: the repeat must request nothing; with exchange 0's link closed the
                // failed requests (and only those) come again
                for (li, links) in [
                    vec![LinkS::Open, LinkS::Open, LinkS::Open],
                    vec![LinkS::Closed, LinkS::Open, LinkS::Missing],
                ]
                .iter()
                .enumerate()
                {
                    // the dead-link variant only through Engine::action for half of the filters (size)
                    if li == 1 && path == 0 {
                        continue;
                    }
                    let mut s = table_state(links.clone());
                    s.steps = cmd_steps(cmd, path);
                    let tags = vec![
                        format!("table_{}_{}", if ci == 0 { "cancel" } else { "close" }, filter_kind(f)),
                        format!("table_path{}_links{}", path, li),
                    ];
                    emit(em, "table", &s, &tags);
                }
            }
        }
    }
}

// ---- random states ---------------------------------------------------------------------------------

fn gen_state(r: &mut Rng, adversarial: bool) -> Spec {
    let n_ex = 1 + r.below(3) as usize;
    let n_inst = n_ex + r.below((6 - n_ex) as u64) as usize;
    let mut exs: Vec<usize> = (0..n_inst).map(|j| j % n_ex).collect();
    exs.sort();
    let assets = ["a", "b", "c"];
    let mut instruments = vec![];
    for (j, ex) in exs.iter().enumerate() {
        let bi = r.below(3) as usize;
        let qi = (bi + 1 + r.below(2) as usize) % 3;
        let mut orders = vec![];
        let mut used = vec![];
        for _ in 0..r.below(6) {
            let cid = 1 + r.below(9) as u32;
            if used.contains(&cid) {
                continue;
            }
            used.push(cid);
            let st = match r.below(5) {
                0 => StS::Oif,
                1 => StS::Open(meta(100 + cid, r.range(0, 10), 0)),
                2 => StS::Open(meta(100 + cid, r.range(0, 10), 5_000)),
                3 => StS::Cif(None),
                _ => StS::Cif(Some(meta(100 + cid, r.range(0, 10), 0))),
            };
            orders.push(order(*ex, j, cid, st));
        }
        instruments.push(InstS {
            ex: *ex,
            base: assets[bi].into(),
            quote: assets[qi].into(),
            orders,
            pos: match r.below(3) {
                0 => None,
                k => {
                    let q = 2_500 * (1 + r.below(8) as i64);
                    Some(PosS { buy: k == 1, qty: q, qty_max: q + 2_500 * r.below(3) as i64 })
                }
            },
            last: if r.chance(2, 3) { Some((r.range(0, 10), 2500 * (1 + r.below(400) as i64))) } else { None },
        });
    }
    let n_links = if adversarial { (n_ex as i64 + *r.pick(&[-1i64, 0, 1])).max(0) as usize } else { n_ex };
    let links = (0..n_links)
        .map(|_| {
            if r.chance(if adversarial { 4 } else { 1 }, 10) {
                *r.pick(&[LinkS::Closed, LinkS::Unhealthy, LinkS::Missing])
            } else {
                LinkS::Open
            }
        })
        .collect();
    Spec { trading: adversarial && r.chance(1, 3), links, instruments, steps: vec![] }
}

fn gen_filter(r: &mut Rng, lay: &[(usize, usize, usize)], n_ex: usize, adversarial: bool) -> FilterS {
    let keep = |r: &mut Rng| r.chance(1, 2);
    match r.below(7) {
        0 => FilterS::None,
        1 | 2 => {
            let mut v: Vec<usize> = (0..n_ex).filter(|_| keep(r)).collect();
            if adversarial && r.chance(1, 3) {
                v.push(n_ex + r.below(3) as usize);
            }
            FilterS::Exchanges(v)
        }
        3 | 4 => {
            let mut v: Vec<usize> = (0..lay.len()).filter(|_| keep(r)).collect();
            if adversarial && r.chance(1, 3) {
                v.push(lay.len() + r.below(3) as usize);
            }
            if adversarial && !v.is_empty() && r.chance(1, 3) {
                v.push(v[0]);
            }
            r.shuffle(&mut v);
            FilterS::Instruments(v)
        }
        _ => {
            let mut us: Vec<(usize, usize)> = lay.iter().map(|l| (l.1, l.2)).collect();
            us.sort();
            us.dedup();
            let mut v: Vec<(usize, usize)> = us.iter().copied().filter(|_| keep(r)).collect();
            if adversarial && r.chance(1, 2) {
                let u = *r.pick(&us);
                v.push(*r.pick(&[(u.1, u.0), (u.0, u.1 + 1), (u.0 + 1, u.1)]));
            }
            FilterS::Underlyings(v)
        }
    }
}

fn gen_case(r: &mut Rng, adversarial: bool) -> Spec {
    let mut s = gen_state(r, adversarial);
    let (lay, n_ex) = layout(&s);
    let n_cmds = 1 + r.below(3);
    for _ in 0..n_cmds {
        let f = gen_filter(r, &lay, n_ex, adversarial);
        let cmd = if r.chance(1, 2) { CmdS::CancelOrders(f) } else { CmdS::ClosePositions(f) };
        let path = r.below(2) as usize;
        let mut steps = cmd_steps(&cmd, path);
        if r.chance(1, 3) {
            // something happens between the two issues: a failed cancel puts an order back to Open
            // (it must then be requested again), a fill changes a position, a link comes back
            let inst = r.below(lay.len() as u64) as usize;
            let mid = match r.below(4) {
                0 => OpS::Process(EvS::CancelResponse { key: key(lay[inst].0, inst, 1 + r.below(9) as u32), ok: r.chance(1, 2) }),
                1 => OpS::Process(EvS::Trade {
                    inst,
                    buy: r.chance(1, 2),
                    qty: 2_500 * (1 + r.below(6) as i64),
                    price: 1_000_000,
                    fee: 0,
                }),
                2 => OpS::Process(EvS::MarketTrade { inst, t: r.range(0, 30), price: 2500 * (1 + r.below(400) as i64) }),
                _ => OpS::SetLink(r.below(n_ex as u64) as usize, *r.pick(&[LinkS::Open, LinkS::Closed])),
            };
            steps.insert(1, StepS { op: mid, g: GS::default(), close: default_close() });
        }
        if adversarial && r.chance(1, 3) {
            // a strategy request generated in the same step as the command (only when enabled)
            steps[0].g = GS {
                cancels: vec![],
                opens: vec![OpenS { key: key(lay[0].0, 0, 77), buy: true, price: 1_000_000, qty: 10_000, kind: 0, tif: 4 }],
                cmask: vec![],
                omask: vec![true],
            };
        }
        s.steps.extend(steps);
    }
    s
}

fn main() {
    quiet_panics();
    let args = parse_args();
    let mut em = Emitter::create(&args.out);
    match args.mode.as_str() {
        "gen" => {
            let mut r = Rng::new(args.seed);
            let (n_rand, n_adv) = if args.tier == "thorough" { (3000, 1500) } else { (200, 100) };
            table(&mut em);
            for _ in 0..n_rand {
                let s = gen_case(&mut r, false);
                emit(&mut em, "random", &s, &[]);
            }
            for _ in 0..n_adv {
                let s = gen_case(&mut r, true);
                emit(&mut em, "adversarial", &s, &[]);
            }
        }
        "exec" => {
            for (inp, stream) in read_inputs(args.input.as_deref().expect("--in")) {
                let spec: Result<Spec, _> = serde_json::from_value::<Spec>(inp.clone());
                match spec {
                    Ok(s) if !s.instruments.is_empty() => emit(&mut em, stream_static(&stream), &s, &[]),
                    _ => em.emit(Case {
                        stream: stream_static(&stream),
                        input: if inp.is_null() { Value::Null } else { inp },
                        coq: "(mkCase (mkState false [] []) [])".into(),
                        nontrivial: false,
                        tags: vec!["unrunnable_input".into()],
                    }),
                }
            }
        }
        m => panic!("unknown mode {m}"),
    }
    em.finish();
}
