//! C19 correspondence harness: CancelOrders / ClosePositions commands act on exactly the filtered
//! scope. Generated engine states (several exchanges and underlyings, every mix of order states,
//! long / short / no position, price known / unknown) x every filter (None, every subset of the
//! exchanges, of the instruments, of the underlyings, plus unknown keys) x both commands, each
//! issued twice (through Engine::process and through Engine::action). The machinery (spec, stubs,
//! observation, Coq printers) is in `vh-engine`; requests are compared as multisets in Coq
//! (the code iterates a hash map).
use serde_json::Value;
use vh_common::*;
use vh_engine::*;

const STRAT: u32 = 7;

fn key(ex: usize, inst: usize, cid: u32) -> KeyS {
    KeyS { ex, inst, strat: STRAT, cid }
}
fn meta(oid: u32, t: i64, filled: D4) -> MetaS {
    MetaS { oid, t, filled }
}
fn order(ex: usize, inst: usize, cid: u32, st: StS) -> OrderS {
    OrderS {
        // two strategies' orders side by side on one instrument
        key: KeyS { ex, inst, strat: if cid % 3 == 0 { STRAT + 1 } else { STRAT }, cid },
        buy: cid % 2 == 0,
        price: 1_002_500 + 2500 * cid as i64,
        qty: 20_000,
        kind: (cid % 2) as u8,
        tif: (cid % 5) as u8,
        st,
    }
}
fn default_close() -> CloseS {
    CloseS::Default { strat: 9, cid_base: 1000 }
}

fn emit(em: &mut Emitter, stream: &'static str, spec: &Spec, extra_tags: &[String]) {
    let ran = match catch(std::panic::AssertUnwindSafe(|| run(spec))) {
        Ok(r) => r,
        Err(msg) => {
            eprintln!("harness-level panic: {msg}");
            panicked()
        }
    };
    let mut tags = ran.tags;
    tags.extend(extra_tags.iter().cloned());
    em.emit(Case {
        stream,
        input: serde_json::to_value(spec).expect("spec to json"),
        coq: ran.coq,
        nontrivial: ran.nontrivial,
        tags,
    });
}

/// all subsets of `items`
fn subsets<T: Clone>(items: &[T]) -> Vec<Vec<T>> {
    (0..(1u32 << items.len()))
        .map(|m| items.iter().enumerate().filter(|(i, _)| m & (1 << i) != 0).map(|(_, x)| x.clone()).collect())
        .collect()
}

/// every filter for a state: None; all subsets of the exchanges; all instrument subsets of size <= 2 and
/// the full set; all subsets of the distinct underlyings; plus unknown keys, a swapped underlying, and
/// lists naming the same key twice / three times (a filter is a list, not a set)
fn all_filters(lay: &[(usize, usize, usize)], n_ex: usize) -> Vec<FilterS> {
    let mut fs = vec![FilterS::None];
    let exs: Vec<usize> = (0..n_ex).collect();
    for s in subsets(&exs) {
        fs.push(FilterS::Exchanges(s));
    }
    fs.push(FilterS::Exchanges(vec![n_ex + 3]));
    fs.push(FilterS::Exchanges(vec![0, 0]));
    fs.push(FilterS::Exchanges(vec![1, 0, 1, 1]));
    let n = lay.len();
    let is: Vec<usize> = (0..n).collect();
    for s in subsets(&is) {
        if s.len() <= 2 || s.len() == n {
            fs.push(FilterS::Instruments(s));
        }
    }
    fs.push(FilterS::Instruments(vec![n + 2]));
    fs.push(FilterS::Instruments(vec![n - 1, n - 1]));
    fs.push(FilterS::Instruments(vec![0, 2, 0]));
    fs.push(FilterS::Instruments(vec![1, 1, 1]));
    fs.push(FilterS::Instruments(vec![n - 1, 0, n + 1, 0]));
    let mut us: Vec<(usize, usize)> = lay.iter().map(|l| (l.1, l.2)).collect();
    us.sort();
    us.dedup();
    for s in subsets(&us) {
        fs.push(FilterS::Underlyings(s));
    }
    fs.push(FilterS::Underlyings(vec![(us[0].1, us[0].0)])); // quote/base swapped
    fs.push(FilterS::Underlyings(vec![(us[0].0, us[0].1 + 50)]));
    fs.push(FilterS::Underlyings(vec![us[0], us[0]]));
    fs.push(FilterS::Underlyings(vec![us[0], us[us.len() - 1], us[0], us[0]]));
    fs
}

/// every public entry point to the two mechanisms:
/// 0 Engine::process(Command), 1 Engine::action(Command), 2 the trait method (CancelOrders::cancel_orders /
/// ClosePositions::close_positions) called directly on the Engine, 3 / 4 OnDisconnectStrategy::on_disconnect
/// calling it on an account / market Reconnecting notice, 5 OnTradingDisabled::on_trading_disabled calling it
const PATHS: usize = 6;
fn entry(cmd: &CmdS, path: usize) -> OpS {
    match path {
        0 => OpS::Process(EvS::Command(cmd.clone())),
        1 => OpS::Action(cmd.clone()),
        2 => OpS::Call(cmd.clone()),
        h => OpS::Hook((h - 3) as u8, cmd.clone()),
    }
}
fn one(op: OpS, many1: bool) -> StepS {
    StepS { op, g: GS::default(), close: default_close(), many1 }
}
/// the command issued `times` times in a row through one entry point (the trading-disabled hook only
/// fires on the enabled -> disabled transition, so trading is re-enabled before each repeat)
fn cmd_steps(cmd: &CmdS, path: usize, times: usize, many1: bool) -> Vec<StepS> {
    let mut v = vec![];
    for k in 0..times {
        if path == 5 && k > 0 {
            v.push(one(OpS::Process(EvS::Trading(true)), false));
        }
        v.push(one(entry(cmd, path), many1));
    }
    v
}
/// ... then once more with a WIDER filter (None) through the same entry point
fn widen(cmd: &CmdS, path: usize, v: &mut Vec<StepS>) {
    let wide = match cmd {
        CmdS::CancelOrders(_) => CmdS::CancelOrders(FilterS::None),
        _ => CmdS::ClosePositions(FilterS::None),
    };
    if path == 5 {
        v.push(one(OpS::Process(EvS::Trading(true)), false));
    }
    v.push(one(entry(&wide, path), false));
}

const TIMES: [i64; 12] =
    [0, 1, 999, 1_000, 999_999, 1_000_000, 1_000_001, 999_999_999, 1_000_000_000, 86_400_000_000_000, -1, -3_000_000_000_000_000];
fn pick_time(r: &mut Rng) -> i64 {
    *r.pick(&TIMES)
}
/// two-sided books have an exact volume-weighted mid-price (amounts 1:1 or 1:3)
fn gen_l1(r: &mut Rng) -> L1S {
    let t = pick_time(r);
    let bp = 2500 * (1 + r.below(400) as i64);
    let ap = bp + 2500 * (1 + r.below(8) as i64);
    let a = 1_000 * (1 + r.below(9) as i64);
    match r.below(5) {
        0 => L1S { t, bid: Some((bp, a)), ask: None },
        1 => L1S { t, bid: None, ask: Some((ap, a)) },
        2 => L1S { t, bid: Some((bp, a)), ask: Some((ap, 3 * a)) },
        _ => L1S { t, bid: Some((bp, a)), ask: Some((ap, a)) },
    }
}

/// the fixed table state: 3 exchanges; two instruments on exchange 0 sharing an underlying, the same
/// asset names on exchange 1 (different asset indices), a different underlying on exchange 2;
/// per instrument a different mix of order states, long / short / no position, price or not
fn table_state(links: Vec<LinkS>) -> Spec {
    // client order ids share prefixes ("1", "11", "111"); every order state occurs
    let all_states = |ex: usize, inst: usize| {
        vec![
            order(ex, inst, 1, StS::Oif),
            order(ex, inst, 11, StS::Open(meta(12, 999_999, 0))),
            order(ex, inst, 111, StS::Open(meta(13, 1_000_000, 5_000))), // partially filled
            order(ex, inst, 6, StS::Open(meta(16, 2_000_000, 25_000))), // filled ABOVE the quantity: still tracked, still cancellable
            order(ex, inst, 4, StS::Cif(None)),
            order(ex, inst, 5, StS::Cif(Some(meta(15, 1_000_001, 0)))),
        ]
    };
    let mk = |ex: usize, base: &str, quote: &str, kind: u8, csize: D4, settle: &str, orders, pos, last, l1| InstS {
        ex,
        base: base.into(),
        quote: quote.into(),
        orders,
        pos,
        last,
        kind,
        csize,
        settle: settle.into(),
        l1,
    };
    Spec {
        builder: false,
        exset: 1,
        trading: false,
        links,
        instruments: vec![
            // exchange 0: spot + perpetual (contract size 0.001, settled in the quote) + option (size 100,
            // settled in a third asset) all on the SAME underlying a/b
            mk(0, "a", "b", 0, 0, "", all_states(0, 0), Some(PosS { buy: true, qty: 15_000, qty_max: 20_000 }),
               Some((10, 1_002_500)), None),
            mk(0, "a", "b", 1, 10, "b", vec![order(0, 1, 11, StS::Cif(Some(meta(22, 1, 0)))), order(0, 1, 7, StS::Oif)],
               Some(PosS { buy: false, qty: 7_500, qty_max: 10_000 }), None,
               Some(L1S { t: 5, bid: Some((1_000_000, 2_000)), ask: None })), // position, one-sided book: no price
            mk(0, "a", "b", 3, 1_000_000, "c", vec![order(0, 2, 1, StS::Open(meta(23, 2, 0)))],
               Some(PosS { buy: true, qty: 2_500, qty_max: 5_000 }), Some((3, 990_000)),
               // two-sided book: price = volume-weighted mid 101.5, NOT the last trade 99
               Some(L1S { t: 1_000, bid: Some((1_010_000, 3_000)), ask: Some((1_030_000, 1_000)) })),
            // exchange 1: the same asset names (different asset indices), a future
            mk(1, "a", "b", 2, 100, "a", vec![order(1, 3, 1, StS::Open(meta(31, 2, 0)))],
               Some(PosS { buy: false, qty: -2_500, qty_max: 2_500 }), Some((3, 505_000)), None), // negative-size position
            mk(1, "c", "a", 0, 0, "", vec![], None, Some((4, 20_000)), None), // price but no position
            // exchange 2
            mk(2, "b", "c", 1, 1_000_000, "b", all_states(2, 5), Some(PosS { buy: true, qty: 0, qty_max: 30_000 }), // zero-size position
               Some((9, 77_500)), None),
        ],
        steps: vec![],
    }
}

fn filter_kind(f: &FilterS) -> &'static str {
    match f {
        FilterS::None => "none",
        FilterS::Exchanges(_) => "exchanges",
        FilterS::Instruments(_) => "instruments",
        FilterS::Underlyings(_) => "underlyings",
    }
}

fn filter_len(f: &FilterS) -> usize {
    match f {
        FilterS::None => 0,
        FilterS::Exchanges(l) => l.len(),
        FilterS::Instruments(l) => l.len(),
        FilterS::Underlyings(l) => l.len(),
    }
}

fn table(em: &mut Emitter) {
    let base = table_state(vec![LinkS::Open, LinkS::Open, LinkS::Open]);
    let (lay, n_ex) = layout(&base);
    let filters = all_filters(&lay, n_ex);
    // dead-link topologies for variant (c): a dead link (receiver dropped = unrecoverable error, or
    // unhealthy, or no link) on the exchange whose instruments come FIRST in instrument-index order,
    // a healthy exchange later; two dead links in a row; a dead link between two healthy ones
    use LinkS::{Closed as Cl, Missing as Mi, Open as Op, Unhealthy as Un};
    let dead_first: [[LinkS; 3]; 8] = [
        [Cl, Op, Op],
        [Cl, Cl, Op],
        [Op, Cl, Op],
        [Un, Cl, Op],
        [Mi, Mi, Op],
        [Cl, Un, Op],
        [Mi, Op, Cl],
        [Cl, Op, Cl],
    ];
    for (fi, f) in filters.iter().enumerate() {
        for (ci, cmd) in [CmdS::CancelOrders(f.clone()), CmdS::ClosePositions(f.clone())].iter().enumerate() {
            // (a) through Engine::process, all links open, the command THREE times: the repeats must
            //     request nothing;  (b) through Engine::action with exchange 0's link closed and a
            //     link-less exchange in the MIDDLE, twice: exactly the failed requests come again.
            //     One-element filters are built as OneOrMany::Many(vec![x]) in (b).
            //     (c) a rotating dead-link topology (see above), alternately through process / action,
            //     twice: every request to a healthy link must go out although an EARLIER request of
            //     the same batch failed unrecoverably.
            for (vi, (path, links, times)) in [
                (0usize, vec![LinkS::Open, LinkS::Open, LinkS::Open], 3usize),
                (1usize, vec![LinkS::Closed, LinkS::Missing, LinkS::Open], 2usize),
                ((fi + ci) % 2, dead_first[(fi + 3 * ci) % dead_first.len()].to_vec(), 2usize),
            ]
            .iter()
            .enumerate()
            {
                let mut s = table_state(links.clone());
                s.steps = cmd_steps(cmd, *path, *times, vi == 1 && filter_len(f) == 1);
                let tags = vec![
                    format!("table_{}_{}", if ci == 0 { "cancel" } else { "close" }, filter_kind(f)),
                    format!("table_path{}_links{}", path, vi),
                ];
                emit(em, "table", &s, &tags);
            }
        }
    }
    // the less-used public entry points (direct trait call, the three strategy hooks), for every
    // sixth filter: the call twice (the repeat must request nothing new), then with a wider filter
    for (fi, f) in filters.iter().enumerate() {
        if fi % 6 != 1 {
            continue;
        }
        for (ci, cmd) in [CmdS::CancelOrders(f.clone()), CmdS::ClosePositions(f.clone())].iter().enumerate() {
            for path in 2..PATHS {
                let mut s = table_state(vec![LinkS::Open, if path % 2 == 0 { LinkS::Open } else { LinkS::Missing }, LinkS::Open]);
                s.trading = path == 5;
                s.builder = path == 3; // link map built through ExecutionBuilder (link-less exchange in the middle)
                s.steps = cmd_steps(cmd, path, 2, false);
                widen(cmd, path, &mut s.steps);
                let tags = vec![
                    format!("table_{}_{}", if ci == 0 { "cancel" } else { "close" }, filter_kind(f)),
                    format!("table_entry{}", path),
                ];
                emit(em, "table", &s, &tags);
            }
        }
    }
}

// ---- random states ---------------------------------------------------------------------------------

fn gen_state(r: &mut Rng, adversarial: bool) -> Spec {
    let n_ex = 1 + r.below(3) as usize;
    let n_inst = n_ex + r.below((6 - n_ex) as u64) as usize;
    let mut exs: Vec<usize> = (0..n_inst).map(|j| j % n_ex).collect();
    exs.sort();
    let assets = ["a", "b", "c"];
    let mut instruments = vec![];
    for (j, ex) in exs.iter().enumerate() {
        // bias towards a/b so that several instruments of one exchange share an underlying
        let bi = if r.chance(1, 2) { 0 } else { r.below(3) as usize };
        let qi = if bi == 0 && r.chance(2, 3) { 1 } else { (bi + 1 + r.below(2) as usize) % 3 };
        let mut orders = vec![];
        let mut used = vec![];
        for _ in 0..r.below(6) {
            let cid = *r.pick(&[1u32, 2, 3, 4, 5, 6, 11, 12, 111]);
            if used.contains(&cid) {
                continue;
            }
            used.push(cid);
            let st = match r.below(5) {
                0 => StS::Oif,
                1 => StS::Open(meta(100 + cid, pick_time(r), *r.pick(&[0, 0, 20_001, 1_000_000]))),
                2 => StS::Open(meta(100 + cid, pick_time(r), 5_000)),
                3 => StS::Cif(None),
                _ => StS::Cif(Some(meta(100 + cid, pick_time(r), 0))),
            };
            orders.push(order(*ex, j, cid, st));
        }
        instruments.push(InstS {
            ex: *ex,
            base: assets[bi].into(),
            quote: assets[qi].into(),
            orders,
            pos: match r.below(3) {
                0 => None,
                k => {
                    // zero-size and (adversarial) negative-size positions included
                    let q = if adversarial && r.chance(1, 8) { -2_500 } else { 2_500 * r.below(9) as i64 };
                    Some(PosS { buy: k == 1, qty: q, qty_max: q.abs() + 2_500 * (1 + r.below(3) as i64) })
                }
            },
            last: if r.chance(2, 3) { Some((pick_time(r), 2500 * (1 + r.below(400) as i64))) } else { None },
            kind: r.below(4) as u8,
            csize: *r.pick(&[10_000, 10, 100, 1_000_000]),
            settle: if r.chance(1, 2) { assets[qi].into() } else { assets[3 - bi - qi].into() },
            l1: if r.chance(1, 3) { Some(gen_l1(r)) } else { None },
        });
    }
    let n_links = if adversarial { (n_ex as i64 + *r.pick(&[-1i64, 0, 1])).max(0) as usize } else { n_ex };
    let mut links: Vec<LinkS> = (0..n_links)
        .map(|_| {
            if r.chance(if adversarial { 4 } else { 1 }, 10) {
                *r.pick(&[LinkS::Closed, LinkS::Unhealthy, LinkS::Missing])
            } else {
                LinkS::Open
            }
        })
        .collect();
    // a fifth of the multi-exchange states: the FIRST exchange's link is dead (its instruments come first
    // in instrument-index order, so its requests are sent first), the LAST one healthy; with three
    // exchanges the middle one is dead too half of the time (two dead links in a row)
    if n_ex >= 2 && links.len() >= n_ex && r.chance(1, 5) {
        links[0] = *r.pick(&[LinkS::Closed, LinkS::Closed, LinkS::Missing, LinkS::Unhealthy]);
        links[n_ex - 1] = LinkS::Open;
        if n_ex == 3 && r.chance(1, 2) {
            links[1] = *r.pick(&[LinkS::Closed, LinkS::Missing, LinkS::Unhealthy]);
        }
    }
    // a quarter of the states get their link map through the public ExecutionBuilder (a link is then
    // either there or not, one entry per exchange)
    let builder = r.chance(1, 4);
    let links: Vec<LinkS> = if builder {
        (0..n_ex).map(|k| if links.get(k) == Some(&LinkS::Open) { LinkS::Open } else { LinkS::Missing }).collect()
    } else {
        links
    };
    Spec { builder, exset: r.below(3) as u8, trading: adversarial && r.chance(1, 3), links, instruments, steps: vec![] }
}

fn gen_filter(r: &mut Rng, lay: &[(usize, usize, usize)], n_ex: usize, adversarial: bool) -> FilterS {
    let keep = |r: &mut Rng| r.chance(1, 2);
    match r.below(7) {
        0 => FilterS::None,
        1 | 2 => {
            let mut v: Vec<usize> = (0..n_ex).filter(|_| keep(r)).collect();
            if adversarial && r.chance(1, 3) {
                v.push(n_ex + r.below(3) as usize);
            }
            if !v.is_empty() && r.chance(1, 4) {
                v.push(v[0]);
            }
            FilterS::Exchanges(v)
        }
        3 | 4 => {
            let mut v: Vec<usize> = (0..lay.len()).filter(|_| keep(r)).collect();
            if adversarial && r.chance(1, 3) {
                v.push(lay.len() + r.below(3) as usize);
            }
            if !v.is_empty() && r.chance(1, 3) {
                v.push(v[0]);
                if r.chance(1, 2) {
                    v.push(v[0]);
                }
            }
            r.shuffle(&mut v);
            FilterS::Instruments(v)
        }
        _ => {
            let mut us: Vec<(usize, usize)> = lay.iter().map(|l| (l.1, l.2)).collect();
            us.sort();
            us.dedup();
            let mut v: Vec<(usize, usize)> = us.iter().copied().filter(|_| keep(r)).collect();
            if adversarial && r.chance(1, 2) {
                let u = *r.pick(&us);
                v.push(*r.pick(&[(u.1, u.0), (u.0, u.1 + 1), (u.0 + 1, u.1)]));
            }
            if !v.is_empty() && r.chance(1, 3) {
                v.push(v[0]);
                if r.chance(1, 2) {
                    v.insert(0, v[0]);
                }
            }
            FilterS::Underlyings(v)
        }
    }
}

fn gen_case(r: &mut Rng, adversarial: bool) -> Spec {
    let mut s = gen_state(r, adversarial);
    let (lay, n_ex) = layout(&s);
    let n_cmds = 1 + r.below(3);
    for _ in 0..n_cmds {
        let f = gen_filter(r, &lay, n_ex, adversarial);
        let cmd = if r.chance(1, 2) { CmdS::CancelOrders(f) } else { CmdS::ClosePositions(f) };
        let path = r.below(PATHS as u64) as usize;
        if path == 5 && !s.trading {
            s.steps.push(one(OpS::Process(EvS::Trading(true)), false));
        }
        let mut steps = cmd_steps(&cmd, path, 2 + r.below(2) as usize, r.chance(1, 4));
        if r.chance(1, 3) {
            widen(&cmd, path, &mut steps);
        }
        if r.chance(1, 3) {
            // something happens between the two issues: a failed cancel puts an order back to Open
            // (it must then be requested again), a fill changes a position, a link comes back
            let inst = r.below(lay.len() as u64) as usize;
            let mid = match r.below(5) {
                0 => OpS::Process(EvS::CancelResponse {
                    key: key(lay[inst].0, inst, *r.pick(&[1u32, 2, 3, 4, 5, 6, 11, 12, 111])),
                    ok: r.chance(1, 2),
                    err: r.below(10) as u8,
                }),
                1 => OpS::Process(EvS::Trade {
                    inst,
                    buy: r.chance(1, 2),
                    qty: 2_500 * (1 + r.below(6) as i64),
                    price: 1_000_000,
                    fee: 0,
                }),
                2 => OpS::Process(EvS::MarketTrade { inst, t: pick_time(r), price: 2500 * (1 + r.below(400) as i64) }),
                3 => OpS::Process(EvS::MarketL1 { inst, t: pick_time(r), l1: gen_l1(r) }),
                _ => OpS::SetLink(r.below(n_ex as u64) as usize, *r.pick(&[LinkS::Open, LinkS::Closed])),
            };
            steps.insert(1, StepS { op: mid, g: GS::default(), close: default_close(), many1: false });
        }
        if adversarial && path < 2 && r.chance(1, 3) {
            // a strategy request generated in the same step as the command (only when enabled)
            steps[0].g = GS {
                cancels: vec![],
                opens: vec![OpenS { key: key(lay[0].0, 0, 77), buy: true, price: 1_000_000, qty: 10_000, kind: 0, tif: 4 }],
                cmask: vec![],
                omask: vec![true],
            };
        }
        s.steps.extend(steps);
    }
    s
}

fn main() {
    quiet_panics();
    let args = parse_args();
    let mut em = Emitter::create(&args.out);
    match args.mode.as_str() {
        "gen" => {
            let mut r = Rng::new(args.seed);
            let (n_rand, n_adv) = if args.tier == "thorough" { (3000, 1500) } else { (140, 70) };
            table(&mut em);
            for _ in 0..n_rand {
                let s = gen_case(&mut r, false);
                emit(&mut em, "random", &s, &[]);
            }
            for _ in 0..n_adv {
                let s = gen_case(&mut r, true);
                emit(&mut em, "adversarial", &s, &[]);
            }
        }
        "exec" => {
            for (inp, stream) in read_inputs(args.input.as_deref().expect("--in")) {
                let spec: Result<Spec, _> = serde_json::from_value::<Spec>(inp.clone());
                match spec {
                    Ok(s) if !s.instruments.is_empty() => emit(&mut em, stream_static(&stream), &s, &[]),
                    _ => em.emit(Case {
                        stream: stream_static(&stream),
                        input: if inp.is_null() { Value::Null } else { inp },
                        coq: "(mkCase (mkState false [] []) [])".into(),
                        nontrivial: false,
                        tags: vec!["unrunnable_input".into()],
                    }),
                }
            }
        }
        m => panic!("unknown mode {m}"),
    }
    em.finish();
}
