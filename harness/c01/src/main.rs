//! C01 correspondence harness: drives barter's active-order tracking
//!   Orders<ExchangeIndex, InstrumentIndex> via OrderManager / InFlightRequestRecorder, and
//!   EngineState::update_from_account + InFlightRequestRecorder for EngineState
//! on generated histories and prints inputs + the whole observed order maps after every input as
//! Coq terms of type `case` (Corr/C01.v).
use barter::engine::state::{
    EngineState,
    global::DefaultGlobalData,
    instrument::data::DefaultInstrumentMarketData,
    order::{Orders, in_flight_recorder::InFlightRequestRecorder, manager::OrderManager},
};
use barter_execution::{
    AccountEvent, AccountEventKind, AccountSnapshot, InstrumentAccountSnapshot,
    error::{ApiError, ConnectivityError, OrderError},
    order::{
        Order, OrderKey, OrderKind, TimeInForce,
        id::{ClientOrderId, OrderId, StrategyId},
        request::{
            OrderRequestCancel, OrderRequestOpen, OrderResponseCancel, RequestCancel, RequestOpen,
        },
        state::{
            ActiveOrderState, CancelInFlight, Cancelled, InactiveOrderState, Open, OpenInFlight,
            OrderState,
        },
    },
};
use barter_instrument::{
    Side, Underlying,
    asset::AssetIndex,
    exchange::{ExchangeId, ExchangeIndex},
    index::IndexedInstruments,
    instrument::{Instrument, InstrumentIndex},
};
use barter_integration::snapshot::Snapshot;
use chrono::{DateTime, TimeZone, Utc};
use fnv::FnvHashMap;
use rust_decimal::Decimal;
use serde::{Deserialize, Serialize};
use std::panic::AssertUnwindSafe;
use vh_common::*;

const SCALE: u32 = 8;
type ActiveOrder = Order<ExchangeIndex, InstrumentIndex, ActiveOrderState>;
type SnapOrder = Order<ExchangeIndex, InstrumentIndex, OrderState<AssetIndex, InstrumentIndex>>;
type Engine = EngineState<DefaultGlobalData, DefaultInstrumentMarketData>;

// ---------------------------------------------------------------------------------------------
// JSON input language (enough to re-execute a case)
// ---------------------------------------------------------------------------------------------

#[derive(Serialize, Deserialize, Clone, Debug, PartialEq)]
struct KeyJ {
    e: usize,
    i: usize,
    s: u32,
    c: u32,
}
#[derive(Serialize, Deserialize, Clone, Debug, PartialEq)]
struct MetaJ {
    oid: u32,
    t: i64,
    f: String,
}
#[derive(Serialize, Deserialize, Clone, Debug, PartialEq)]
#[serde(tag = "st")]
enum StJ {
    Req,
    OIF,
    Open { m: MetaJ },
    CIF { m: Option<MetaJ> },
    Cancelled { oid: u32, t: i64 },
    FullyFilled,
    OpenFailed { err: u8 },
    Expired,
}
#[derive(Serialize, Deserialize, Clone, Debug, PartialEq)]
struct OrdJ {
    key: KeyJ,
    side: String,
    price: String,
    qty: String,
    kind: String,
    tif: String,
    st: StJ,
}
#[derive(Serialize, Deserialize, Clone, Debug, PartialEq)]
#[serde(tag = "k")]
enum OpJ {
    RecOpen { o: OrdJ },
    RecCancel { key: KeyJ, oid: Option<u32> },
    Snap { o: OrdJ },
    CancelResp { key: KeyJ, ok: bool, oid: u32, t: i64, err: u8 },
    /// persist / restore: serialise the state to JSON, deserialise it, continue on the result
    Persist {},
}
#[derive(Serialize, Deserialize, Clone, Debug, PartialEq)]
struct ISnapJ {
    inst: usize,
    orders: Vec<OrdJ>,
}
#[derive(Serialize, Deserialize, Clone, Debug, PartialEq)]
#[serde(tag = "k")]
enum EopJ {
    Ord { op: OpJ },
    Acct { insts: Vec<ISnapJ> },
}
#[derive(Serialize, Deserialize, Clone, Debug, PartialEq)]
#[serde(tag = "case")]
enum InputJ {
    Orders { init: Vec<OrdJ>, ops: Vec<OpJ> },
    Engine { ninst: usize, xs: Vec<EopJ> },
}

// ---------------------------------------------------------------------------------------------
// JSON -> real types
// ---------------------------------------------------------------------------------------------

/// exchange times travel as integer NANOSECONDS since the Unix epoch (chrono's own resolution)
fn time(ns: i64) -> DateTime<Utc> {
    DateTime::from_timestamp_nanos(ns)
}
fn nanos(t: &DateTime<Utc>) -> i64 {
    t.timestamp_nanos_opt().expect("time within the i64 nanosecond range")
}

const MS: i64 = 1_000_000;
const Y2023: i64 = 1_700_000_000_000_000_000;

/// Generators think in small abstract ticks; a case is then mapped to real times
/// `base + tick * unit` (order preserving). The palette covers ticks 1 ns apart (from the epoch,
/// in 2023, far in the future), ticks straddling a millisecond boundary (...999_999 ns vs
/// ...000_000 ns of the next ms), microseconds, just under a millisecond, milliseconds,
/// seconds, and the far past.
fn time_palette(r: &mut Rng) -> (i64, i64) {
    match r.below(12) {
        0 => (0, 1),
        1 => (Y2023 + 123 * MS - 2, 1),
        2 => (Y2023 + 123 * MS - 15, 1),
        3 => (Y2023 + 77 * MS - 40, 7),
        4 => (Y2023, 1_000),
        5 => (Y2023 + 5, 999_999),
        6 => (Y2023, MS),
        7 => (Y2023, 1_000 * MS),
        8 => (31_536_000 * 1_000_000_000, 333),
        9 => (7_258_118_400 * 1_000_000_000, 1),
        10 => (Y2023 + 999_000, 250),
        _ => (Y2023, MS),
    }
}
/// the scales every table case is run at: sub-millisecond apart, across a millisecond boundary,
/// a millisecond apart
const TABLE_SCALES: [(i64, i64); 3] = [(0, 1), (Y2023 + 123 * MS - 2, 1), (Y2023, MS)];

/// map every exchange time ("t", "lut") of a JSON input to `base + t * unit`
fn rescale_json(v: &mut serde_json::Value, base: i64, unit: i64) {
    match v {
        serde_json::Value::Object(m) => {
            for (k, x) in m.iter_mut() {
                if (k == "t" || k == "lut") && x.is_i64() {
                    *x = serde_json::Value::from(base + x.as_i64().unwrap() * unit);
                } else {
                    rescale_json(x, base, unit);
                }
            }
        }
        serde_json::Value::Array(a) => {
            for x in a.iter_mut() {
                rescale_json(x, base, unit);
            }
        }
        _ => {}
    }
}
fn rescaled<T: Serialize + serde::de::DeserializeOwned>(input: &T, scale: (i64, i64)) -> T {
    let mut v = serde_json::to_value(input).unwrap();
    rescale_json(&mut v, scale.0, scale.1);
    serde_json::from_value(v).unwrap()
}
fn dec(s: &str) -> Decimal {
    s.parse().expect("decimal")
}
fn cid(c: u32) -> ClientOrderId {
    ClientOrderId::new(format!("c{c}"))
}
fn oid(o: u32) -> OrderId {
    OrderId::new(format!("o{o}"))
}
fn real_key(k: &KeyJ) -> OrderKey<ExchangeIndex, InstrumentIndex> {
    OrderKey {
        exchange: ExchangeIndex(k.e),
        instrument: InstrumentIndex(k.i),
        strategy: StrategyId::new(format!("s{}", k.s)),
        cid: cid(k.c),
    }
}
fn real_side(s: &str) -> Side {
    if s == "B" { Side::Buy } else { Side::Sell }
}
fn real_kind(s: &str) -> OrderKind {
    if s == "M" { OrderKind::Market } else { OrderKind::Limit }
}
fn real_tif(s: &str) -> TimeInForce {
    match s {
        "GTCp" => TimeInForce::GoodUntilCancelled { post_only: true },
        "GTC" => TimeInForce::GoodUntilCancelled { post_only: false },
        "GTD" => TimeInForce::GoodUntilEndOfDay,
        "FOK" => TimeInForce::FillOrKill,
        _ => TimeInForce::ImmediateOrCancel,
    }
}
fn real_open(m: &MetaJ) -> Open {
    Open {
        id: oid(m.oid),
        time_exchange: time(m.t),
        filled_quantity: dec(&m.f),
    }
}
fn real_err(e: u8) -> OrderError<AssetIndex, InstrumentIndex> {
    match e % 6 {
        0 => OrderError::Connectivity(ConnectivityError::Timeout),
        1 => OrderError::Rejected(ApiError::RateLimit),
        2 => OrderError::Rejected(ApiError::OrderAlreadyCancelled),
        3 => OrderError::Connectivity(ConnectivityError::ExchangeOffline(ExchangeId::BinanceSpot)),
        4 => OrderError::Rejected(ApiError::OrderAlreadyFullyFilled),
        _ => OrderError::Rejected(ApiError::BalanceInsufficient(AssetIndex(0), "x".into())),
    }
}
fn real_active(st: &StJ) -> Option<ActiveOrderState> {
    Some(match st {
        StJ::OIF | StJ::Req => ActiveOrderState::OpenInFlight(OpenInFlight),
        StJ::Open { m } => ActiveOrderState::Open(real_open(m)),
        StJ::CIF { m } => ActiveOrderState::CancelInFlight(CancelInFlight {
            order: m.as_ref().map(real_open),
        }),
        _ => return None,
    })
}
fn real_state(st: &StJ) -> OrderState<AssetIndex, InstrumentIndex> {
    match st {
        StJ::Cancelled { oid: o, t } => OrderState::Inactive(InactiveOrderState::Cancelled(
            Cancelled {
                id: oid(*o),
                time_exchange: time(*t),
            },
        )),
        StJ::FullyFilled => OrderState::fully_filled(),
        StJ::Expired => OrderState::expired(),
        StJ::OpenFailed { err } => {
            OrderState::Inactive(InactiveOrderState::OpenFailed(real_err(*err)))
        }
        other => OrderState::Active(real_active(other).unwrap()),
    }
}
fn real_snap(o: &OrdJ) -> SnapOrder {
    Order {
        key: real_key(&o.key),
        side: real_side(&o.side),
        price: dec(&o.price),
        quantity: dec(&o.qty),
        kind: real_kind(&o.kind),
        time_in_force: real_tif(&o.tif),
        state: real_state(&o.st),
    }
}
fn real_tracked(o: &OrdJ) -> ActiveOrder {
    Order {
        key: real_key(&o.key),
        side: real_side(&o.side),
        price: dec(&o.price),
        quantity: dec(&o.qty),
        kind: real_kind(&o.kind),
        time_in_force: real_tif(&o.tif),
        state: real_active(&o.st).expect("init entries carry active states"),
    }
}
fn real_request(o: &OrdJ) -> OrderRequestOpen<ExchangeIndex, InstrumentIndex> {
    OrderRequestOpen {
        key: real_key(&o.key),
        state: RequestOpen {
            side: real_side(&o.side),
            price: dec(&o.price),
            quantity: dec(&o.qty),
            kind: real_kind(&o.kind),
            time_in_force: real_tif(&o.tif),
        },
    }
}
fn real_cancel(key: &KeyJ, o: Option<u32>) -> OrderRequestCancel<ExchangeIndex, InstrumentIndex> {
    OrderRequestCancel {
        key: real_key(key),
        state: RequestCancel { id: o.map(oid) },
    }
}
fn real_response(
    key: &KeyJ,
    ok: bool,
    o: u32,
    t: i64,
    err: u8,
) -> OrderResponseCancel<ExchangeIndex, AssetIndex, InstrumentIndex> {
    OrderResponseCancel {
        key: real_key(key),
        state: if ok {
            Ok(Cancelled {
                id: oid(o),
                time_exchange: time(t),
            })
        } else {
            Err(real_err(err))
        },
    }
}

// ---------------------------------------------------------------------------------------------
// Coq printers
// ---------------------------------------------------------------------------------------------

fn zz(i: i128) -> String {
    if i < 0 { format!("({i})") } else { i.to_string() }
}
fn dz(d: Decimal) -> String {
    zz(dec_scaled(d, SCALE))
}
fn id_num(s: &str) -> i128 {
    s[1..].parse::<i128>().expect("numeric id")
}
fn coq_key_real(k: &OrderKey<ExchangeIndex, InstrumentIndex>) -> String {
    format!(
        "(mkK {} {} {} {})",
        k.exchange.0,
        k.instrument.0,
        id_num(k.strategy.0.as_str()),
        id_num(k.cid.0.as_str())
    )
}
fn coq_side(s: Side) -> &'static str {
    match s {
        Side::Buy => "Buy",
        Side::Sell => "Sell",
    }
}
fn coq_kind(k: OrderKind) -> &'static str {
    match k {
        OrderKind::Market => "Market",
        OrderKind::Limit => "Limit",
    }
}
fn coq_tif(t: TimeInForce) -> &'static str {
    match t {
        TimeInForce::GoodUntilCancelled { post_only: true } => "(GTC true)",
        TimeInForce::GoodUntilCancelled { post_only: false } => "(GTC false)",
        TimeInForce::GoodUntilEndOfDay => "GTD",
        TimeInForce::FillOrKill => "FOK",
        TimeInForce::ImmediateOrCancel => "IOC",
    }
}
fn coq_open(m: &Open) -> String {
    format!(
        "(mkM {} {} {})",
        id_num(m.id.0.as_str()),
        zz(nanos(&m.time_exchange) as i128),
        dz(m.filled_quantity)
    )
}
fn coq_active(a: &ActiveOrderState) -> String {
    match a {
        ActiveOrderState::OpenInFlight(_) => "OIF".into(),
        ActiveOrderState::Open(m) => format!("(Open {})", coq_open(m)),
        ActiveOrderState::CancelInFlight(c) => match &c.order {
            Some(m) => format!("(CIF (Some {}))", coq_open(m)),
            None => "(CIF None)".into(),
        },
    }
}
fn coq_state(s: &OrderState<AssetIndex, InstrumentIndex>) -> String {
    match s {
        OrderState::Active(a) => format!("(SA {})", coq_active(a)),
        OrderState::Inactive(InactiveOrderState::Cancelled(c)) => format!(
            "(SI (Cancelled {} {}))",
            id_num(c.id.0.as_str()),
            zz(nanos(&c.time_exchange) as i128)
        ),
        OrderState::Inactive(InactiveOrderState::FullyFilled) => "(SI FullyFilled)".into(),
        OrderState::Inactive(InactiveOrderState::OpenFailed(_)) => "(SI OpenFailed)".into(),
        OrderState::Inactive(InactiveOrderState::Expired) => "(SI Expired)".into(),
    }
}
fn coq_ord<S>(o: &Order<ExchangeIndex, InstrumentIndex, S>, state: &str) -> String {
    format!(
        "(mkO {} {} {} {} {} {} {})",
        coq_key_real(&o.key),
        coq_side(o.side),
        dz(o.price),
        dz(o.quantity),
        coq_kind(o.kind),
        coq_tif(o.time_in_force),
        state
    )
}
fn coq_tracked(o: &ActiveOrder) -> String {
    coq_ord(o, &coq_active(&o.state))
}
fn coq_snap(o: &SnapOrder) -> String {
    coq_ord(o, &coq_state(&o.state))
}
fn coq_entries(m: &FnvHashMap<ClientOrderId, ActiveOrder>) -> String {
    let mut v: Vec<(i128, String)> = m
        .iter()
        .map(|(k, o)| {
            let n = id_num(k.0.as_str());
            (n, format!("E {} {}", zz(n), coq_tracked(o)))
        })
        .collect();
    v.sort();
    list(&v.into_iter().map(|(_, s)| s).collect::<Vec<_>>())
}
fn coq_op(op: &OpJ) -> String {
    match op {
        OpJ::RecOpen { o } => {
            let r = real_tracked(&OrdJ {
                st: StJ::OIF,
                ..o.clone()
            });
            format!("RecOpen {}", coq_ord(&r, "tt"))
        }
        OpJ::RecCancel { key, .. } => format!("RecCancel {}", coq_key_real(&real_key(key))),
        OpJ::Snap { o } => format!("Snap {}", coq_snap(&real_snap(o))),
        OpJ::CancelResp { key, ok, .. } => {
            format!("CancelResp {} {}", coq_key_real(&real_key(key)), b(*ok))
        }
        OpJ::Persist {} => unreachable!("persist steps are printed by the run loop"),
    }
}
fn coq_eop(x: &EopJ) -> String {
    match x {
        EopJ::Ord { op } => format!("EOrd ({})", coq_op(op)),
        EopJ::Acct { insts } => format!(
            "EAcctSnapshot {}",
            list(
                &insts
                    .iter()
                    .map(|i| format!(
                        "IS {} {}",
                        i.inst,
                        list(
                            &i.orders
                                .iter()
                                .map(|o| coq_snap(&real_snap(o)))
                                .collect::<Vec<_>>()
                        )
                    ))
                    .collect::<Vec<_>>()
            )
        ),
    }
}

// ---------------------------------------------------------------------------------------------
// Branch tags
// ---------------------------------------------------------------------------------------------

fn pre_class(cur: Option<&ActiveOrder>) -> &'static str {
    match cur.map(|o| &o.state) {
        None => "absent",
        Some(ActiveOrderState::OpenInFlight(_)) => "OIF",
        Some(ActiveOrderState::Open(_)) => "Open",
        Some(ActiveOrderState::CancelInFlight(c)) => {
            if c.order.is_some() { "CIFs" } else { "CIFn" }
        }
    }
}
fn cmp_class(cur: Option<&ActiveOrder>, t: i64) -> &'static str {
    match cur.and_then(|o| o.state.open_meta()) {
        None => "na",
        Some(m) => {
            let h = nanos(&m.time_exchange);
            if t < h {
                "older"
            } else if t == h {
                "tie"
            } else {
                "newer"
            }
        }
    }
}
fn op_tag(cur: Option<&ActiveOrder>, op: &OpJ) -> String {
    let o = match op {
        OpJ::Persist {} => return "persist".to_string(),
        OpJ::RecOpen { .. } => "recOpen".to_string(),
        OpJ::RecCancel { .. } => "recCancel".to_string(),
        OpJ::CancelResp { ok, .. } => if *ok { "respOk" } else { "respErr" }.to_string(),
        OpJ::Snap { o } => match &o.st {
            StJ::Req | StJ::OIF => "snapOIF".to_string(),
            StJ::Open { m } => format!(
                "snapOpen.{}.{}",
                cmp_class(cur, m.t),
                {
                    let rem = dec(&o.qty) - dec(&m.f);
                    if rem.is_zero() {
                        "full"
                    } else if rem.is_sign_negative() {
                        "over"
                    } else {
                        "left"
                    }
                }
            ),
            StJ::CIF { m: None } => "snapCIFn".to_string(),
            StJ::CIF { m: Some(m) } => format!("snapCIFs.{}", cmp_class(cur, m.t)),
            StJ::Cancelled { .. } => "snapCancelled".to_string(),
            StJ::FullyFilled => "snapFilled".to_string(),
            StJ::OpenFailed { .. } => "snapFailed".to_string(),
            StJ::Expired => "snapExpired".to_string(),
        },
    };
    format!("{}>{}", pre_class(cur), o)
}
const NOKEY: KeyJ = KeyJ {
    e: 0,
    i: 0,
    s: 0,
    c: 0,
};
fn op_key(op: &OpJ) -> &KeyJ {
    match op {
        OpJ::RecOpen { o } | OpJ::Snap { o } => &o.key,
        OpJ::RecCancel { key, .. } | OpJ::CancelResp { key, .. } => key,
        OpJ::Persist {} => &NOKEY,
    }
}

// ---------------------------------------------------------------------------------------------
// Driving the real code
// ---------------------------------------------------------------------------------------------

/// serde_json round trip of a value; returns whether the restored value equals the original
/// (it must on the unchanged code) and continues on the restored value
fn roundtrip<T: Serialize + serde::de::DeserializeOwned + PartialEq>(x: &mut T) -> bool {
    let js = serde_json::to_string(&*x).expect("state serialises");
    let back: T = serde_json::from_str(&js).expect("state deserialises");
    let same = back == *x;
    *x = back;
    same
}
fn persist_engine_orders(state: &mut Engine) -> bool {
    let mut same = true;
    for inst in state.instruments.0.values_mut() {
        same &= roundtrip(&mut inst.orders);
    }
    same
}

fn apply_orders(orders: &mut Orders<ExchangeIndex, InstrumentIndex>, op: &OpJ) {
    match op {
        OpJ::Persist {} => {
            roundtrip(orders);
        }
        OpJ::RecOpen { o } => orders.record_in_flight_open(&real_request(o)),
        OpJ::RecCancel { key, oid } => orders.record_in_flight_cancel(&real_cancel(key, *oid)),
        OpJ::Snap { o } => {
            let snap = real_snap(o);
            orders.update_from_order_snapshot(Snapshot(&snap))
        }
        OpJ::CancelResp {
            key,
            ok,
            oid,
            t,
            err,
        } => orders.update_from_cancel_response(&real_response(key, *ok, *oid, *t, *err)),
    }
}

fn build_engine(ninst: usize) -> Engine {
    let mut b = IndexedInstruments::builder();
    for i in 0..ninst {
        // names chosen so that the sorted (= indexed) order is the creation order
        b = b.add_instrument(Instrument::spot(
            ExchangeId::BinanceSpot,
            format!("binance_spot_a{i}_usdt"),
            format!("A{i}USDT"),
            Underlying::new(format!("a{i}"), "usdt".to_string()),
            None,
        ));
    }
    let instruments = b.build();
    EngineState::builder(
        &instruments,
        DefaultGlobalData::default(),
        DefaultInstrumentMarketData::default,
    )
    .time_engine_start(time(0))
    .build()
}

fn apply_engine(state: &mut Engine, x: &EopJ) {
    match x {
        EopJ::Ord { op } => match op {
            OpJ::Persist {} => {
                persist_engine_orders(state);
            }
            OpJ::RecOpen { o } => state.record_in_flight_open(&real_request(o)),
            OpJ::RecCancel { key, oid } => state.record_in_flight_cancel(&real_cancel(key, *oid)),
            OpJ::Snap { o } => {
                state.update_from_account(&AccountEvent {
                    exchange: ExchangeIndex(0),
                    kind: AccountEventKind::OrderSnapshot(Snapshot(real_snap(o))),
                });
            }
            OpJ::CancelResp {
                key,
                ok,
                oid,
                t,
                err,
            } => {
                state.update_from_account(&AccountEvent {
                    exchange: ExchangeIndex(0),
                    kind: AccountEventKind::OrderCancelled(real_response(
                        key, *ok, *oid, *t, *err,
                    )),
                });
            }
        },
        EopJ::Acct { insts } => {
            state.update_from_account(&AccountEvent {
                exchange: ExchangeIndex(0),
                kind: AccountEventKind::Snapshot(AccountSnapshot {
                    exchange: ExchangeIndex(0),
                    balances: vec![],
                    instruments: insts
                        .iter()
                        .map(|i| InstrumentAccountSnapshot {
                            instrument: InstrumentIndex(i.inst),
                            orders: i.orders.iter().map(real_snap).collect(),
                        })
                        .collect(),
                }),
            });
        }
    }
}

fn engine_orders(state: &Engine, i: usize) -> &Orders<ExchangeIndex, InstrumentIndex> {
    &state.instruments.instrument_index(&InstrumentIndex(i)).orders
}

struct Ran {
    coq: String,
    nontrivial: bool,
    tags: Vec<String>,
}

fn uniq(mut tags: Vec<String>) -> Vec<String> {
    tags.sort();
    tags.dedup();
    tags
}

fn run_input(input: &InputJ) -> Ran {
    let r = std::panic::catch_unwind(AssertUnwindSafe(|| match input {
        InputJ::Orders { init, ops } => {
            let mut orders: Orders<ExchangeIndex, InstrumentIndex> = Orders(
                init.iter()
                    .map(|o| (cid(o.key.c), real_tracked(o)))
                    .collect::<FnvHashMap<_, _>>(),
            );
            let init_coq = coq_entries(&orders.0);
            let mut obs = vec![];
            let mut tags = vec![];
            let mut nontrivial = false;
            let mut steps = vec![];
            for op in ops {
                tags.push(op_tag(orders.0.get(&cid(op_key(op).c)), op));
                let before = orders.clone();
                if let OpJ::Persist {} = op {
                    let same = roundtrip(&mut orders);
                    steps.push(format!("XPersist {}", b(same)));
                } else {
                    apply_orders(&mut orders, op);
                    steps.push(format!("XOp ({})", coq_op(op)));
                }
                nontrivial |= before != orders;
                obs.push(coq_entries(&orders.0));
            }
            Ran {
                coq: format!(
                    "(COrders {} {} {})",
                    init_coq,
                    list(&steps),
                    list(&obs)
                ),
                nontrivial,
                tags: uniq(tags),
            }
        }
        InputJ::Engine { ninst, xs } => {
            let mut state = build_engine(*ninst);
            let mut obs = vec![];
            let mut tags = vec![];
            let mut nontrivial = false;
            let mut steps = vec![];
            for x in xs {
                match x {
                    EopJ::Ord { op } => {
                        let k = op_key(op);
                        tags.push(format!(
                            "engine:{}",
                            op_tag(engine_orders(&state, k.i).0.get(&cid(k.c)), op)
                        ));
                    }
                    EopJ::Acct { insts } => tags.push(format!(
                        "engine:acctSnapshot.{}insts.{}orders",
                        insts.len().min(3),
                        insts.iter().map(|i| i.orders.len()).sum::<usize>().min(4)
                    )),
                }
                let before: Vec<_> = (0..*ninst).map(|i| engine_orders(&state, i).clone()).collect();
                if let EopJ::Ord {
                    op: OpJ::Persist {},
                } = x
                {
                    let same = persist_engine_orders(&mut state);
                    steps.push(format!("XEPersist {}", b(same)));
                } else {
                    apply_engine(&mut state, x);
                    steps.push(format!("XE ({})", coq_eop(x)));
                }
                let after: Vec<_> = (0..*ninst).map(|i| engine_orders(&state, i).clone()).collect();
                nontrivial |= before != after;
                obs.push(list(
                    &after.iter().map(|o| coq_entries(&o.0)).collect::<Vec<_>>(),
                ));
            }
            Ran {
                coq: format!(
                    "(CEngine {} {} {})",
                    ninst,
                    list(&steps),
                    list(&obs)
                ),
                nontrivial,
                tags: uniq(tags),
            }
        }
    }));
    match r {
        Ok(ran) => ran,
        Err(_) => Ran {
            coq: "CPanic".into(),
            nontrivial: true,
            tags: vec!["panic".into()],
        },
    }
}

// ---------------------------------------------------------------------------------------------
// Generators
// ---------------------------------------------------------------------------------------------

fn key(i: usize, c: u32) -> KeyJ {
    KeyJ { e: 0, i, s: 7, c }
}
fn ord(k: KeyJ, price: &str, qty: &str, st: StJ) -> OrdJ {
    OrdJ {
        key: k,
        side: "B".into(),
        price: price.into(),
        qty: qty.into(),
        kind: "L".into(),
        tif: "GTC".into(),
        st,
    }
}
fn meta(oid: u32, t: i64, f: &str) -> MetaJ {
    MetaJ {
        oid,
        t,
        f: f.into(),
    }
}

/// every op of the abstract domain, addressed to `k` (tracked quantity in the table is 10)
fn table_ops(k: &KeyJ) -> Vec<OpJ> {
    let mut v = vec![
        OpJ::RecOpen {
            o: OrdJ {
                side: "S".into(),
                kind: "M".into(),
                tif: "IOC".into(),
                ..ord(k.clone(), "101", "7", StJ::Req)
            },
        },
        OpJ::RecCancel {
            key: k.clone(),
            oid: Some(5),
        },
        OpJ::Snap {
            o: ord(k.clone(), "102", "10", StJ::OIF),
        },
        OpJ::Snap {
            o: ord(k.clone(), "102", "10", StJ::CIF { m: None }),
        },
    ];
    for t in 1..=3 {
        v.push(OpJ::Snap {
            o: ord(
                k.clone(),
                "102",
                "10",
                StJ::CIF {
                    m: Some(meta(8, t, "3")),
                },
            ),
        });
        for (q, f) in [
            ("10", "0"),
            ("10", "5"),
            ("10", "10"),
            ("20", "10"),
            ("20", "20"),
            ("10", "10.00"),
            ("10", "10.5"), // over-filled, slightly: remaining is negative, the order stays open
            ("10", "1000"), // over-filled, far
        ] {
            v.push(OpJ::Snap {
                o: ord(k.clone(), "102", q, StJ::Open { m: meta(8, t, f) }),
            });
        }
    }
    v.push(OpJ::Snap {
        o: ord(k.clone(), "102", "10", StJ::Cancelled { oid: 8, t: 2 }),
    });
    v.push(OpJ::Snap {
        o: ord(k.clone(), "102", "10", StJ::FullyFilled),
    });
    v.push(OpJ::Snap {
        o: ord(k.clone(), "102", "10", StJ::OpenFailed { err: 1 }),
    });
    v.push(OpJ::Snap {
        o: ord(k.clone(), "102", "10", StJ::Expired),
    });
    for ok in [true, false] {
        v.push(OpJ::CancelResp {
            key: k.clone(),
            ok,
            oid: 5,
            t: 2,
            err: 0,
        });
    }
    v
}

/// every abstract state of the addressed id (None = untracked)
fn table_states(k: &KeyJ) -> Vec<Option<OrdJ>> {
    let mut v = vec![
        None,
        Some(ord(k.clone(), "100", "10", StJ::OIF)),
        Some(ord(k.clone(), "100", "10", StJ::CIF { m: None })),
    ];
    for t in 1..=3 {
        for f in ["0", "5"] {
            v.push(Some(ord(
                k.clone(),
                "100",
                "10",
                StJ::Open { m: meta(5, t, f) },
            )));
            v.push(Some(ord(
                k.clone(),
                "100",
                "10",
                StJ::CIF {
                    m: Some(meta(5, t, f)),
                },
            )));
        }
    }
    v
}

fn gen_table() -> Vec<InputJ> {
    let mut v = vec![];
    let k1 = key(0, 1);
    // a bystander id that must never move
    let bystander = ord(key(0, 2), "55", "10", StJ::Open { m: meta(9, 2, "1") });
    for st in table_states(&k1) {
        for op in table_ops(&k1) {
            let mut init = vec![bystander.clone()];
            if let Some(o) = &st {
                init.insert(0, o.clone());
            }
            v.push(InputJ::Orders {
                init,
                ops: vec![op],
            });
        }
    }
    // engine routing: the same client order id lives on two instruments in different states;
    // every op is sent to instrument 0 and to instrument 1
    for target in 0..2usize {
        for op in table_ops(&key(target, 1)) {
            let xs = vec![
                EopJ::Ord {
                    op: OpJ::RecOpen {
                        o: ord(key(0, 1), "100", "10", StJ::Req),
                    },
                },
                EopJ::Ord {
                    op: OpJ::Snap {
                        o: ord(key(1, 1), "100", "10", StJ::Open { m: meta(5, 2, "5") }),
                    },
                },
                EopJ::Ord {
                    op: OpJ::RecCancel {
                        key: key(1, 1),
                        oid: None,
                    },
                },
                EopJ::Ord { op },
            ];
            v.push(InputJ::Engine { ninst: 2, xs });
        }
    }
    v
}

const QTYS: [&str; 5] = ["10", "20", "0.5", "10.0", "3"];
const PRICES: [&str; 3] = ["100", "101.5", "99.99"];

fn gen_static(r: &mut Rng, k: KeyJ) -> OrdJ {
    // the key's exchange index and strategy id are not used for routing: vary them now and then
    // so that a report whose key differs from the tracked key is seen
    let k = KeyJ {
        e: *r.pick(&[0, 0, 0, 1]),
        s: *r.pick(&[7, 7, 7, 8]),
        ..k
    };
    OrdJ {
        key: k,
        side: (*r.pick(&["B", "S"])).into(),
        price: (*r.pick(&PRICES)).into(),
        qty: (*r.pick(&QTYS)).into(),
        kind: (*r.pick(&["L", "L", "M"])).into(),
        tif: (*r.pick(&["GTC", "GTCp", "GTD", "FOK", "IOC"])).into(),
        st: StJ::Req,
    }
}

/// order data of a report about a tracked order: usually what is tracked, sometimes different
fn static_like(r: &mut Rng, k: &KeyJ, cur: Option<&ActiveOrder>, vary: bool) -> OrdJ {
    match cur {
        Some(o) if !vary => OrdJ {
            key: KeyJ {
                s: id_num(o.key.strategy.0.as_str()) as u32,
                e: o.key.exchange.0,
                ..k.clone()
            },
            side: if o.side == Side::Buy { "B" } else { "S" }.into(),
            price: o.price.to_string(),
            qty: o.quantity.to_string(),
            kind: if o.kind == OrderKind::Market { "M" } else { "L" }.into(),
            tif: match o.time_in_force {
                TimeInForce::GoodUntilCancelled { post_only: true } => "GTCp",
                TimeInForce::GoodUntilCancelled { post_only: false } => "GTC",
                TimeInForce::GoodUntilEndOfDay => "GTD",
                TimeInForce::FillOrKill => "FOK",
                TimeInForce::ImmediateOrCancel => "IOC",
            }
            .into(),
            st: StJ::Req,
        },
        _ => gen_static(r, k.clone()),
    }
}

#[derive(Clone, Copy, PartialEq)]
enum When {
    Newer,
    Tie,
    Older,
    Any,
}

fn pick_time(r: &mut Rng, cur: Option<&ActiveOrder>, now: &mut i64, w: When) -> i64 {
    let held = cur
        .and_then(|o| o.state.open_meta())
        .map(|m| nanos(&m.time_exchange));
    match (w, held) {
        (When::Tie, Some(h)) => h,
        (When::Older, Some(h)) => h - 1 - r.below(3) as i64,
        (When::Any, _) => r.range(0, *now + 2),
        _ => {
            *now += 1 + r.below(3) as i64;
            *now
        }
    }
}

fn pick_filled(qty: &str, mode: u64) -> String {
    let q = dec(qty);
    match mode {
        0 => "0".into(),
        1 => (q / Decimal::from(2)).normalize().to_string(),
        2 => q.to_string(), // nothing left
        3 => {
            // nothing left, written at another scale
            let mut d = q;
            d.rescale(q.scale() + 3);
            d.to_string()
        }
        4 => (q + Decimal::new(5, 1)).to_string(), // over-filled slightly: remaining is negative, not zero
        _ => (q * Decimal::from(100)).to_string(),  // over-filled far
    }
}

fn gen_open_snap(
    r: &mut Rng,
    k: &KeyJ,
    cur: Option<&ActiveOrder>,
    now: &mut i64,
    w: When,
    fill_mode: u64,
    vary: bool,
) -> OpJ {
    let mut o = static_like(r, k, cur, vary);
    let t = pick_time(r, cur, now, w);
    let held_oid = cur
        .and_then(|o| o.state.open_meta())
        .map(|m| id_num(m.id.0.as_str()) as u32);
    let oid = match held_oid {
        Some(h) if !r.chance(1, 8) => h,
        _ => 1 + r.below(9) as u32,
    };
    let f = pick_filled(&o.qty, fill_mode);
    o.st = StJ::Open { m: meta(oid, t, &f) };
    OpJ::Snap { o }
}

fn gen_inactive(r: &mut Rng, k: &KeyJ, cur: Option<&ActiveOrder>, now: &mut i64) -> OpJ {
    let mut o = static_like(r, k, cur, false);
    o.st = match r.below(4) {
        0 => StJ::Cancelled {
            oid: 1 + r.below(9) as u32,
            t: pick_time(r, cur, now, When::Newer),
        },
        1 => StJ::FullyFilled,
        2 => StJ::OpenFailed {
            err: r.below(6) as u8,
        },
        _ => StJ::Expired,
    };
    OpJ::Snap { o }
}

fn gen_marker(r: &mut Rng, k: &KeyJ, cur: Option<&ActiveOrder>, now: &mut i64) -> OpJ {
    let vary = r.chance(1, 4);
    let mut o = static_like(r, k, cur, vary);
    o.st = match r.below(3) {
        0 => StJ::OIF,
        1 => StJ::CIF { m: None },
        _ => {
            let w = *r.pick(&[When::Newer, When::Tie, When::Older, When::Any]);
            let t = pick_time(r, cur, now, w);
            let fm = r.below(2);
            let f = pick_filled(&o.qty, fm);
            StJ::CIF {
                m: Some(meta(1 + r.below(9) as u32, t, &f)),
            }
        }
    };
    OpJ::Snap { o }
}

fn gen_any(r: &mut Rng, k: &KeyJ, cur: Option<&ActiveOrder>, now: &mut i64) -> OpJ {
    match r.below(8) {
        0 => OpJ::RecOpen {
            o: gen_static(r, k.clone()),
        },
        1 => OpJ::RecCancel {
            key: k.clone(),
            oid: None,
        },
        2 => OpJ::CancelResp {
            key: k.clone(),
            ok: r.chance(1, 2),
            oid: 1,
            t: *now,
            err: r.below(6) as u8,
        },
        3 => gen_inactive(r, k, cur, now),
        4 => gen_marker(r, k, cur, now),
        _ => {
            let w = *r.pick(&[When::Newer, When::Tie, When::Older, When::Any]);
            let fm = r.below(6);
            let vary = r.chance(1, 4);
            gen_open_snap(r, k, cur, now, w, fm, vary)
        }
    }
}

/// next input for the id `k`, steered by its current (real) state: mostly what a live system
/// would see next; `adversarial` shifts the weight to stale / duplicate / out-of-order inputs
fn gen_op(
    r: &mut Rng,
    k: &KeyJ,
    cur: Option<&ActiveOrder>,
    last: Option<&OpJ>,
    now: &mut i64,
    adversarial: bool,
) -> OpJ {
    if adversarial {
        if let Some(l) = last {
            if r.chance(1, 5) {
                return l.clone(); // exact duplicate delivery
            }
        }
        if r.chance(1, 2) {
            return gen_any(r, k, cur, now);
        }
    } else if r.chance(1, 10) {
        return gen_any(r, k, cur, now);
    }
    let fill = |r: &mut Rng| -> u64 { *r.pick(&[0, 1, 1, 1, 2, 3, 4, 5]) };
    let when = |r: &mut Rng| -> When {
        if adversarial {
            *r.pick(&[When::Newer, When::Tie, When::Older, When::Older])
        } else {
            *r.pick(&[When::Newer, When::Newer, When::Newer, When::Tie, When::Older])
        }
    };
    match cur.map(|o| &o.state) {
        None => match r.below(10) {
            0..=5 => OpJ::RecOpen {
                o: gen_static(r, k.clone()),
            },
            6..=8 => {
                let fm = fill(r);
                gen_open_snap(r, k, cur, now, When::Newer, fm, true)
            }
            _ => gen_any(r, k, cur, now),
        },
        Some(ActiveOrderState::OpenInFlight(_)) => match r.below(10) {
            0..=5 => {
                let fm = fill(r);
                let vary = r.chance(1, 5);
                gen_open_snap(r, k, cur, now, When::Newer, fm, vary)
            }
            6..=7 => OpJ::RecCancel {
                key: k.clone(),
                oid: None,
            },
            8 => gen_inactive(r, k, cur, now),
            _ => gen_any(r, k, cur, now),
        },
        Some(ActiveOrderState::Open(_)) => match r.below(10) {
            0..=4 => {
                let (w, fm) = (when(r), fill(r));
                let vary = r.chance(1, 6);
                gen_open_snap(r, k, cur, now, w, fm, vary)
            }
            5..=6 => OpJ::RecCancel {
                key: k.clone(),
                oid: Some(1),
            },
            7..=8 => gen_inactive(r, k, cur, now),
            _ => gen_any(r, k, cur, now),
        },
        Some(ActiveOrderState::CancelInFlight(_)) => match r.below(10) {
            0..=2 => OpJ::CancelResp {
                key: k.clone(),
                ok: true,
                oid: 1,
                t: *now,
                err: 0,
            },
            3..=4 => OpJ::CancelResp {
                key: k.clone(),
                ok: false,
                oid: 1,
                t: *now,
                err: r.below(6) as u8,
            },
            5..=7 => {
                let (w, fm) = (when(r), fill(r));
                let vary = r.chance(1, 6);
                gen_open_snap(r, k, cur, now, w, fm, vary)
            }
            8 => gen_inactive(r, k, cur, now),
            _ => gen_any(r, k, cur, now),
        },
    }
}

fn gen_orders_history(r: &mut Rng, max_len: u64, adversarial: bool) -> InputJ {
    let n_cids = 1 + r.below(3) as u32;
    let len = 1 + r.below(max_len);
    let mut orders: Orders<ExchangeIndex, InstrumentIndex> = Orders::default();
    let mut ops: Vec<OpJ> = vec![];
    let mut now = 10i64;
    for _ in 0..len {
        // adversarial: now and then an id nobody ever opened
        let c = if adversarial && r.chance(1, 12) {
            9
        } else {
            1 + r.below(n_cids as u64) as u32
        };
        let k = key(0, c);
        if r.chance(1, 8) {
            ops.push(OpJ::Persist {});
        }
        let last_real = ops.iter().rev().find(|o| !matches!(o, OpJ::Persist {}));
        let op = gen_op(
            r,
            &k,
            orders.0.get(&cid(c)),
            last_real,
            &mut now,
            adversarial,
        );
        apply_orders(&mut orders, &op);
        ops.push(op);
    }
    InputJ::Orders { init: vec![], ops }
}

fn gen_engine_history(r: &mut Rng, max_len: u64, adversarial: bool) -> InputJ {
    let ninst = 2 + r.below(2) as usize;
    let n_cids = 1 + r.below(3) as u32;
    let len = 1 + r.below(max_len);
    let mut state = build_engine(ninst);
    let mut xs: Vec<EopJ> = vec![];
    let mut last: Option<OpJ> = None;
    let mut now = 10i64;
    for _ in 0..len {
        if r.chance(1, 8) {
            let p = EopJ::Ord {
                op: OpJ::Persist {},
            };
            apply_engine(&mut state, &p);
            xs.push(p);
        }
        let x = if r.chance(1, 7) {
            // a full account snapshot: a few instruments, a few reports each (mostly open
            // reports, the same id possibly twice)
            let mut insts = vec![];
            for _ in 0..r.below(3) + (if r.chance(1, 6) { 0 } else { 1 }) {
                let i = r.below(ninst as u64) as usize;
                let mut orders = vec![];
                for _ in 0..r.below(4) {
                    let c = 1 + r.below(n_cids as u64) as u32;
                    let k = key(i, c);
                    let cur = engine_orders(&state, i).0.get(&cid(c));
                    let op = if r.chance(1, 5) {
                        gen_inactive(r, &k, cur, &mut now)
                    } else if r.chance(1, 8) {
                        gen_marker(r, &k, cur, &mut now)
                    } else {
                        let w = *r.pick(&[When::Newer, When::Newer, When::Tie, When::Older]);
                        let fm = *r.pick(&[0, 1, 1, 2, 3, 4, 5]);
                        let vary = r.chance(1, 5);
                        gen_open_snap(r, &k, cur, &mut now, w, fm, vary)
                    };
                    if let OpJ::Snap { o } = op {
                        orders.push(o);
                    }
                }
                insts.push(ISnapJ { inst: i, orders });
            }
            EopJ::Acct { insts }
        } else {
            let i = r.below(ninst as u64) as usize;
            let c = 1 + r.below(n_cids as u64) as u32;
            let k = key(i, c);
            let cur = engine_orders(&state, i).0.get(&cid(c));
            let op = gen_op(r, &k, cur, last.as_ref(), &mut now, adversarial);
            last = Some(op.clone());
            EopJ::Ord { op }
        };
        apply_engine(&mut state, &x);
        xs.push(x);
    }
    InputJ::Engine { ninst, xs }
}

fn emit(em: &mut Emitter, stream: &'static str, input: &InputJ) {
    let ran = run_input(input);
    em.emit(Case {
        stream,
        input: serde_json::to_value(input).unwrap(),
        coq: ran.coq,
        nontrivial: ran.nontrivial,
        tags: ran.tags,
    });
}

fn main() {
    quiet_panics();
    let args = parse_args();
    let mut em = Emitter::create(&args.out);
    match args.mode.as_str() {
        "gen" => {
            let thorough = args.tier == "thorough";
            let mut r = Rng::new(args.seed);
            for input in gen_table() {
                for scale in TABLE_SCALES {
                    emit(&mut em, "table", &rescaled(&input, scale));
                }
                // persist / restore before and after the input under test (sub-millisecond
                // timestamps straddling a millisecond boundary)
                let scaled = rescaled(&input, TABLE_SCALES[1]);
                match scaled {
                    InputJ::Orders { init, ops } => {
                        let mut with = vec![OpJ::Persist {}];
                        with.extend(ops);
                        with.push(OpJ::Persist {});
                        emit(&mut em, "table", &InputJ::Orders { init, ops: with });
                    }
                    InputJ::Engine { ninst, mut xs } => {
                        let at = xs.len() - 1;
                        xs.insert(
                            at,
                            EopJ::Ord {
                                op: OpJ::Persist {},
                            },
                        );
                        xs.push(EopJ::Ord {
                            op: OpJ::Persist {},
                        });
                        emit(&mut em, "table", &InputJ::Engine { ninst, xs });
                    }
                }
            }
            let (n_rand, n_eng, n_adv, max_len) = if thorough {
                (4000, 2000, 3000, 60)
            } else {
                (260, 140, 200, 30)
            };
            for j in 0..n_rand {
                let mut rr = r.fork();
                // thorough: every 25th history is a long one
                let ml = if thorough && j % 25 == 0 { 200 } else { max_len };
                let input = gen_orders_history(&mut rr, ml, false);
                let scale = time_palette(&mut rr);
                emit(&mut em, "random", &rescaled(&input, scale));
            }
            for _ in 0..n_eng {
                let mut rr = r.fork();
                let input = gen_engine_history(&mut rr, max_len, false);
                let scale = time_palette(&mut rr);
                emit(&mut em, "random", &rescaled(&input, scale));
            }
            for j in 0..n_adv {
                let mut rr = r.fork();
                let input = if j % 3 == 2 {
                    gen_engine_history(&mut rr, max_len, true)
                } else {
                    gen_orders_history(&mut rr, max_len, true)
                };
                let scale = time_palette(&mut rr);
                emit(&mut em, "adversarial", &rescaled(&input, scale));
            }
        }
        "exec" => {
            let path = args.input.clone().expect("--in FILE");
            for (v, stream) in read_inputs(&path) {
                let input: InputJ = serde_json::from_value(v).expect("input json");
                emit(&mut em, stream_static(&stream), &input);
            }
        }
        other => panic!("unknown mode {other}"),
    }
    em.finish();
}
