//! C11 correspondence harness: IndexedInstruments::new / builder on generated instrument
//! multisets, every find_xxx lookup, the engine-state tables and the execution transmitter map
//! built from the collection; printed as Coq terms of type `case` (Corr/C11.v).
use barter::{
    engine::{
        execution_tx::ExecutionTxMap,
        state::{EngineState, global::DefaultGlobalData},
    },
    execution::builder::ExecutionBuilder,
};
use barter_execution::map::generate_execution_instrument_map;
use barter_instrument::{
    Keyed,
    asset::AssetIndex,
    exchange::{ExchangeId, ExchangeIndex},
    index::IndexedInstruments,
    instrument::{Instrument, InstrumentIndex},
};
use serde_json::{Value, json};
use std::{
    panic::AssertUnwindSafe,
    sync::{Arc, Mutex},
};

const EMPTY_PROBES: &str = "(mkProbes [] [] [] [] [] [])";
use verif_c11::{stub::*, *};
use vh_common::*;

fn pairs(v: &[(String, String)]) -> String {
    list(&v.iter().map(|(a, b)| format!("({}, {})", a, b)).collect::<Vec<_>>())
}

fn probes(x: &IndexedInstruments, u: &Universe) -> String {
    let ex_idx: Vec<(String, String)> = u
        .exs
        .iter()
        .map(|e| (u.ex(e).to_string(), coq_opt_n(x.find_exchange_index(*e).ok().map(|i| i.0))))
        .collect();
    let ex: Vec<(String, String)> = (0..x.exchanges().len() + 2)
        .map(|k| {
            (
                k.to_string(),
                opt(x.find_exchange(ExchangeIndex(k)).ok().map(|e| u.ex(&e).to_string())),
            )
        })
        .collect();
    let mut as_idx = vec![];
    for e in &u.exs {
        for ni in &u.ani {
            as_idx.push((
                format!("({}, {})", u.ex(e), u.ani(ni)),
                coq_opt_n(x.find_asset_index(*e, ni).ok().map(|i| i.0)),
            ));
        }
    }
    let as_: Vec<(String, String)> = (0..x.assets().len() + 2)
        .map(|k| {
            let pos = x.find_asset(AssetIndex(k)).ok().map(|r| {
                x.assets()
                    .iter()
                    .position(|kv| std::ptr::eq(&kv.value, r))
                    .expect("find_asset returned a reference outside assets()")
            });
            (k.to_string(), coq_opt_n(pos))
        })
        .collect();
    let mut in_idx = vec![];
    for e in &u.exs {
        for ni in &u.ini {
            in_idx.push((
                format!("({}, {})", u.ex(e), u.ini(ni)),
                coq_opt_n(x.find_instrument_index(*e, ni).ok().map(|i| i.0)),
            ));
        }
    }
    let in_: Vec<(String, String)> = (0..x.instruments().len() + 2)
        .map(|k| {
            let pos = x.find_instrument(InstrumentIndex(k)).ok().map(|r| {
                x.instruments()
                    .iter()
                    .position(|kv| std::ptr::eq(&kv.value, r))
                    .expect("find_instrument returned a reference outside instruments()")
            });
            (k.to_string(), coq_opt_n(pos))
        })
        .collect();
    format!(
        "(mkProbes {} {} {} {} {} {})",
        pairs(&ex_idx),
        pairs(&ex),
        pairs(&as_idx),
        pairs(&as_),
        pairs(&in_idx),
        pairs(&in_)
    )
}

fn tables(x: &IndexedInstruments, u: &Universe, added: &[ExchangeId]) -> Option<String> {
    let x2 = x.clone();
    let added2 = added.to_vec();
    // ranks are computed outside the closure; the closure only drives the implementation
    let res = catch(move || {
        let mut ctr = 0u64;
        let state = EngineState::<DefaultGlobalData, u64>::builder(&x2, DefaultGlobalData, move || {
            ctr += 1;
            ctr
        })
        .time_engine_start(t0())
        .build();
        let istates: Vec<_> = state
            .instruments
            .0
            .iter()
            .map(|(k, st)| (k.clone(), st.key, st.instrument.clone()))
            .collect();
        let astates: Vec<_> = state
            .assets
            .0
            .iter()
            .map(|(k, st)| (k.clone(), st.asset.clone()))
            .collect();
        let conn: Vec<ExchangeId> = state.connectivity.exchanges.keys().copied().collect();
        let log: Log = Arc::new(Mutex::new(vec![]));
        let mut b = ExecutionBuilder::new(&x2);
        for e in &added2 {
            b = add_stub(b, *e, log.clone()).expect("add_live on an indexed exchange");
        }
        let build = b.build();
        let tx: Vec<(ExchangeId, bool)> = (&build.execution_tx_map)
            .into_iter()
            .map(|(e, t)| (*e, t.is_some()))
            .collect();
        let n = x2.exchanges().len();
        let txfind: Vec<(usize, bool)> = (0..n + 2)
            .map(|i| (i, build.execution_tx_map.find(&ExchangeIndex(i)).is_ok()))
            .collect();
        (istates, astates, conn, tx, txfind)
    });
    let (istates, astates, conn, tx, txfind) = res.ok()?;
    let istates: Vec<String> = istates
        .iter()
        .map(|(k, key, ins): &(_, InstrumentIndex, Instrument<ExchangeIndex, AssetIndex>)| {
            format!(
                "({}, ({}, {}))",
                u.ini(k),
                key.0,
                coq_instr(ins, u, &|e: &ExchangeIndex| e.0.to_string(), &|a: &AssetIndex| a.0.to_string())
            )
        })
        .collect();
    let astates: Vec<String> = astates
        .iter()
        .map(|(k, a)| format!("(({}, {}), {})", u.ex(&k.exchange), u.ani(&k.asset), u.asset(a)))
        .collect();
    let conn: Vec<String> = conn.iter().map(|e| u.ex(e).to_string()).collect();
    let addedc: Vec<String> = added.iter().map(|e| u.ex(e).to_string()).collect();
    let tx: Vec<String> = tx.iter().map(|(e, s)| format!("({}, {})", u.ex(e), b(*s))).collect();
    let txfind: Vec<String> = txfind.iter().map(|(i, s)| format!("({}, {})", i, b(*s))).collect();
    Some(format!(
        "(mkTables {} {} {} {} {} {})",
        list(&istates),
        list(&astates),
        list(&conn),
        list(&addedc),
        list(&tx),
        list(&txfind)
    ))
}

fn emit_idx(em: &mut Emitter, stream: &'static str, ds: &[Def], added: &[ExchangeId], extra_tags: &[String]) {
    let u = Universe::new(ds);
    // only exchanges that are part of the collection can be given an execution link
    let added: Vec<ExchangeId> = added
        .iter()
        .copied()
        .filter(|e| ds.iter().any(|d| d.exchange == *e))
        .collect();
    // a panic anywhere in the implementation is an observation ("not built"), never a crash
    let obs = catch(AssertUnwindSafe(|| {
        let built = build_catching(ds.to_vec(), false);
        let base = build_catching(canonical_order(ds), true);
        let (pr, tb) = match &built {
            Some(x) => (probes(x, &u), tables(x, &u, &added)),
            None => (EMPTY_PROBES.to_string(), None),
        };
        (
            opt(built.as_ref().map(|x| coq_indexed(x, &u))),
            opt(base.as_ref().map(|x| coq_indexed(x, &u))),
            pr,
            opt(tb),
            built.is_some(),
        )
    }));
    let mut tags = collection_tags(ds);
    tags.extend(extra_tags.iter().cloned());
    let (built_s, base_s, pr, tb, ok) = obs.unwrap_or_else(|_| {
        tags.push("lookup_panicked".into());
        ("None".to_string(), "None".to_string(), EMPTY_PROBES.to_string(), "None".to_string(), false)
    });
    let coq = format!("(CIdx {} {} {} {} {})%N", coq_defs(ds, &u), built_s, base_s, pr, tb);
    tags.push(if ok { "built".into() } else { "build_panicked".into() });
    tags.push(format!("links_{}", added.len()));
    em.emit(Case {
        stream,
        input: json!({"kind": "idx", "instruments": defs_to_json(ds), "added": exchanges_to_json(&added)}),
        coq,
        nontrivial: !ds.is_empty(),
        tags: tags.clone(),
    });
    if !replaying() {
        let keep: Vec<String> = tags.into_iter().filter(|t| !t.starts_with("links_") && t != "built").collect();
        emit_xmap(em, stream, ds, &keep);
    }
}

/// in `exec` mode every input names its own kind: an "idx" input must not emit a second case
fn replaying() -> bool {
    std::env::args().nth(1).as_deref() == Some("exec")
}

/// The execution-link table of EVERY exchange of the case universe: index -> name on every
/// global index (own, foreign, out of range) and name -> index on every exchange name.
fn emit_xmap(em: &mut Emitter, stream: &'static str, ds: &[Def], tags_in: &[String]) {
    let u = Universe::new(ds);
    let mut tags: Vec<String> = tags_in.to_vec();
    let obs = catch(AssertUnwindSafe(|| {
        let built = build_catching(ds.to_vec(), false)?;
        let mut maps = vec![];
        let mut t = vec![];
        for e in &u.exs {
            // a panic inside a lookup is reported as "no map", which the oracle rejects for an
            // indexed exchange
            let one = catch(AssertUnwindSafe(|| {
                let m = generate_execution_instrument_map(&built, *e).ok()?;
                let as_name: Vec<(String, String)> = (0..built.assets().len() + 2)
                    .map(|k| {
                        (k.to_string(), opt(m.find_asset_name_exchange(AssetIndex(k)).ok().map(|n| u.ane(n).to_string())))
                    })
                    .collect();
                let as_ix: Vec<(String, String)> = u
                    .ane
                    .iter()
                    .map(|n| (u.ane(n).to_string(), coq_opt_n(m.find_asset_index(n).ok().map(|i| i.0))))
                    .collect();
                let in_name: Vec<(String, String)> = (0..built.instruments().len() + 2)
                    .map(|k| {
                        (
                            k.to_string(),
                            opt(m.find_instrument_name_exchange(InstrumentIndex(k)).ok().map(|n| u.ine(n).to_string())),
                        )
                    })
                    .collect();
                let in_ix: Vec<(String, String)> = u
                    .ine
                    .iter()
                    .map(|n| (u.ine(n).to_string(), coq_opt_n(m.find_instrument_index(n).ok().map(|i| i.0))))
                    .collect();
                Some(format!("(mkXMap {} {} {} {})", pairs(&as_name), pairs(&as_ix), pairs(&in_name), pairs(&in_ix)))
            }));
            match one {
                Ok(Some(o)) => {
                    t.push("xmap_some".to_string());
                    maps.push(format!("({}, (Some {}))", u.ex(e), o));
                }
                Ok(None) => {
                    t.push("xmap_none".to_string());
                    maps.push(format!("({}, None)", u.ex(e)));
                }
                Err(_) => {
                    t.push("lookup_panicked".to_string());
                    maps.push(format!("({}, None)", u.ex(e)));
                }
            }
        }
        Some((coq_indexed(&built, &u), maps, t))
    }));
    let (built_s, maps) = match obs {
        Ok(Some((b, m, t))) => {
            tags.extend(t);
            (format!("(Some {})", b), m)
        }
        _ => {
            tags.push("build_panicked".into());
            ("None".to_string(), vec![])
        }
    };
    tags.sort();
    tags.dedup();
    em.emit(Case {
        stream,
        input: json!({"kind": "xmap", "instruments": defs_to_json(ds)}),
        coq: format!("(CXMap {} {} {})%N", coq_defs(ds, &u), built_s, list(&maps)),
        nontrivial: !ds.is_empty(),
        tags,
    });
}

fn permutations(n: usize) -> Vec<Vec<usize>> {
    fn go(k: usize, cur: &mut Vec<usize>, used: &mut Vec<bool>, out: &mut Vec<Vec<usize>>) {
        if cur.len() == k {
            out.push(cur.clone());
            return;
        }
        for i in 0..k {
            if !used[i] {
                used[i] = true;
                cur.push(i);
                go(k, cur, used, out);
                cur.pop();
                used[i] = false;
            }
        }
    }
    let mut out = vec![];
    go(n, &mut vec![], &mut vec![false; n], &mut out);
    out
}

/// every insertion order (all permutations up to 5 elements, `shuffles` random ones beyond)
fn emit_perm(em: &mut Emitter, stream: &'static str, ds: &[Def], shuffles: u64, seed: u64, extra_tags: &[String]) {
    let u = Universe::new(ds);
    let orders: Vec<Vec<usize>> = if ds.len() <= 5 {
        permutations(ds.len())
    } else {
        let mut r = Rng::new(seed);
        let mut v = vec![(0..ds.len()).collect::<Vec<_>>()];
        for _ in 0..shuffles {
            let mut p: Vec<usize> = (0..ds.len()).collect();
            r.shuffle(&mut p);
            v.push(p);
        }
        v
    };
    let mut distinct: Vec<(Vec<usize>, String)> = vec![];
    for (n, p) in orders.iter().enumerate() {
        let l: Vec<Def> = p.iter().map(|i| ds[*i].clone()).collect();
        let res = build_catching(l, n % 2 == 1);
        let s = opt(res.as_ref().map(|x| coq_indexed(x, &u)));
        if !distinct.iter().any(|(_, t)| *t == s) {
            distinct.push((p.clone(), s));
        }
    }
    let coq = format!(
        "(CPerm {} {} {})%N",
        coq_defs(ds, &u),
        orders.len(),
        list(
            &distinct
                .iter()
                .map(|(p, s)| format!(
                    "({}, {})",
                    list(&p.iter().map(|i| i.to_string()).collect::<Vec<_>>()),
                    s
                ))
                .collect::<Vec<_>>()
        )
    );
    let mut tags = collection_tags(ds);
    tags.extend(extra_tags.iter().cloned());
    tags.push(if ds.len() <= 5 { "all_permutations".into() } else { "random_shuffles".into() });
    em.emit(Case {
        stream,
        input: json!({"kind": "perm", "instruments": defs_to_json(ds), "shuffles": shuffles, "seed": seed}),
        coq,
        nontrivial: ds.len() >= 2,
        tags,
    });
}

/// Exhaustive table: every sequence of length <= 3 over a fixed catalogue of four definitions on
/// two exchanges (shared asset names, one exchange with aliases, a perpetual with a settlement
/// asset and an asset-denominated unit), every subset of execution links on the first two.
fn table(em: &mut Emitter) {
    let cat: Vec<Def> = [
        Blueprint {
            exchange: ExchangeId::Kraken,
            spelling: Spelling::Alias,
            base: 0,
            quote: 3,
            kind: KindTag::Spot,
            settlement: 3,
            unit: UnitTag::NoSpec,
            variant: 0,
            name_internal: None,
            name_exchange: None,
            base_spelling: None,
        },
        Blueprint {
            exchange: ExchangeId::BinanceSpot,
            spelling: Spelling::Upper,
            base: 0,
            quote: 2,
            kind: KindTag::Spot,
            settlement: 2,
            unit: UnitTag::Asset(0),
            variant: 1,
            name_internal: None,
            name_exchange: None,
            base_spelling: None,
        },
        Blueprint {
            exchange: ExchangeId::BinanceSpot,
            spelling: Spelling::Upper,
            base: 1,
            quote: 2,
            kind: KindTag::Perpetual,
            settlement: 3,
            unit: UnitTag::Contract,
            variant: 2,
            name_internal: None,
            name_exchange: None,
            base_spelling: None,
        },
        Blueprint {
            exchange: ExchangeId::Kraken,
            spelling: Spelling::Alias,
            base: 1,
            quote: 0,
            kind: KindTag::Option,
            settlement: 1,
            unit: UnitTag::Quote,
            variant: 3,
            name_internal: None,
            name_exchange: None,
            base_spelling: None,
        },
    ]
    .iter()
    .map(build_def)
    .collect();
    let n = cat.len();
    let mut seqs: Vec<Vec<usize>> = vec![vec![]];
    for len in 1..=3u32 {
        for code in 0..n.pow(len) {
            let mut c = code;
            let mut s = vec![];
            for _ in 0..len {
                s.push(c % n);
                c /= n;
            }
            seqs.push(s);
        }
    }
    for (i, s) in seqs.iter().enumerate() {
        let ds: Vec<Def> = s.iter().map(|j| cat[*j].clone()).collect();
        let added: Vec<ExchangeId> = [ExchangeId::Kraken, ExchangeId::BinanceSpot]
            .iter()
            .enumerate()
            .filter(|(b, _)| (i >> b) & 1 == 1)
            .map(|(_, e)| *e)
            .collect();
        emit_idx(em, "table", &ds, &added, &[]);
    }
    // all insertion orders of the catalogue itself and of the catalogue with one duplicate
    emit_perm(em, "table", &cat, 0, 0, &[]);
    for j in 0..n {
        let mut ds = cat.clone();
        ds.push(cat[j].clone());
        emit_perm(em, "table", &ds, 0, 0, &[]);
    }
}

/// Second exhaustive table (configuration shape and repetition):
/// (a) four exchanges whose enum order disagrees with the order of their names (Mock, Simulated,
///     Other declared first but named last; Bitvavo declared before Bithumb) plus Kraken, every
///     subset of execution links over the first three in index order (so an unlinked exchange
///     sits in the middle / at the front / at the end of the transmitter table);
/// (b) repetition: A,B,A with B sharing (exchange, internal name) with A; A,x,A,y,A; an exchange
///     revisited (A,B,A on exchange level); two instruments whose shared base asset is spelled
///     differently (same internal asset name, two exchange names).
fn table2(em: &mut Emitter) {
    let odd = [
        ExchangeId::Mock,
        ExchangeId::Kraken,
        ExchangeId::Bithumb,
        ExchangeId::Bitvavo,
        ExchangeId::Simulated,
        ExchangeId::Other,
    ];
    let cat: Vec<Def> = odd
        .iter()
        .enumerate()
        .map(|(i, e)| build_def(&spot_bp(*e, Spelling::Upper, i % 2, 2 + i % 2)))
        .collect();
    // every 3- and 4-subset of the six exchanges, every subset of links on its exchanges
    for mask in 0u32..64 {
        let n = mask.count_ones();
        if n != 3 && n != 4 {
            continue;
        }
        let ds: Vec<Def> = (0..6).filter(|i| mask & (1 << i) != 0).map(|i| cat[i].clone()).collect();
        let mut exs: Vec<ExchangeId> = ds.iter().map(|d| d.exchange).collect();
        exs.sort();
        for links in 0u32..(1 << exs.len()) {
            // keep the table small: all link subsets for 3 exchanges, the "hole" patterns for 4
            if exs.len() == 4 && !matches!(links, 0b1011 | 0b1101 | 0b1001 | 0b0110 | 0b1010) {
                continue;
            }
            let added: Vec<ExchangeId> =
                exs.iter().enumerate().filter(|(i, _)| links & (1 << i) != 0).map(|(_, e)| *e).collect();
            emit_idx(em, "table", &ds, &added, &["table_enum_vs_name_order".to_string()]);
        }
    }
    emit_perm(em, "table", &cat[..5], 0, 0, &["table_enum_vs_name_order".to_string()]);

    // repetition
    let a_bp = Blueprint { kind: KindTag::Perpetual, settlement: 6, unit: UnitTag::Asset(7), variant: 1, ..spot_bp(ExchangeId::Okx, Spelling::Upper, 0, 2) };
    let a = build_def(&a_bp);
    let sib = build_def(&Blueprint {
        kind: KindTag::Spot,
        unit: UnitTag::Contract,
        name_internal: Some(a.name_internal.name().to_string()),
        name_exchange: Some(a.name_exchange.name().to_string()),
        ..a_bp.clone()
    });
    let x = build_def(&spot_bp(ExchangeId::Kraken, Spelling::Alias, 1, 3));
    let y = build_def(&spot_bp(ExchangeId::Okx, Spelling::Upper, 4, 2));
    let respelled = build_def(&Blueprint { base_spelling: Some(Spelling::Lower), ..spot_bp(ExchangeId::Okx, Spelling::Upper, 0, 3) });
    let reps: Vec<(Vec<Def>, &str)> = vec![
        (vec![a.clone(), sib.clone(), a.clone()], "table_aba_same_key_sibling"),
        (vec![sib.clone(), a.clone(), sib.clone(), a.clone()], "table_aba_same_key_sibling"),
        (vec![a.clone(), x.clone(), a.clone(), y.clone(), a.clone()], "table_triple_non_adjacent"),
        (vec![a.clone(), x.clone(), y.clone()], "table_exchange_revisited"),
        (vec![y.clone(), x.clone(), a.clone(), x.clone()], "table_exchange_revisited"),
        (vec![y.clone(), respelled.clone(), a.clone()], "table_asset_two_exchange_names"),
        (vec![a.clone()], "table_single_instrument"),
    ];
    for (ds, tag) in reps {
        let mut exs: Vec<ExchangeId> = ds.iter().map(|d| d.exchange).collect();
        exs.sort();
        exs.dedup();
        emit_idx(em, "table", &ds, &exs[..1], &[tag.to_string()]);
        emit_perm(em, "table", &ds, 0, 0, &[tag.to_string()]);
    }
}

fn gen_added(r: &mut Rng, ds: &[Def]) -> Vec<ExchangeId> {
    let mut exs: Vec<ExchangeId> = ds.iter().map(|d| d.exchange).collect();
    exs.sort();
    exs.dedup();
    r.shuffle(&mut exs);
    let k = r.below(exs.len() as u64 + 1) as usize;
    exs.truncate(k);
    exs
}

fn main() {
    quiet_panics();
    let args = parse_args();
    let mut em = Emitter::create(&args.out);
    match args.mode.as_str() {
        "gen" => {
            let mut r = Rng::new(args.seed);
            let thorough = args.tier == "thorough";
            let (n_idx, n_adv, n_perm, n_perm_adv, n_big) =
                if thorough { (6000, 3000, 2500, 800, 600) } else { (330, 170, 170, 60, 40) };
            table(&mut em);
            table2(&mut em);
            let wf = GenOpts { adversarial: false, max_exchanges: 4, max_catalogue: 7, max_len: 10, spot_only: false };
            let adv = GenOpts { adversarial: true, ..wf };
            for _ in 0..n_idx {
                let (ds, tags) = gen_collection(&mut r, &wf);
                let added = gen_added(&mut r, &ds);
                emit_idx(&mut em, "random", &ds, &added, &tags);
            }
            for _ in 0..n_adv {
                let (ds, tags) = gen_collection(&mut r, &adv);
                let added = gen_added(&mut r, &ds);
                emit_idx(&mut em, "adversarial", &ds, &added, &tags);
            }
            let small = GenOpts { max_catalogue: 4, max_len: 5, ..wf };
            for _ in 0..n_perm {
                let (ds, tags) = gen_collection(&mut r, &small);
                emit_perm(&mut em, "random", &ds, 0, 0, &tags);
            }
            let small_adv = GenOpts { adversarial: true, ..small };
            for _ in 0..n_perm_adv {
                let (ds, tags) = gen_collection(&mut r, &small_adv);
                emit_perm(&mut em, "adversarial", &ds, 0, 0, &tags);
            }
            let big = GenOpts { max_catalogue: 8, max_len: 12, ..wf };
            for _ in 0..n_big {
                let (mut ds, tags) = gen_collection(&mut r, &big);
                if ds.is_empty() {
                    continue;
                }
                while ds.len() < 6 {
                    let d = r.pick(&ds.clone()).clone();
                    ds.push(d);
                }
                let seed = r.next();
                emit_perm(&mut em, "random", &ds, if thorough { 60 } else { 25 }, seed, &tags);
            }
        }
        "exec" => {
            for (inp, stream) in read_inputs(args.input.as_deref().expect("--in")) {
                let st = stream_static(&stream);
                let Some(ds) = defs_from_json(&inp["instruments"]) else { continue };
                if inp["kind"] == "xmap" {
                    emit_xmap(&mut em, st, &ds, &[]);
                } else if inp["kind"] == "perm" {
                    emit_perm(
                        &mut em,
                        st,
                        &ds,
                        inp["shuffles"].as_u64().unwrap_or(0),
                        inp["seed"].as_u64().unwrap_or(0),
                        &[],
                    );
                } else {
                    let added = exchanges_from_json(&inp["added"]).unwrap_or_default();
                    emit_idx(&mut em, st, &ds, &added, &[]);
                }
            }
        }
        m => panic!("unknown mode {m}"),
    }
    em.finish();
}

// silence unused warnings for items only used by the C04 harness
#[allow(dead_code)]
fn _unused(_: Keyed<ExchangeIndex, ExchangeId>, _: Value) {}
