//! Shared between the C11 and C04 harnesses: instrument-collection generators, the per-case
//! "universe" that turns every name into its rank under Rust's own `Ord`, Coq term printers for
//! instruments / IndexedInstruments, and a stub `ExecutionClient` family (one type per
//! exchange of the pool, because `ExecutionClient::EXCHANGE` is an associated constant).
use barter_instrument::{
    Keyed, Underlying,
    asset::{
        Asset, AssetIndex, ExchangeAsset,
        name::{AssetNameExchange, AssetNameInternal},
    },
    exchange::{ExchangeId, ExchangeIndex},
    index::IndexedInstruments,
    instrument::{
        Instrument,
        kind::{
            InstrumentKind,
            future::FutureContract,
            option::{OptionContract, OptionExercise, OptionKind},
            perpetual::PerpetualContract,
        },
        name::{InstrumentNameExchange, InstrumentNameInternal},
        quote::InstrumentQuoteAsset,
        spec::{
            InstrumentSpec, InstrumentSpecNotional, InstrumentSpecPrice, InstrumentSpecQuantity,
            OrderQuantityUnits,
        },
    },
};
use chrono::{TimeZone, Utc};
use rust_decimal::Decimal;
use serde_json::Value;
use std::collections::BTreeSet;
use vh_common::*;

pub mod stub;

pub type Def = Instrument<ExchangeId, Asset>;
pub type IndexedInstrument = Instrument<Keyed<ExchangeIndex, ExchangeId>, AssetIndex>;

/// Exchanges used by the generators, deliberately not in `Ord` order.
pub const POOL: [ExchangeId; 12] = [
    ExchangeId::Kraken,
    ExchangeId::BinanceSpot,
    ExchangeId::Okx,
    ExchangeId::Coinbase,
    ExchangeId::Mock,
    ExchangeId::BinanceFuturesUsd,
    ExchangeId::GateioSpot,
    ExchangeId::Bitfinex,
    // declared first in the enum although their names ("simulated", "other", "mock") sort last;
    // Bitvavo is declared before Bithumb although "bithumb" < "bitvavo"
    ExchangeId::Simulated,
    ExchangeId::Other,
    ExchangeId::Bitvavo,
    ExchangeId::Bithumb,
];
/// never used by a generated instrument: probes for unknown exchanges (middle / largest in Ord)
pub const UNUSED: [ExchangeId; 2] = [ExchangeId::Bitstamp, ExchangeId::Poloniex];

/// the first TRADED names are used as base / quote; the rest only ever as settlement (margin)
/// asset or quantity unit, so that an exchange can own an asset that is the underlying of none
/// of its instruments (quanto / separately margined contracts)
pub const ASSETS: [&str; 8] = ["btc", "eth", "usdt", "usd", "sol", "xbt", "bnb", "usdc"];
pub const TRADED: usize = 6;
pub const CONTRACT_SIZES: [(i64, u32); 4] = [(1, 0), (1, 3), (1, 2), (100, 0)];

pub fn pool_index(e: ExchangeId) -> Option<usize> {
    POOL.iter().position(|x| *x == e)
}

// ---------------------------------------------------------------------------------------------
// Universe: ranks under Rust's Ord
// ---------------------------------------------------------------------------------------------

#[derive(Debug, Default)]
pub struct Universe {
    pub exs: Vec<ExchangeId>,
    pub ani: Vec<AssetNameInternal>,
    pub ane: Vec<AssetNameExchange>,
    pub ini: Vec<InstrumentNameInternal>,
    pub ine: Vec<InstrumentNameExchange>,
    pub defs: Vec<Def>,
    pub tails: Vec<String>,
}

/// rank of a value among the values of the case; a value the case universe does not know (it can
/// only come out of a misbehaving implementation) gets a rank no model run can produce instead
/// of stopping the harness
pub const UNKNOWN_RANK: u128 = 999_999;
fn rank_of<T: Ord + std::fmt::Debug>(v: &[T], x: &T) -> u128 {
    v.binary_search(x).map(|i| i as u128).unwrap_or(UNKNOWN_RANK)
}

pub fn def_assets(d: &Def) -> Vec<&Asset> {
    let mut v = vec![&d.underlying.base, &d.underlying.quote];
    if let Some(s) = d.kind.settlement_asset() {
        v.push(s);
    }
    if let Some(spec) = &d.spec {
        if let OrderQuantityUnits::Asset(a) = &spec.quantity.unit {
            v.push(a);
        }
    }
    v
}

impl Universe {
    pub fn new(instruments: &[Def]) -> Self {
        let mut exs: BTreeSet<ExchangeId> = UNUSED.iter().copied().collect();
        let mut ani: BTreeSet<AssetNameInternal> = BTreeSet::new();
        let mut ane: BTreeSet<AssetNameExchange> = BTreeSet::new();
        let mut ini: BTreeSet<InstrumentNameInternal> = BTreeSet::new();
        let mut ine: BTreeSet<InstrumentNameExchange> = BTreeSet::new();
        let mut tails: BTreeSet<String> = BTreeSet::new();
        // names that are never used by a generated instrument / asset
        for s in ["aaa", "zzz"] {
            ani.insert(AssetNameInternal::new(s));
            ane.insert(AssetNameExchange::new(s));
        }
        for s in ["aaa-unknown", "zzz-unknown"] {
            ini.insert(InstrumentNameInternal::new(s));
            ine.insert(InstrumentNameExchange::new(s));
        }
        for d in instruments {
            exs.insert(d.exchange);
            ini.insert(d.name_internal.clone());
            ine.insert(d.name_exchange.clone());
            tails.insert(tail_key(d));
            for a in def_assets(d) {
                ani.insert(a.name_internal.clone());
                ane.insert(a.name_exchange.clone());
            }
        }
        // derived Ord of the whole definition: sort + dedup with the std library
        let mut defs: Vec<Def> = instruments.to_vec();
        defs.sort();
        defs.dedup();
        Universe {
            exs: exs.into_iter().collect(),
            ani: ani.into_iter().collect(),
            ane: ane.into_iter().collect(),
            ini: ini.into_iter().collect(),
            ine: ine.into_iter().collect(),
            defs,
            tails: tails.into_iter().collect(),
        }
    }
    pub fn ex(&self, e: &ExchangeId) -> u128 {
        rank_of(&self.exs, e)
    }
    pub fn ani(&self, x: &AssetNameInternal) -> u128 {
        rank_of(&self.ani, x)
    }
    pub fn ane(&self, x: &AssetNameExchange) -> u128 {
        rank_of(&self.ane, x)
    }
    pub fn ini(&self, x: &InstrumentNameInternal) -> u128 {
        rank_of(&self.ini, x)
    }
    pub fn ine(&self, x: &InstrumentNameExchange) -> u128 {
        rank_of(&self.ine, x)
    }
    pub fn def_rank(&self, d: &Def) -> u128 {
        rank_of(&self.defs, d)
    }
    pub fn tail<E, A>(&self, i: &Instrument<E, A>) -> u128 {
        rank_of(&self.tails, &tail_key(i))
    }
    pub fn asset(&self, a: &Asset) -> String {
        format!("({}, {})", self.ani(&a.name_internal), self.ane(&a.name_exchange))
    }
}

/// Everything in an instrument that carries no exchange / asset key.
pub fn tail_key<E, A>(i: &Instrument<E, A>) -> String {
    let kind = match &i.kind {
        InstrumentKind::Spot => "spot".to_string(),
        InstrumentKind::Perpetual(c) => format!("perp:{}", c.contract_size),
        InstrumentKind::Future(c) => {
            format!("fut:{}:{}", c.contract_size, c.expiry.timestamp_millis())
        }
        InstrumentKind::Option(c) => format!(
            "opt:{}:{:?}:{:?}:{}:{}",
            c.contract_size,
            c.kind,
            c.exercise,
            c.expiry.timestamp_millis(),
            c.strike
        ),
    };
    let spec = match &i.spec {
        None => "none".to_string(),
        Some(s) => format!(
            "{}:{}:{}:{}:{}",
            s.price.min, s.price.tick_size, s.quantity.min, s.quantity.increment, s.notional.min
        ),
    };
    format!("{:?}|{}|{}", i.quote, kind, spec)
}

// ---------------------------------------------------------------------------------------------
// Coq printers (numbers are printed bare: the whole case term is wrapped in `( ... )%N`)
// ---------------------------------------------------------------------------------------------

pub fn coq_instr<E, A>(
    i: &Instrument<E, A>,
    u: &Universe,
    fe: &dyn Fn(&E) -> String,
    fa: &dyn Fn(&A) -> String,
) -> String {
    let kind = match &i.kind {
        InstrumentKind::Spot => "KSpot".to_string(),
        InstrumentKind::Perpetual(c) => format!("(KPerpetual {})", fa(&c.settlement_asset)),
        InstrumentKind::Future(c) => format!("(KFuture {})", fa(&c.settlement_asset)),
        InstrumentKind::Option(c) => format!("(KOption {})", fa(&c.settlement_asset)),
    };
    let spec = match &i.spec {
        None => "None".to_string(),
        Some(s) => match &s.quantity.unit {
            OrderQuantityUnits::Asset(a) => format!("(Some (UAsset {}))", fa(a)),
            OrderQuantityUnits::Contract => "(Some UContract)".to_string(),
            OrderQuantityUnits::Quote => "(Some UQuote)".to_string(),
        },
    };
    format!(
        "(mkInstr {} {} {} {} {} {} {} {})",
        fe(&i.exchange),
        u.ini(&i.name_internal),
        u.ine(&i.name_exchange),
        fa(&i.underlying.base),
        fa(&i.underlying.quote),
        kind,
        spec,
        u.tail(i)
    )
}

pub fn coq_def(d: &Def, u: &Universe) -> String {
    format!(
        "(mkDef {} {})",
        u.def_rank(d),
        coq_instr(d, u, &|e| u.ex(e).to_string(), &|a| u.asset(a))
    )
}

pub fn coq_defs(ds: &[Def], u: &Universe) -> String {
    list(&ds.iter().map(|d| coq_def(d, u)).collect::<Vec<_>>())
}

pub fn coq_indexed_instr(i: &IndexedInstrument, u: &Universe) -> String {
    coq_instr(
        i,
        u,
        &|e: &Keyed<ExchangeIndex, ExchangeId>| format!("({}, {})", e.key.0, u.ex(&e.value)),
        &|a: &AssetIndex| a.0.to_string(),
    )
}

pub fn coq_exchange_asset(a: &ExchangeAsset<Asset>, u: &Universe) -> String {
    format!("({}, {})", u.ex(&a.exchange), u.asset(&a.asset))
}

pub fn coq_indexed(x: &IndexedInstruments, u: &Universe) -> String {
    let exs: Vec<String> = x
        .exchanges()
        .iter()
        .map(|kv| format!("({}, {})", kv.key.0, u.ex(&kv.value)))
        .collect();
    let ass: Vec<String> = x
        .assets()
        .iter()
        .map(|kv| format!("({}, {})", kv.key.0, coq_exchange_asset(&kv.value, u)))
        .collect();
    let ins: Vec<String> = x
        .instruments()
        .iter()
        .map(|kv| format!("({}, {})", kv.key.0, coq_indexed_instr(&kv.value, u)))
        .collect();
    format!("(mkIndexed {} {} {})", list(&exs), list(&ass), list(&ins))
}

pub fn coq_opt_n(x: Option<usize>) -> String {
    opt(x.map(|v| v.to_string()))
}

// ---------------------------------------------------------------------------------------------
// JSON: instruments travel as their own serde representation
// ---------------------------------------------------------------------------------------------

pub fn defs_to_json(ds: &[Def]) -> Value {
    Value::Array(ds.iter().map(|d| serde_json::to_value(d).expect("serialize instrument")).collect())
}
pub fn defs_from_json(v: &Value) -> Option<Vec<Def>> {
    v.as_array()?
        .iter()
        .map(|x| serde_json::from_value::<Def>(x.clone()).ok())
        .collect()
}
pub fn exchanges_to_json(es: &[ExchangeId]) -> Value {
    Value::Array(es.iter().map(|e| serde_json::to_value(e).unwrap()).collect())
}
pub fn exchanges_from_json(v: &Value) -> Option<Vec<ExchangeId>> {
    v.as_array()?
        .iter()
        .map(|x| serde_json::from_value::<ExchangeId>(x.clone()).ok())
        .collect()
}

// ---------------------------------------------------------------------------------------------
// Generators
// ---------------------------------------------------------------------------------------------

/// How an exchange spells an asset.
#[derive(Clone, Copy, Debug, PartialEq)]
pub enum Spelling {
    Lower,
    Upper,
    /// upper-case with venue aliases: btc -> XBT, usd -> ZUSD, xbt -> XXBT
    Alias,
    /// like Alias but xbt -> XBT as well: two assets of the exchange share one exchange name
    AliasClash,
}

pub fn spell(s: Spelling, internal: &str) -> String {
    match s {
        Spelling::Lower => internal.to_string(),
        Spelling::Upper => internal.to_uppercase(),
        Spelling::Alias | Spelling::AliasClash => match internal {
            "btc" => "XBT".to_string(),
            "usd" => "ZUSD".to_string(),
            "xbt" if s == Spelling::Alias => "XXBT".to_string(),
            other => other.to_uppercase(),
        },
    }
}

#[derive(Clone, Copy, Debug, PartialEq)]
pub enum KindTag {
    Spot,
    Perpetual,
    Future,
    Option,
}
#[derive(Clone, Copy, Debug, PartialEq)]
pub enum UnitTag {
    NoSpec,
    Asset(usize),
    Contract,
    Quote,
}

/// One catalogue entry: fully determines an instrument definition.
#[derive(Clone, Debug)]
pub struct Blueprint {
    pub exchange: ExchangeId,
    pub spelling: Spelling,
    pub base: usize,
    pub quote: usize,
    pub kind: KindTag,
    pub settlement: usize,
    pub unit: UnitTag,
    /// variant of the numeric payload (contract size / expiry / strike / spec numbers)
    pub variant: u32,
    /// explicit names (adversarial collisions); None = derived from the fields above
    pub name_internal: Option<String>,
    pub name_exchange: Option<String>,
    /// spell the base asset differently from the exchange's spelling (adversarial: one internal
    /// asset name with two exchange names inside one exchange)
    pub base_spelling: Option<Spelling>,
}

/// plain spot blueprint
pub fn spot_bp(exchange: ExchangeId, spelling: Spelling, base: usize, quote: usize) -> Blueprint {
    Blueprint {
        exchange,
        spelling,
        base,
        quote,
        kind: KindTag::Spot,
        settlement: quote,
        unit: UnitTag::NoSpec,
        variant: 0,
        name_internal: None,
        name_exchange: None,
        base_spelling: None,
    }
}

fn asset_of(sp: Spelling, idx: usize) -> Asset {
    Asset::new(ASSETS[idx], spell(sp, ASSETS[idx]))
}

pub fn build_def(b: &Blueprint) -> Def {
    let base = asset_of(b.base_spelling.unwrap_or(b.spelling), b.base);
    let quote = asset_of(b.spelling, b.quote);
    let settle = asset_of(b.spelling, b.settlement);
    let (sm, ss) = CONTRACT_SIZES[(b.variant % 4) as usize];
    let size = Decimal::new(sm, ss);
    let expiry = Utc
        .timestamp_millis_opt(1_800_000_000_000 + 86_400_000 * (b.variant as i64 % 4))
        .unwrap();
    let (kind, suffix) = match b.kind {
        KindTag::Spot => (InstrumentKind::Spot, String::new()),
        KindTag::Perpetual => (
            InstrumentKind::Perpetual(PerpetualContract {
                contract_size: size,
                settlement_asset: settle,
            }),
            "-PERP".to_string(),
        ),
        KindTag::Future => (
            InstrumentKind::Future(FutureContract {
                contract_size: size,
                settlement_asset: settle,
                expiry,
            }),
            format!("-F{}", b.variant % 4),
        ),
        KindTag::Option => (
            InstrumentKind::Option(OptionContract {
                contract_size: size,
                settlement_asset: settle,
                kind: if b.variant % 2 == 0 { OptionKind::Call } else { OptionKind::Put },
                exercise: match b.variant % 3 {
                    0 => OptionExercise::American,
                    1 => OptionExercise::Bermudan,
                    _ => OptionExercise::European,
                },
                expiry,
                strike: Decimal::new(1000 * (1 + b.variant as i64 % 5), 0),
            }),
            format!("-O{}", b.variant % 30),
        ),
    };
    let spec = match b.unit {
        UnitTag::NoSpec => None,
        unit => Some(InstrumentSpec {
            price: InstrumentSpecPrice {
                min: Decimal::new(1, 2),
                tick_size: Decimal::new(1 + (b.variant % 2) as i64, 2),
            },
            quantity: InstrumentSpecQuantity {
                unit: match unit {
                    UnitTag::Asset(i) => OrderQuantityUnits::Asset(asset_of(b.spelling, i)),
                    UnitTag::Contract => OrderQuantityUnits::Contract,
                    _ => OrderQuantityUnits::Quote,
                },
                min: Decimal::new(1, 3),
                increment: Decimal::new(1, 3),
            },
            notional: InstrumentSpecNotional { min: Decimal::new(10, 0) },
        }),
    };
    let name_exchange = b.name_exchange.clone().unwrap_or_else(|| {
        format!(
            "{}{}{}",
            spell(b.spelling, ASSETS[b.base]),
            spell(b.spelling, ASSETS[b.quote]),
            suffix
        )
    });
    let name_internal = match &b.name_internal {
        Some(n) => InstrumentNameInternal::new(n.as_str()),
        None => InstrumentNameInternal::new_from_exchange(b.exchange, name_exchange.as_str()),
    };
    Instrument::new(
        b.exchange,
        name_internal,
        name_exchange.as_str(),
        Underlying::new(base, quote),
        if b.variant % 5 == 4 {
            InstrumentQuoteAsset::UnderlyingBase
        } else {
            InstrumentQuoteAsset::UnderlyingQuote
        },
        kind,
        spec,
    )
}

#[derive(Clone, Copy, Debug, Default)]
pub struct GenOpts {
    /// allow collections that violate the naming hypotheses
    pub adversarial: bool,
    pub max_exchanges: u64,
    pub max_catalogue: u64,
    pub max_len: u64,
    /// only spot instruments (MockExchange supports nothing else)
    pub spot_only: bool,
}

/// A catalogue of pairwise distinct definitions. In the well-formed mode distinct entries of one
/// exchange have distinct names (internal and exchange), every exchange has one spelling, and
/// instrument internal names are globally unique (they are prefixed by the exchange).
pub fn gen_catalogue(r: &mut Rng, o: &GenOpts) -> (Vec<Blueprint>, Vec<String>) {
    let mut tags: Vec<String> = vec![];
    let n_ex = 1 + r.below(o.max_exchanges.max(1)) as usize;
    let mut pool: Vec<usize> = (0..POOL.len()).collect();
    r.shuffle(&mut pool);
    let exs: Vec<(ExchangeId, Spelling)> = pool[..n_ex]
        .iter()
        .map(|i| {
            let sp = match r.below(if o.adversarial { 4 } else { 3 }) {
                0 => Spelling::Lower,
                1 => Spelling::Upper,
                2 => Spelling::Alias,
                _ => Spelling::AliasClash,
            };
            (POOL[*i], sp)
        })
        .collect();
    let n_cat = 1 + r.below(o.max_catalogue.max(1)) as usize;
    let mut cat: Vec<Blueprint> = vec![];
    let mut guard = 0;
    while cat.len() < n_cat && guard < 200 {
        guard += 1;
        // the first entries cover every chosen exchange, the rest are spread at random
        let (exchange, spelling) = if cat.len() < exs.len() && guard <= exs.len() { exs[cat.len()] } else { *r.pick(&exs) };
        let base = r.below(TRADED as u64) as usize;
        let mut quote = r.below(TRADED as u64) as usize;
        if quote == base {
            quote = (quote + 1) % TRADED;
        }
        let kind = if o.spot_only {
            KindTag::Spot
        } else {
            match r.below(20) {
                0..=9 => KindTag::Spot,
                10..=13 => KindTag::Perpetual,
                14..=16 => KindTag::Future,
                _ => KindTag::Option,
            }
        };
        // settlement = quote, = base, some traded asset, or a settlement-only asset (shared by
        // all exchanges: quanto style)
        let settlement = match r.below(5) {
            0 => quote,
            1 => base,
            2 => r.below(TRADED as u64) as usize,
            _ => TRADED + r.below((ASSETS.len() - TRADED) as u64) as usize,
        };
        let unit = match r.below(11) {
            0..=3 => UnitTag::NoSpec,
            4 => UnitTag::Asset(base),
            5 => UnitTag::Asset(quote),
            6 => UnitTag::Asset(r.below(ASSETS.len() as u64) as usize),
            10 => UnitTag::Asset(TRADED + r.below((ASSETS.len() - TRADED) as u64) as usize),
            7 | 8 => UnitTag::Contract,
            _ => UnitTag::Quote,
        };
        let variant = r.below(60) as u32;
        let mut b = Blueprint {
            exchange,
            spelling,
            base,
            quote,
            kind,
            settlement,
            unit,
            variant,
            name_internal: None,
            name_exchange: None,
            base_spelling: None,
        };
        if o.adversarial {
            match r.below(12) {
                0 => {
                    // the same internal name on every exchange
                    b.name_internal = Some(format!("{}_{}", ASSETS[base], ASSETS[quote]));
                    tags.push("adv_internal_name_shared_across_exchanges".into());
                }
                1 => {
                    if let Some(prev) = cat.iter().find(|p: &&Blueprint| p.exchange == exchange) {
                        // same names as an existing instrument of this exchange, other payload
                        let pd = build_def(prev);
                        b.name_internal = Some(pd.name_internal.name().to_string());
                        b.name_exchange = Some(pd.name_exchange.name().to_string());
                        tags.push("adv_same_names_same_exchange".into());
                    }
                }
                2 => {
                    if let Some(prev) = cat.iter().find(|p: &&Blueprint| p.exchange == exchange) {
                        // same exchange name, different internal name
                        let pd = build_def(prev);
                        b.name_exchange = Some(pd.name_exchange.name().to_string());
                        b.name_internal = Some(format!("other-{}", cat.len()));
                        tags.push("adv_exchange_name_shared_in_exchange".into());
                    }
                }
                3 => {
                    b.base_spelling = Some(match spelling {
                        Spelling::Lower => Spelling::Upper,
                        _ => Spelling::Lower,
                    });
                    tags.push("adv_asset_two_exchange_names".into());
                }
                _ => {}
            }
        }
        let d = build_def(&b);
        let clash = cat.iter().any(|p| {
            let pd = build_def(p);
            if pd == d {
                return true;
            }
            if o.adversarial {
                return false;
            }
            // well-formed: distinct instruments have distinct names
            pd.name_internal == d.name_internal
                || (pd.exchange == d.exchange && pd.name_exchange == d.name_exchange)
        });
        if !clash {
            cat.push(b);
        }
    }
    (cat, tags)
}

/// A multiset of definitions drawn from a catalogue, in random order, with duplicates.
pub fn gen_collection(r: &mut Rng, o: &GenOpts) -> (Vec<Def>, Vec<String>) {
    let (cat, tags) = gen_catalogue(r, o);
    let defs: Vec<Def> = cat.iter().map(build_def).collect();
    let len = r.below(o.max_len + 1) as usize;
    let mut out: Vec<Def> = vec![];
    // mostly: every catalogue entry at least once, then duplicates
    if r.chance(3, 4) {
        out.extend(defs.iter().cloned());
    }
    while out.len() < len {
        out.push(r.pick(&defs).clone());
    }
    r.shuffle(&mut out);
    let mut tags = tags;
    if !defs.is_empty() && r.chance(1, 5) {
        // the same definition three times, never adjacent: A x A y A ...
        let a = r.pick(&defs).clone();
        let mut others: Vec<Def> = out.iter().filter(|d| **d != a).cloned().collect();
        while others.len() < 2 {
            match defs.iter().find(|d| **d != a) {
                Some(d) => others.push(d.clone()),
                None => break,
            }
        }
        out = if others.len() >= 2 {
            let mut v = vec![a.clone(), others[0].clone(), a.clone(), others[1].clone(), a.clone()];
            v.extend(others[2..].iter().cloned());
            v
        } else {
            vec![a.clone(), a.clone(), a]
        };
        tags.push("triple_non_adjacent".into());
    }
    if o.adversarial && r.chance(1, 4) {
        // A, B, A where B shares (exchange, internal name) with A but differs elsewhere: the
        // duplicate is separated by a sibling that a coarser sort key cannot tell apart
        if let Some(bp) = cat.first() {
            let a = build_def(bp);
            let mut sib = bp.clone();
            sib.variant = bp.variant + 7;
            sib.unit = if bp.unit == UnitTag::Contract { UnitTag::Quote } else { UnitTag::Contract };
            sib.name_internal = Some(a.name_internal.name().to_string());
            sib.name_exchange = Some(a.name_exchange.name().to_string());
            let b = build_def(&sib);
            if a != b {
                let at = r.below(out.len() as u64 + 1) as usize;
                out.splice(at..at, [a.clone(), b, a]);
                tags.push("aba_same_key_sibling".into());
            }
        }
    }
    (out, tags)
}

pub fn collection_tags(ds: &[Def]) -> Vec<String> {
    let mut t = vec![];
    let mut exs: Vec<ExchangeId> = ds.iter().map(|d| d.exchange).collect();
    exs.sort();
    exs.dedup();
    t.push(format!("exchanges_{}", exs.len()));
    let mut distinct = ds.to_vec();
    distinct.sort();
    distinct.dedup();
    t.push(format!("distinct_defs_{}", distinct.len().min(9)));
    if distinct.len() < ds.len() {
        t.push("has_duplicates".into());
    }
    if ds.is_empty() {
        t.push("empty".into());
    }
    for d in &distinct {
        t.push(
            match d.kind {
                InstrumentKind::Spot => "kind_spot",
                InstrumentKind::Perpetual(_) => "kind_perpetual",
                InstrumentKind::Future(_) => "kind_future",
                InstrumentKind::Option(_) => "kind_option",
            }
            .into(),
        );
        t.push(
            match &d.spec {
                None => "spec_none",
                Some(s) => match s.quantity.unit {
                    OrderQuantityUnits::Asset(_) => "unit_asset",
                    OrderQuantityUnits::Contract => "unit_contract",
                    OrderQuantityUnits::Quote => "unit_quote",
                },
            }
            .into(),
        );
    }
    // an asset name shared between exchanges
    let mut seen: Vec<(ExchangeId, AssetNameInternal)> = vec![];
    for d in &distinct {
        for a in def_assets(d) {
            seen.push((d.exchange, a.name_internal.clone()));
        }
    }
    seen.sort();
    seen.dedup();
    if seen.iter().any(|(e, n)| seen.iter().any(|(e2, n2)| e2 != e && n2 == n)) {
        t.push("asset_name_shared_across_exchanges".into());
    }
    t.sort();
    t.dedup();
    t
}

/// stable sort by the derived Ord (the canonical insertion order used as order-independence
/// witness)
pub fn canonical_order(ds: &[Def]) -> Vec<Def> {
    let mut v = ds.to_vec();
    v.sort();
    v
}

pub fn build_catching(ds: Vec<Def>, via_builder: bool) -> Option<IndexedInstruments> {
    catch(move || {
        if via_builder {
            ds.into_iter()
                .fold(IndexedInstruments::builder(), |b, d| b.add_instrument(d))
                .build()
        } else {
            IndexedInstruments::new(ds)
        }
    })
    .ok()
}
