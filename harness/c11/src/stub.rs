//! A recording `ExecutionClient` per exchange of the pool (`EXCHANGE` is an associated constant,
//! hence the const generic).
use crate::{POOL, UNUSED};
use barter::{
    error::BarterError,
    execution::builder::ExecutionBuilder,
};
use barter_execution::{
    UnindexedAccountEvent, UnindexedAccountSnapshot,
    balance::AssetBalance,
    client::ExecutionClient,
    error::{UnindexedClientError, UnindexedOrderError},
    order::{
        Order, OrderKey,
        id::OrderId,
        request::{OrderRequestCancel, OrderRequestOpen, UnindexedOrderResponseCancel},
        state::{Cancelled, Open},
    },
    trade::Trade,
};
use barter_instrument::{
    asset::{QuoteAsset, name::AssetNameExchange},
    exchange::ExchangeId,
    instrument::name::InstrumentNameExchange,
};
use chrono::{DateTime, TimeZone, Utc};
use rust_decimal::Decimal;
use std::{
    future::Future,
    sync::{Arc, Mutex},
    time::Duration,
};

pub const ALL: [ExchangeId; 14] = [
    POOL[0], POOL[1], POOL[2], POOL[3], POOL[4], POOL[5], POOL[6], POOL[7], POOL[8], POOL[9],
    POOL[10], POOL[11], UNUSED[0], UNUSED[1],
];

#[derive(Debug, Clone, PartialEq)]
pub enum StubEvent {
    Snapshot {
        client: ExchangeId,
        assets: Vec<AssetNameExchange>,
        instruments: Vec<InstrumentNameExchange>,
    },
    Open {
        client: ExchangeId,
        exchange: ExchangeId,
        instrument: InstrumentNameExchange,
        cid: String,
    },
    Cancel {
        client: ExchangeId,
        exchange: ExchangeId,
        instrument: InstrumentNameExchange,
        cid: String,
    },
}

pub type Log = Arc<Mutex<Vec<StubEvent>>>;

#[derive(Debug, Clone)]
pub struct Stub<const K: usize> {
    pub log: Log,
}

pub fn t0() -> DateTime<Utc> {
    Utc.timestamp_millis_opt(1_700_000_000_000).unwrap()
}

impl<const K: usize> ExecutionClient for Stub<K> {
    const EXCHANGE: ExchangeId = ALL[K];
    type Config = Log;
    type AccountStream = futures::stream::Pending<UnindexedAccountEvent>;

    fn new(config: Self::Config) -> Self {
        Stub { log: config }
    }

    async fn account_snapshot(
        &self,
        assets: &[AssetNameExchange],
        instruments: &[InstrumentNameExchange],
    ) -> Result<UnindexedAccountSnapshot, UnindexedClientError> {
        self.log.lock().unwrap().push(StubEvent::Snapshot {
            client: Self::EXCHANGE,
            assets: assets.to_vec(),
            instruments: instruments.to_vec(),
        });
        Ok(UnindexedAccountSnapshot {
            exchange: Self::EXCHANGE,
            balances: vec![],
            instruments: vec![],
        })
    }

    async fn account_stream(
        &self,
        _: &[AssetNameExchange],
        _: &[InstrumentNameExchange],
    ) -> Result<Self::AccountStream, UnindexedClientError> {
        Ok(futures::stream::pending())
    }

    fn cancel_order(
        &self,
        request: OrderRequestCancel<ExchangeId, &InstrumentNameExchange>,
    ) -> impl Future<Output = UnindexedOrderResponseCancel> + Send {
        let key = OrderKey {
            exchange: request.key.exchange,
            instrument: request.key.instrument.clone(),
            strategy: request.key.strategy.clone(),
            cid: request.key.cid.clone(),
        };
        self.log.lock().unwrap().push(StubEvent::Cancel {
            client: Self::EXCHANGE,
            exchange: key.exchange,
            instrument: key.instrument.clone(),
            cid: key.cid.0.to_string(),
        });
        async move {
            UnindexedOrderResponseCancel {
                key,
                state: Ok(Cancelled {
                    id: OrderId::new("stub"),
                    time_exchange: t0(),
                }),
            }
        }
    }

    fn open_order(
        &self,
        request: OrderRequestOpen<ExchangeId, &InstrumentNameExchange>,
    ) -> impl Future<Output = Order<ExchangeId, InstrumentNameExchange, Result<Open, UnindexedOrderError>>>
    + Send {
        let key = OrderKey {
            exchange: request.key.exchange,
            instrument: request.key.instrument.clone(),
            strategy: request.key.strategy.clone(),
            cid: request.key.cid.clone(),
        };
        self.log.lock().unwrap().push(StubEvent::Open {
            client: Self::EXCHANGE,
            exchange: key.exchange,
            instrument: key.instrument.clone(),
            cid: key.cid.0.to_string(),
        });
        let st = request.state.clone();
        async move {
            Order {
                key,
                side: st.side,
                price: st.price,
                quantity: st.quantity,
                kind: st.kind,
                time_in_force: st.time_in_force,
                state: Ok(Open {
                    id: OrderId::new("stub"),
                    time_exchange: t0(),
                    filled_quantity: Decimal::ZERO,
                }),
            }
        }
    }

    async fn fetch_balances(&self) -> Result<Vec<AssetBalance<AssetNameExchange>>, UnindexedClientError> {
        Ok(vec![])
    }

    async fn fetch_open_orders(
        &self,
    ) -> Result<Vec<Order<ExchangeId, InstrumentNameExchange, Open>>, UnindexedClientError> {
        Ok(vec![])
    }

    async fn fetch_trades(
        &self,
        _: DateTime<Utc>,
    ) -> Result<Vec<Trade<QuoteAsset, InstrumentNameExchange>>, UnindexedClientError> {
        Ok(vec![])
    }
}

/// `ExecutionBuilder::add_live` with the stub client of exchange `e`.
pub fn add_stub<'a>(
    b: ExecutionBuilder<'a>,
    e: ExchangeId,
    log: Log,
) -> Result<ExecutionBuilder<'a>, BarterError> {
    let t = Duration::from_secs(5);
    match ALL.iter().position(|x| *x == e).expect("exchange has no stub client") {
        0 => b.add_live::<Stub<0>>(log, t),
        1 => b.add_live::<Stub<1>>(log, t),
        2 => b.add_live::<Stub<2>>(log, t),
        3 => b.add_live::<Stub<3>>(log, t),
        4 => b.add_live::<Stub<4>>(log, t),
        5 => b.add_live::<Stub<5>>(log, t),
        6 => b.add_live::<Stub<6>>(log, t),
        7 => b.add_live::<Stub<7>>(log, t),
        8 => b.add_live::<Stub<8>>(log, t),
        9 => b.add_live::<Stub<9>>(log, t),
        10 => b.add_live::<Stub<10>>(log, t),
        11 => b.add_live::<Stub<11>>(log, t),
        12 => b.add_live::<Stub<12>>(log, t),
        _ => b.add_live::<Stub<13>>(log, t),
    }
}
