fn main() { println!("warm"); }
