//! Shared plumbing for the per-property correspondence harness binaries.
//!
//! Every binary has two modes:
//!   gen  --seed S --tier quick|thorough --out FILE   generate inputs, run them on the real code
//!   exec --in FILE --out FILE                        run the given inputs (one JSON per line)
//! and writes one JSON object per case:
//!   {"id":N,"stream":"table|random|adversarial|corpus","input":<json>,"coq":"<term : case>",
//!    "nontrivial":bool,"tags":[...]}
//! `input` alone is enough to re-execute the case (`exec`), `coq` is the Gallina term holding
//! the input together with the outputs observed on the implementation.
use rust_decimal::Decimal;
use serde_json::{Value, json};
use std::io::{BufRead, Write};

/// splitmix64: every random choice of a harness derives from one of these.
#[derive(Clone, Debug)]
pub struct Rng(pub u64);

impl Rng {
    pub fn new(seed: u64) -> Self {
        Rng(seed ^ 0x9E37_79B9_7F4A_7C15)
    }
    pub fn next(&mut self) -> u64 {
        self.0 = self.0.wrapping_add(0x9E37_79B9_7F4A_7C15);
        let mut z = self.0;
        z = (z ^ (z >> 30)).wrapping_mul(0xBF58_476D_1CE4_E5B9);
        z = (z ^ (z >> 27)).wrapping_mul(0x94D0_49BB_1331_11EB);
        z ^ (z >> 31)
    }
    /// uniform in 0..n (n > 0)
    pub fn below(&mut self, n: u64) -> u64 {
        self.next() % n
    }
    pub fn range(&mut self, lo: i64, hi: i64) -> i64 {
        lo + (self.below((hi - lo + 1) as u64) as i64)
    }
    pub fn chance(&mut self, num: u64, den: u64) -> bool {
        self.below(den) < num
    }
    pub fn pick<'a, T>(&mut self, xs: &'a [T]) -> &'a T {
        &xs[self.below(xs.len() as u64) as usize]
    }
    pub fn shuffle<T>(&mut self, xs: &mut [T]) {
        for i in (1..xs.len()).rev() {
            let j = self.below(i as u64 + 1) as usize;
            xs.swap(i, j);
        }
    }
    pub fn fork(&mut self) -> Rng {
        Rng(self.next())
    }
}

pub struct Args {
    pub mode: String,
    pub seed: u64,
    pub tier: String,
    pub input: Option<String>,
    pub out: String,
}

pub fn parse_args() -> Args {
    let argv: Vec<String> = std::env::args().collect();
    let mut a = Args {
        mode: argv.get(1).cloned().unwrap_or_else(|| "gen".into()),
        seed: 1,
        tier: "quick".into(),
        input: None,
        out: "/dev/stdout".into(),
    };
    let mut i = 2;
    while i < argv.len() {
        match argv[i].as_str() {
            "--seed" => {
                a.seed = argv[i + 1].parse().expect("seed");
                i += 1
            }
            "--tier" => {
                a.tier = argv[i + 1].clone();
                i += 1
            }
            "--in" => {
                a.input = Some(argv[i + 1].clone());
                i += 1
            }
            "--out" => {
                a.out = argv[i + 1].clone();
                i += 1
            }
            other => panic!("unknown argument {other}"),
        }
        i += 1;
    }
    a
}

/// Collects cases and writes them as JSON lines.
pub struct Emitter {
    w: std::io::BufWriter<std::fs::File>,
    next_id: u64,
}

pub struct Case {
    pub stream: &'static str,
    pub input: Value,
    pub coq: String,
    pub nontrivial: bool,
    pub tags: Vec<String>,
}

impl Emitter {
    pub fn create(path: &str) -> Self {
        let f = std::fs::File::create(path).expect("create out file");
        Emitter {
            w: std::io::BufWriter::new(f),
            next_id: 0,
        }
    }
    pub fn emit(&mut self, c: Case) {
        let v = json!({
            "id": self.next_id,
            "stream": c.stream,
            "input": c.input,
            "coq": c.coq,
            "nontrivial": c.nontrivial,
            "tags": c.tags,
        });
        self.next_id += 1;
        writeln!(self.w, "{}", v).expect("write case");
    }
    pub fn count(&self) -> u64 {
        self.next_id
    }
    pub fn finish(mut self) {
        self.w.flush().expect("flush");
    }
}

/// Read `exec` inputs: one JSON value per line; either a bare input or an object with "input".
pub fn read_inputs(path: &str) -> Vec<(Value, String)> {
    let f = std::fs::File::open(path).expect("open input file");
    let mut v = vec![];
    for line in std::io::BufReader::new(f).lines() {
        let line = line.expect("read line");
        if line.trim().is_empty() {
            continue;
        }
        let j: Value = serde_json::from_str(&line).expect("json");
        if let Some(inp) = j.get("input") {
            let stream = j
                .get("stream")
                .and_then(|s| s.as_str())
                .unwrap_or("corpus")
                .to_string();
            v.push((inp.clone(), stream));
        } else {
            v.push((j, "corpus".to_string()));
        }
    }
    v
}

pub fn stream_static(s: &str) -> &'static str {
    match s {
        "table" => "table",
        "random" => "random",
        "adversarial" => "adversarial",
        _ => "corpus",
    }
}

// ---------------------------------------------------------------------------------------------
// Coq term printers
// ---------------------------------------------------------------------------------------------

/// `(m)%Z` literal
pub fn z(i: i128) -> String {
    format!("({})%Z", i)
}
pub fn n(i: u128) -> String {
    format!("{}%N", i)
}
pub fn b(x: bool) -> String {
    if x { "true".into() } else { "false".into() }
}
pub fn list(xs: &[String]) -> String {
    format!("[{}]", xs.join("; "))
}
pub fn opt(x: Option<String>) -> String {
    match x {
        Some(s) => format!("(Some {})", s),
        None => "None".into(),
    }
}
pub fn pair(a: &str, b: &str) -> String {
    format!("({}, {})", a, b)
}
/// Coq string literal (ASCII only; `"` doubled).
pub fn s(x: &str) -> String {
    assert!(x.is_ascii(), "non-ascii string in case");
    format!("\"{}\"%string", x.replace('"', "\"\""))
}

/// Decimal as an exact integer at scale 10^-`scale`; panics if that would lose digits.
pub fn dec_scaled(d: Decimal, scale: u32) -> i128 {
    let d = d.normalize();
    let ds = d.scale();
    assert!(ds <= scale, "decimal {d} has more than {scale} fractional digits");
    d.mantissa() * 10i128.pow(scale - ds)
}
pub fn dec_z(d: Decimal, scale: u32) -> String {
    z(dec_scaled(d, scale))
}
/// Decimal as an exact rational `(dq m s)` : Q  (= m / 10^s), defined in Base/Common.v
pub fn dec_q(d: Decimal) -> String {
    format!("(dq ({})%Z {}%N)", d.mantissa(), d.scale())
}
/// Build a Decimal from an integer mantissa at the given scale.
pub fn mk_dec(m: i64, scale: u32) -> Decimal {
    Decimal::new(m, scale)
}
pub fn dec_json(d: Decimal) -> Value {
    Value::String(d.to_string())
}
pub fn json_dec(v: &Value) -> Decimal {
    match v {
        Value::String(s) => s.parse().expect("decimal string"),
        Value::Number(n) => n.to_string().parse().expect("decimal number"),
        _ => panic!("not a decimal: {v}"),
    }
}

/// Run a closure, mapping a panic to Err(message).
pub fn catch<T>(f: impl FnOnce() -> T + std::panic::UnwindSafe) -> Result<T, String> {
    std::panic::catch_unwind(f).map_err(|e| {
        if let Some(s) = e.downcast_ref::<&str>() {
            s.to_string()
        } else if let Some(s) = e.downcast_ref::<String>() {
            s.clone()
        } else {
            "panic".to_string()
        }
    })
}

pub fn quiet_panics() {
    std::panic::set_hook(Box::new(|_| {}));
}
