// GENERATED COPY of harness/c01/src/main.rs lines 6-660 (from the first `use` to just before
// `fn run_input`: JSON order language, time scales, conversions to the real types, Coq printers,
// engine builder / order-op application). Regenerate after changing that part of c01. Included
// textually by main.rs.
use barter::engine::state::{
    EngineState,
    global::DefaultGlobalData,
    instrument::data::DefaultInstrumentMarketData,
    order::{Orders, in_flight_recorder::InFlightRequestRecorder, manager::OrderManager},
};
use barter_execution::{
    AccountEvent, AccountEventKind, AccountSnapshot, InstrumentAccountSnapshot,
    error::{ApiError, ConnectivityError, OrderError},
    order::{
        Order, OrderKey, OrderKind, TimeInForce,
        id::{ClientOrderId, OrderId, StrategyId},
        request::{
            OrderRequestCancel, OrderRequestOpen, OrderResponseCancel, RequestCancel, RequestOpen,
        },
        state::{
            ActiveOrderState, CancelInFlight, Cancelled, InactiveOrderState, Open, OpenInFlight,
            OrderState,
        },
    },
};
use barter_instrument::{
    Side, Underlying,
    asset::AssetIndex,
    exchange::{ExchangeId, ExchangeIndex},
    index::IndexedInstruments,
    instrument::{Instrument, InstrumentIndex},
};
use barter_integration::snapshot::Snapshot;
use chrono::{DateTime, TimeZone, Utc};
use fnv::FnvHashMap;
use rust_decimal::Decimal;
use serde::{Deserialize, Serialize};
use std::panic::AssertUnwindSafe;
use vh_common::*;

const SCALE: u32 = 8;
type ActiveOrder = Order<ExchangeIndex, InstrumentIndex, ActiveOrderState>;
type SnapOrder = Order<ExchangeIndex, InstrumentIndex, OrderState<AssetIndex, InstrumentIndex>>;
type Engine = EngineState<DefaultGlobalData, DefaultInstrumentMarketData>;

// ---------------------------------------------------------------------------------------------
// JSON input language (enough to re-execute a case)
// ---------------------------------------------------------------------------------------------

#[derive(Serialize, Deserialize, Clone, Debug, PartialEq)]
struct KeyJ {
    e: usize,
    i: usize,
    s: u32,
    c: u32,
}
#[derive(Serialize, Deserialize, Clone, Debug, PartialEq)]
struct MetaJ {
    oid: u32,
    t: i64,
    f: String,
}
#[derive(Serialize, Deserialize, Clone, Debug, PartialEq)]
#[serde(tag = "st")]
enum StJ {
    Req,
    OIF,
    Open { m: MetaJ },
    CIF { m: Option<MetaJ> },
    Cancelled { oid: u32, t: i64 },
    FullyFilled,
    OpenFailed { err: u8 },
    Expired,
}
#[derive(Serialize, Deserialize, Clone, Debug, PartialEq)]
struct OrdJ {
    key: KeyJ,
    side: String,
    price: String,
    qty: String,
    kind: String,
    tif: String,
    st: StJ,
}
#[derive(Serialize, Deserialize, Clone, Debug, PartialEq)]
#[serde(tag = "k")]
enum OpJ {
    RecOpen { o: OrdJ },
    RecCancel { key: KeyJ, oid: Option<u32> },
    Snap { o: OrdJ },
    CancelResp { key: KeyJ, ok: bool, oid: u32, t: i64, err: u8 },
    /// persist / restore: serialise the state to JSON, deserialise it, continue on the result
    Persist {},
}
#[derive(Serialize, Deserialize, Clone, Debug, PartialEq)]
struct ISnapJ {
    inst: usize,
    orders: Vec<OrdJ>,
}
#[derive(Serialize, Deserialize, Clone, Debug, PartialEq)]
#[serde(tag = "k")]
enum EopJ {
    Ord { op: OpJ },
    Acct { insts: Vec<ISnapJ> },
}
#[derive(Serialize, Deserialize, Clone, Debug, PartialEq)]
#[serde(tag = "case")]
enum InputJ {
    Orders { init: Vec<OrdJ>, ops: Vec<OpJ> },
    Engine { ninst: usize, xs: Vec<EopJ> },
}

// ---------------------------------------------------------------------------------------------
// JSON -> real types
// ---------------------------------------------------------------------------------------------

/// exchange times travel as integer NANOSECONDS since the Unix epoch (chrono's own resolution)
fn time(ns: i64) -> DateTime<Utc> {
    DateTime::from_timestamp_nanos(ns)
}
fn nanos(t: &DateTime<Utc>) -> i64 {
    t.timestamp_nanos_opt().expect("time within the i64 nanosecond range")
}

const MS: i64 = 1_000_000;
const Y2023: i64 = 1_700_000_000_000_000_000;

/// Generators think in small abstract ticks; a case is then mapped to real times
/// `base + tick * unit` (order preserving). The palette covers ticks 1 ns apart (from the epoch,
/// in 2023, far in the future), ticks straddling a millisecond boundary (...999_999 ns vs
/// ...000_000 ns of the next ms), microseconds, just under a millisecond, milliseconds,
/// seconds, and the far past.
fn time_palette(r: &mut Rng) -> (i64, i64) {
    match r.below(12) {
        0 => (0, 1),
        1 => (Y2023 + 123 * MS - 2, 1),
        2 => (Y2023 + 123 * MS - 15, 1),
        3 => (Y2023 + 77 * MS - 40, 7),
        4 => (Y2023, 1_000),
        5 => (Y2023 + 5, 999_999),
        6 => (Y2023, MS),
        7 => (Y2023, 1_000 * MS),
        8 => (31_536_000 * 1_000_000_000, 333),
        9 => (7_258_118_400 * 1_000_000_000, 1),
        10 => (Y2023 + 999_000, 250),
        _ => (Y2023, MS),
    }
}
/// the scales every table case is run at: sub-millisecond apart, across a millisecond boundary,
/// a millisecond apart
const TABLE_SCALES: [(i64, i64); 3] = [(0, 1), (Y2023 + 123 * MS - 2, 1), (Y2023, MS)];

/// map every exchange time ("t", "lut") of a JSON input to `base + t * unit`
fn rescale_json(v: &mut serde_json::Value, base: i64, unit: i64) {
    match v {
        serde_json::Value::Object(m) => {
            for (k, x) in m.iter_mut() {
                if (k == "t" || k == "lut") && x.is_i64() {
                    *x = serde_json::Value::from(base + x.as_i64().unwrap() * unit);
                } else {
                    rescale_json(x, base, unit);
                }
            }
        }
        serde_json::Value::Array(a) => {
            for x in a.iter_mut() {
                rescale_json(x, base, unit);
            }
        }
        _ => {}
    }
}
fn rescaled<T: Serialize + serde::de::DeserializeOwned>(input: &T, scale: (i64, i64)) -> T {
    let mut v = serde_json::to_value(input).unwrap();
    rescale_json(&mut v, scale.0, scale.1);
    serde_json::from_value(v).unwrap()
}
fn dec(s: &str) -> Decimal {
    s.parse().expect("decimal")
}
fn cid(c: u32) -> ClientOrderId {
    ClientOrderId::new(format!("c{c}"))
}
fn oid(o: u32) -> OrderId {
    OrderId::new(format!("o{o}"))
}
fn real_key(k: &KeyJ) -> OrderKey<ExchangeIndex, InstrumentIndex> {
    OrderKey {
        exchange: ExchangeIndex(k.e),
        instrument: InstrumentIndex(k.i),
        strategy: StrategyId::new(format!("s{}", k.s)),
        cid: cid(k.c),
    }
}
fn real_side(s: &str) -> Side {
    if s == "B" { Side::Buy } else { Side::Sell }
}
fn real_kind(s: &str) -> OrderKind {
    if s == "M" { OrderKind::Market } else { OrderKind::Limit }
}
fn real_tif(s: &str) -> TimeInForce {
    match s {
        "GTCp" => TimeInForce::GoodUntilCancelled { post_only: true },
        "GTC" => TimeInForce::GoodUntilCancelled { post_only: false },
        "GTD" => TimeInForce::GoodUntilEndOfDay,
        "FOK" => TimeInForce::FillOrKill,
        _ => TimeInForce::ImmediateOrCancel,
    }
}
fn real_open(m: &MetaJ) -> Open {
    Open {
        id: oid(m.oid),
        time_exchange: time(m.t),
        filled_quantity: dec(&m.f),
    }
}
fn real_err(e: u8) -> OrderError<AssetIndex, InstrumentIndex> {
    match e % 6 {
        0 => OrderError::Connectivity(ConnectivityError::Timeout),
        1 => OrderError::Rejected(ApiError::RateLimit),
        2 => OrderError::Rejected(ApiError::OrderAlreadyCancelled),
        3 => OrderError::Connectivity(ConnectivityError::ExchangeOffline(ExchangeId::BinanceSpot)),
        4 => OrderError::Rejected(ApiError::OrderAlreadyFullyFilled),
        _ => OrderError::Rejected(ApiError::BalanceInsufficient(AssetIndex(0), "x".into())),
    }
}
fn real_active(st: &StJ) -> Option<ActiveOrderState> {
    Some(match st {
        StJ::OIF | StJ::Req => ActiveOrderState::OpenInFlight(OpenInFlight),
        StJ::Open { m } => ActiveOrderState::Open(real_open(m)),
        StJ::CIF { m } => ActiveOrderState::CancelInFlight(CancelInFlight {
            order: m.as_ref().map(real_open),
        }),
        _ => return None,
    })
}
fn real_state(st: &StJ) -> OrderState<AssetIndex, InstrumentIndex> {
    match st {
        StJ::Cancelled { oid: o, t } => OrderState::Inactive(InactiveOrderState::Cancelled(
            Cancelled {
                id: oid(*o),
                time_exchange: time(*t),
            },
        )),
        StJ::FullyFilled => OrderState::fully_filled(),
        StJ::Expired => OrderState::expired(),
        StJ::OpenFailed { err } => {
            OrderState::Inactive(InactiveOrderState::OpenFailed(real_err(*err)))
        }
        other => OrderState::Active(real_active(other).unwrap()),
    }
}
fn real_snap(o: &OrdJ) -> SnapOrder {
    Order {
        key: real_key(&o.key),
        side: real_side(&o.side),
        price: dec(&o.price),
        quantity: dec(&o.qty),
        kind: real_kind(&o.kind),
        time_in_force: real_tif(&o.tif),
        state: real_state(&o.st),
    }
}
fn real_tracked(o: &OrdJ) -> ActiveOrder {
    Order {
        key: real_key(&o.key),
        side: real_side(&o.side),
        price: dec(&o.price),
        quantity: dec(&o.qty),
        kind: real_kind(&o.kind),
        time_in_force: real_tif(&o.tif),
        state: real_active(&o.st).expect("init entries carry active states"),
    }
}
fn real_request(o: &OrdJ) -> OrderRequestOpen<ExchangeIndex, InstrumentIndex> {
    OrderRequestOpen {
        key: real_key(&o.key),
        state: RequestOpen {
            side: real_side(&o.side),
            price: dec(&o.price),
            quantity: dec(&o.qty),
            kind: real_kind(&o.kind),
            time_in_force: real_tif(&o.tif),
        },
    }
}
fn real_cancel(key: &KeyJ, o: Option<u32>) -> OrderRequestCancel<ExchangeIndex, InstrumentIndex> {
    OrderRequestCancel {
        key: real_key(key),
        state: RequestCancel { id: o.map(oid) },
    }
}
fn real_response(
    key: &KeyJ,
    ok: bool,
    o: u32,
    t: i64,
    err: u8,
) -> OrderResponseCancel<ExchangeIndex, AssetIndex, InstrumentIndex> {
    OrderResponseCancel {
        key: real_key(key),
        state: if ok {
            Ok(Cancelled {
                id: oid(o),
                time_exchange: time(t),
            })
        } else {
            Err(real_err(err))
        },
    }
}

// ---------------------------------------------------------------------------------------------
// Coq printers
// ---------------------------------------------------------------------------------------------

fn zz(i: i128) -> String {
    if i < 0 { format!("({i})") } else { i.to_string() }
}
fn dz(d: Decimal) -> String {
    zz(dec_scaled(d, SCALE))
}
fn id_num(s: &str) -> i128 {
    s[1..].parse::<i128>().expect("numeric id")
}
fn coq_key_real(k: &OrderKey<ExchangeIndex, InstrumentIndex>) -> String {
    format!(
        "(mkK {} {} {} {})",
        k.exchange.0,
        k.instrument.0,
        id_num(k.strategy.0.as_str()),
        id_num(k.cid.0.as_str())
    )
}
fn coq_side(s: Side) -> &'static str {
    match s {
        Side::Buy => "Buy",
        Side::Sell => "Sell",
    }
}
fn coq_kind(k: OrderKind) -> &'static str {
    match k {
        OrderKind::Market => "Market",
        OrderKind::Limit => "Limit",
    }
}
fn coq_tif(t: TimeInForce) -> &'static str {
    match t {
        TimeInForce::GoodUntilCancelled { post_only: true } => "(GTC true)",
        TimeInForce::GoodUntilCancelled { post_only: false } => "(GTC false)",
        TimeInForce::GoodUntilEndOfDay => "GTD",
        TimeInForce::FillOrKill => "FOK",
        TimeInForce::ImmediateOrCancel => "IOC",
    }
}
fn coq_open(m: &Open) -> String {
    format!(
        "(mkM {} {} {})",
        id_num(m.id.0.as_str()),
        zz(nanos(&m.time_exchange) as i128),
        dz(m.filled_quantity)
    )
}
fn coq_active(a: &ActiveOrderState) -> String {
    match a {
        ActiveOrderState::OpenInFlight(_) => "OIF".into(),
        ActiveOrderState::Open(m) => format!("(Open {})", coq_open(m)),
        ActiveOrderState::CancelInFlight(c) => match &c.order {
            Some(m) => format!("(CIF (Some {}))", coq_open(m)),
            None => "(CIF None)".into(),
        },
    }
}
fn coq_state(s: &OrderState<AssetIndex, InstrumentIndex>) -> String {
    match s {
        OrderState::Active(a) => format!("(SA {})", coq_active(a)),
        OrderState::Inactive(InactiveOrderState::Cancelled(c)) => format!(
            "(SI (Cancelled {} {}))",
            id_num(c.id.0.as_str()),
            zz(nanos(&c.time_exchange) as i128)
        ),
        OrderState::Inactive(InactiveOrderState::FullyFilled) => "(SI FullyFilled)".into(),
        OrderState::Inactive(InactiveOrderState::OpenFailed(_)) => "(SI OpenFailed)".into(),
        OrderState::Inactive(InactiveOrderState::Expired) => "(SI Expired)".into(),
    }
}
fn coq_ord<S>(o: &Order<ExchangeIndex, InstrumentIndex, S>, state: &str) -> String {
    format!(
        "(mkO {} {} {} {} {} {} {})",
        coq_key_real(&o.key),
        coq_side(o.side),
        dz(o.price),
        dz(o.quantity),
        coq_kind(o.kind),
        coq_tif(o.time_in_force),
        state
    )
}
fn coq_tracked(o: &ActiveOrder) -> String {
    coq_ord(o, &coq_active(&o.state))
}
fn coq_snap(o: &SnapOrder) -> String {
    coq_ord(o, &coq_state(&o.state))
}
fn coq_entries(m: &FnvHashMap<ClientOrderId, ActiveOrder>) -> String {
    let mut v: Vec<(i128, String)> = m
        .iter()
        .map(|(k, o)| {
            let n = id_num(k.0.as_str());
            (n, format!("E {} {}", zz(n), coq_tracked(o)))
        })
        .collect();
    v.sort();
    list(&v.into_iter().map(|(_, s)| s).collect::<Vec<_>>())
}
fn coq_op(op: &OpJ) -> String {
    match op {
        OpJ::RecOpen { o } => {
            let r = real_tracked(&OrdJ {
                st: StJ::OIF,
                ..o.clone()
            });
            format!("RecOpen {}", coq_ord(&r, "tt"))
        }
        OpJ::RecCancel { key, .. } => format!("RecCancel {}", coq_key_real(&real_key(key))),
        OpJ::Snap { o } => format!("Snap {}", coq_snap(&real_snap(o))),
        OpJ::CancelResp { key, ok, .. } => {
            format!("CancelResp {} {}", coq_key_real(&real_key(key)), b(*ok))
        }
        OpJ::Persist {} => unreachable!("persist steps are printed by the run loop"),
    }
}
fn coq_eop(x: &EopJ) -> String {
    match x {
        EopJ::Ord { op } => format!("EOrd ({})", coq_op(op)),
        EopJ::Acct { insts } => format!(
            "EAcctSnapshot {}",
            list(
                &insts
                    .iter()
                    .map(|i| format!(
                        "IS {} {}",
                        i.inst,
                        list(
                            &i.orders
                                .iter()
                                .map(|o| coq_snap(&real_snap(o)))
                                .collect::<Vec<_>>()
                        )
                    ))
                    .collect::<Vec<_>>()
            )
        ),
    }
}

// ---------------------------------------------------------------------------------------------
// Branch tags
// ---------------------------------------------------------------------------------------------

fn pre_class(cur: Option<&ActiveOrder>) -> &'static str {
    match cur.map(|o| &o.state) {
        None => "absent",
        Some(ActiveOrderState::OpenInFlight(_)) => "OIF",
        Some(ActiveOrderState::Open(_)) => "Open",
        Some(ActiveOrderState::CancelInFlight(c)) => {
            if c.order.is_some() { "CIFs" } else { "CIFn" }
        }
    }
}
fn cmp_class(cur: Option<&ActiveOrder>, t: i64) -> &'static str {
    match cur.and_then(|o| o.state.open_meta()) {
        None => "na",
        Some(m) => {
            let h = nanos(&m.time_exchange);
            if t < h {
                "older"
            } else if t == h {
                "tie"
            } else {
                "newer"
            }
        }
    }
}
fn op_tag(cur: Option<&ActiveOrder>, op: &OpJ) -> String {
    let o = match op {
        OpJ::Persist {} => return "persist".to_string(),
        OpJ::RecOpen { .. } => "recOpen".to_string(),
        OpJ::RecCancel { .. } => "recCancel".to_string(),
        OpJ::CancelResp { ok, .. } => if *ok { "respOk" } else { "respErr" }.to_string(),
        OpJ::Snap { o } => match &o.st {
            StJ::Req | StJ::OIF => "snapOIF".to_string(),
            StJ::Open { m } => format!(
                "snapOpen.{}.{}",
                cmp_class(cur, m.t),
                {
                    let rem = dec(&o.qty) - dec(&m.f);
                    if rem.is_zero() {
                        "full"
                    } else if rem.is_sign_negative() {
                        "over"
                    } else {
                        "left"
                    }
                }
            ),
            StJ::CIF { m: None } => "snapCIFn".to_string(),
            StJ::CIF { m: Some(m) } => format!("snapCIFs.{}", cmp_class(cur, m.t)),
            StJ::Cancelled { .. } => "snapCancelled".to_string(),
            StJ::FullyFilled => "snapFilled".to_string(),
            StJ::OpenFailed { .. } => "snapFailed".to_string(),
            StJ::Expired => "snapExpired".to_string(),
        },
    };
    format!("{}>{}", pre_class(cur), o)
}
const NOKEY: KeyJ = KeyJ {
    e: 0,
    i: 0,
    s: 0,
    c: 0,
};
fn op_key(op: &OpJ) -> &KeyJ {
    match op {
        OpJ::RecOpen { o } | OpJ::Snap { o } => &o.key,
        OpJ::RecCancel { key, .. } | OpJ::CancelResp { key, .. } => key,
        OpJ::Persist {} => &NOKEY,
    }
}

// ---------------------------------------------------------------------------------------------
// Driving the real code
// ---------------------------------------------------------------------------------------------

/// serde_json round trip of a value; returns whether the restored value equals the original
/// (it must on the unchanged code) and continues on the restored value
fn roundtrip<T: Serialize + serde::de::DeserializeOwned + PartialEq>(x: &mut T) -> bool {
    let js = serde_json::to_string(&*x).expect("state serialises");
    let back: T = serde_json::from_str(&js).expect("state deserialises");
    let same = back == *x;
    *x = back;
    same
}
fn persist_engine_orders(state: &mut Engine) -> bool {
    let mut same = true;
    for inst in state.instruments.0.values_mut() {
        same &= roundtrip(&mut inst.orders);
    }
    same
}

fn apply_orders(orders: &mut Orders<ExchangeIndex, InstrumentIndex>, op: &OpJ) {
    match op {
        OpJ::Persist {} => {
            roundtrip(orders);
        }
        OpJ::RecOpen { o } => orders.record_in_flight_open(&real_request(o)),
        OpJ::RecCancel { key, oid } => orders.record_in_flight_cancel(&real_cancel(key, *oid)),
        OpJ::Snap { o } => {
            let snap = real_snap(o);
            orders.update_from_order_snapshot(Snapshot(&snap))
        }
        OpJ::CancelResp {
            key,
            ok,
            oid,
            t,
            err,
        } => orders.update_from_cancel_response(&real_response(key, *ok, *oid, *t, *err)),
    }
}

fn build_engine(ninst: usize) -> Engine {
    let mut b = IndexedInstruments::builder();
    for i in 0..ninst {
        // names chosen so that the sorted (= indexed) order is the creation order
        b = b.add_instrument(Instrument::spot(
            ExchangeId::BinanceSpot,
            format!("binance_spot_a{i}_usdt"),
            format!("A{i}USDT"),
            Underlying::new(format!("a{i}"), "usdt".to_string()),
            None,
        ));
    }
    let instruments = b.build();
    EngineState::builder(
        &instruments,
        DefaultGlobalData::default(),
        DefaultInstrumentMarketData::default,
    )
    .time_engine_start(time(0))
    .build()
}

fn apply_engine(state: &mut Engine, x: &EopJ) {
    match x {
        EopJ::Ord { op } => match op {
            OpJ::Persist {} => {
                persist_engine_orders(state);
            }
            OpJ::RecOpen { o } => state.record_in_flight_open(&real_request(o)),
            OpJ::RecCancel { key, oid } => state.record_in_flight_cancel(&real_cancel(key, *oid)),
            OpJ::Snap { o } => {
                state.update_from_account(&AccountEvent {
                    exchange: ExchangeIndex(0),
                    kind: AccountEventKind::OrderSnapshot(Snapshot(real_snap(o))),
                });
            }
            OpJ::CancelResp {
                key,
                ok,
                oid,
                t,
                err,
            } => {
                state.update_from_account(&AccountEvent {
                    exchange: ExchangeIndex(0),
                    kind: AccountEventKind::OrderCancelled(real_response(
                        key, *ok, *oid, *t, *err,
                    )),
                });
            }
        },
        EopJ::Acct { insts } => {
            state.update_from_account(&AccountEvent {
                exchange: ExchangeIndex(0),
                kind: AccountEventKind::Snapshot(AccountSnapshot {
                    exchange: ExchangeIndex(0),
                    balances: vec![],
                    instruments: insts
                        .iter()
                        .map(|i| InstrumentAccountSnapshot {
                            instrument: InstrumentIndex(i.inst),
                            orders: i.orders.iter().map(real_snap).collect(),
                        })
                        .collect(),
                }),
            });
        }
    }
}

fn engine_orders(state: &Engine, i: usize) -> &Orders<ExchangeIndex, InstrumentIndex> {
    &state.instruments.instrument_index(&InstrumentIndex(i)).orders
}

struct Ran {
    coq: String,
    nontrivial: bool,
    tags: Vec<String>,
}

fn uniq(mut tags: Vec<String>) -> Vec<String> {
    tags.sort();
    tags.dedup();
    tags
}

