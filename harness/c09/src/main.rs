//! C09 correspondence harness: delivers timestamped balance snapshots, full account snapshots,
//! order reports and market events (public trades, L1 books, other kinds) to a real
//! `EngineState` through `update_from_account` / `update_from_market` in every order (all
//! permutations of small message sets, with repetitions, equal timestamps included) and prints
//! the events + the balances / market data / order maps observed after every event as Coq terms
//! of type `case` (Corr/C09.v).
#![allow(dead_code, unused_imports)]
include!("shared_orders.rs");

use barter_data::{
    books::Level,
    event::{DataKind, MarketEvent},
    subscription::{book::OrderBookL1, liquidation::Liquidation, trade::PublicTrade},
};
use barter_execution::balance::{AssetBalance, Balance};
use rust_decimal::prelude::FromPrimitive;

// ---------------------------------------------------------------------------------------------
// JSON input language
// ---------------------------------------------------------------------------------------------

#[derive(Serialize, Deserialize, Clone, Debug, PartialEq)]
struct BalJ {
    a: usize,
    t: i64,
    total: String,
    free: String,
}
#[derive(Serialize, Deserialize, Clone, Debug, PartialEq)]
struct LvlJ {
    p: String,
    a: String,
}
#[derive(Serialize, Deserialize, Clone, Debug, PartialEq)]
#[serde(tag = "k")]
enum EvJ {
    Bal {
        b: BalJ,
    },
    Acct {
        bals: Vec<BalJ>,
        insts: Vec<ISnapJ>,
    },
    Ord {
        op: OpJ,
    },
    /// `p` = None is a NaN price
    Trade {
        i: usize,
        t: i64,
        p: Option<String>,
    },
    L1 {
        i: usize,
        t: i64,
        lut: i64,
        bid: Option<LvlJ>,
        ask: Option<LvlJ>,
    },
    Other {
        i: usize,
        t: i64,
    },
}
#[derive(Serialize, Deserialize, Clone, Debug, PartialEq)]
struct Input9 {
    ninst: usize,
    xs: Vec<EvJ>,
}

// ---------------------------------------------------------------------------------------------
// Driving the real code
// ---------------------------------------------------------------------------------------------

fn real_balance(b: &BalJ) -> AssetBalance<AssetIndex> {
    AssetBalance {
        asset: AssetIndex(b.a),
        balance: Balance {
            total: dec(&b.total),
            free: dec(&b.free),
        },
        time_exchange: time(b.t),
    }
}
fn real_level(l: &LvlJ) -> Level {
    Level::new(dec(&l.p), dec(&l.a))
}
/// the f64 a connector would have parsed, and the Decimal the engine derives from it
fn trade_price(p: &Option<String>) -> (f64, Option<Decimal>) {
    match p {
        None => (f64::NAN, None),
        Some(s) => {
            let f: f64 = s.parse().expect("f64 price");
            let d = Decimal::from_f64(f);
            // generated prices are dyadic (k/4): the conversion is exact
            assert_eq!(d.map(|d| d.normalize()), Some(dec(s).normalize()), "inexact f64 price");
            (f, d)
        }
    }
}
/// local receive time of a market event: later than the exchange time by 0 ns .. 2 s, or earlier
/// (clock skew); a deterministic function of the event so that a case replays from its input.
/// The engine state must not depend on it (the model ignores it).
fn received_offset(i: usize, t: i64) -> i64 {
    const OFFS: [i64; 8] = [
        0,
        1,
        1_000,
        250_000,
        1_500_000_000,
        2_000_000_000,
        -500_000_000,
        -3,
    ];
    let mut z = (t as u64 ^ ((i as u64) << 56)).wrapping_mul(0x9E37_79B9_7F4A_7C15);
    z ^= z >> 29;
    OFFS[(z % 8) as usize]
}
fn market(i: usize, t: i64, kind: DataKind) -> MarketEvent<InstrumentIndex, DataKind> {
    MarketEvent {
        time_exchange: time(t),
        time_received: time(t + received_offset(i, t)),
        exchange: ExchangeId::BinanceSpot,
        instrument: InstrumentIndex(i),
        kind,
    }
}

/// persist / restore of everything the property covers: every AssetState, every instrument's
/// market data and Orders go through a serde_json round trip and the engine continues on the
/// restored values (the whole EngineState cannot be a JSON document: its maps are keyed by
/// structs). Returns whether every restored component equals its original.
fn persist_state(state: &mut Engine) -> bool {
    let mut same = true;
    for a in state.assets.0.values_mut() {
        same &= roundtrip(a);
    }
    for inst in state.instruments.0.values_mut() {
        same &= roundtrip(&mut inst.data);
        same &= roundtrip(&mut inst.orders);
    }
    same
}

fn apply_event(state: &mut Engine, x: &EvJ) {
    match x {
        EvJ::Ord {
            op: OpJ::Persist {},
        } => {
            persist_state(state);
        }
        EvJ::Bal { b } => {
            state.update_from_account(&AccountEvent {
                exchange: ExchangeIndex(0),
                kind: AccountEventKind::BalanceSnapshot(Snapshot(real_balance(b))),
            });
        }
        EvJ::Acct { bals, insts } => {
            state.update_from_account(&AccountEvent {
                exchange: ExchangeIndex(0),
                kind: AccountEventKind::Snapshot(AccountSnapshot {
                    exchange: ExchangeIndex(0),
                    balances: bals.iter().map(real_balance).collect(),
                    instruments: insts
                        .iter()
                        .map(|i| InstrumentAccountSnapshot {
                            instrument: InstrumentIndex(i.inst),
                            orders: i.orders.iter().map(real_snap).collect(),
                        })
                        .collect(),
                }),
            });
        }
        EvJ::Ord { op } => apply_engine(state, &EopJ::Ord { op: op.clone() }),
        EvJ::Trade { i, t, p } => {
            let (f, _) = trade_price(p);
            state.update_from_market(&market(
                *i,
                *t,
                DataKind::Trade(PublicTrade {
                    id: "x".into(),
                    price: f,
                    amount: 1.0,
                    side: Side::Buy,
                }),
            ));
        }
        EvJ::L1 { i, t, lut, bid, ask } => {
            state.update_from_market(&market(
                *i,
                *t,
                DataKind::OrderBookL1(OrderBookL1 {
                    last_update_time: time(*lut),
                    best_bid: bid.as_ref().map(real_level),
                    best_ask: ask.as_ref().map(real_level),
                }),
            ));
        }
        EvJ::Other { i, t } => {
            state.update_from_market(&market(
                *i,
                *t,
                DataKind::Liquidation(Liquidation {
                    side: Side::Sell,
                    price: 1.0,
                    quantity: 1.0,
                    time: time(*t),
                }),
            ));
        }
    }
}

// ---------------------------------------------------------------------------------------------
// Coq printers
// ---------------------------------------------------------------------------------------------

fn zs(d: Decimal) -> String {
    z(dec_scaled(d, SCALE))
}
fn coq_bal(b: &BalJ) -> String {
    format!(
        "BM {} {} ({}, {})",
        b.a,
        zz(b.t as i128),
        zs(dec(&b.total)),
        zs(dec(&b.free))
    )
}
fn coq_lvl_in(l: &Option<LvlJ>) -> String {
    match l {
        Some(l) => format!("(Some ({}, {}))", zs(dec(&l.p)), zs(dec(&l.a))),
        None => "None".into(),
    }
}
fn coq_isnaps(insts: &[ISnapJ]) -> String {
    list(
        &insts
            .iter()
            .map(|i| {
                format!(
                    "IS {} {}",
                    i.inst,
                    list(
                        &i.orders
                            .iter()
                            .map(|o| coq_snap(&real_snap(o)))
                            .collect::<Vec<_>>()
                    )
                )
            })
            .collect::<Vec<_>>(),
    )
}
fn coq_ev(x: &EvJ) -> String {
    match x {
        EvJ::Bal { b } => format!("ABalance ({})", coq_bal(b)),
        EvJ::Acct { bals, insts } => format!(
            "ASnapshot {} {}",
            list(&bals.iter().map(coq_bal).collect::<Vec<_>>()),
            coq_isnaps(insts)
        ),
        EvJ::Ord {
            op: OpJ::Persist {},
        } => unreachable!("persist steps are printed by the run loop"),
        EvJ::Ord { op } => format!("AOrd ({})", coq_op(op)),
        EvJ::Trade { i, t, p } => {
            let (_, d) = trade_price(p);
            format!(
                "Market {} {} (MTrade {})",
                i,
                zz(*t as i128),
                match d {
                    Some(d) => format!("(Some {})", zs(d)),
                    None => "None".into(),
                }
            )
        }
        EvJ::L1 { i, t, lut, bid, ask } => format!(
            "Market {} {} (ML1 (L1 {} {} {}))",
            i,
            zz(*t as i128),
            zz(*lut as i128),
            coq_lvl_in(bid),
            coq_lvl_in(ask)
        ),
        EvJ::Other { i, t } => format!("Market {} {} MOther", i, zz(*t as i128)),
    }
}

fn coq_lvl_obs(l: &Option<Level>) -> String {
    match l {
        Some(l) => format!("(Some (OLvl {} {}))", dz(l.price), dz(l.amount)),
        None => "None".into(),
    }
}
fn coq_oents(m: &FnvHashMap<ClientOrderId, ActiveOrder>) -> String {
    let mut v: Vec<(i128, String)> = m
        .iter()
        .map(|(k, o)| {
            let n = id_num(k.0.as_str());
            (n, format!("OE {} {}", zz(n), coq_tracked(o)))
        })
        .collect();
    v.sort();
    list(&v.into_iter().map(|(_, s)| s).collect::<Vec<_>>())
}
fn coq_obs(state: &Engine) -> String {
    let bals: Vec<String> = state
        .assets
        .0
        .values()
        .map(|a| match &a.balance {
            Some(b) => format!(
                "(Some (OBal {} {} {}))",
                zz(nanos(&b.time) as i128),
                dz(b.value.total),
                dz(b.value.free)
            ),
            None => "None".into(),
        })
        .collect();
    let insts: Vec<String> = state
        .instruments
        .0
        .values()
        .map(|i| {
            format!(
                "IO {} {} {} {} {}",
                zz(nanos(&i.data.l1.last_update_time) as i128),
                coq_lvl_obs(&i.data.l1.best_bid),
                coq_lvl_obs(&i.data.l1.best_ask),
                match &i.data.last_traded_price {
                    Some(p) => format!(
                        "(Some (OTr {} {}))",
                        zz(nanos(&p.time) as i128),
                        dz(p.value)
                    ),
                    None => "None".into(),
                },
                coq_oents(&i.orders.0)
            )
        })
        .collect();
    format!("OB {} {}", list(&bals), list(&insts))
}

// ---------------------------------------------------------------------------------------------
// Branch tags
// ---------------------------------------------------------------------------------------------

fn rel(cur: Option<i64>, t: i64) -> &'static str {
    match cur {
        None => "first",
        Some(h) if t < h => "older",
        Some(h) if t == h => "tie",
        _ => "newer",
    }
}
fn bal_time(state: &Engine, a: usize) -> Option<i64> {
    state
        .assets
        .asset_index(&AssetIndex(a))
        .balance
        .as_ref()
        .map(|b| nanos(&b.time))
}
fn ev_tags(state: &Engine, x: &EvJ) -> Vec<String> {
    match x {
        EvJ::Bal { b } => vec![format!("bal.{}", rel(bal_time(state, b.a), b.t))],
        EvJ::Acct { bals, insts } => {
            let mut v = vec![];
            for b in bals {
                v.push(format!("acct.bal.{}", rel(bal_time(state, b.a), b.t)));
            }
            for i in insts {
                for o in &i.orders {
                    let cur = engine_orders(state, i.inst).0.get(&cid(o.key.c));
                    v.push(format!(
                        "acct.ord:{}",
                        op_tag(cur, &OpJ::Snap { o: o.clone() })
                    ));
                }
            }
            if v.is_empty() {
                v.push("acct.empty".into());
            }
            v
        }
        EvJ::Ord { op } => {
            let k = op_key(op);
            vec![format!(
                "ord:{}",
                op_tag(engine_orders(state, k.i).0.get(&cid(k.c)), op)
            )]
        }
        EvJ::Trade { i, t, p } => {
            let cur = state
                .instruments
                .instrument_index(&InstrumentIndex(*i))
                .data
                .last_traded_price
                .as_ref()
                .map(|p| nanos(&p.time));
            vec![format!(
                "trade.{}{}",
                rel(cur, *t),
                if p.is_none() { ".nan" } else { "" }
            )]
        }
        EvJ::L1 { i, t, lut, .. } => {
            let cur = state
                .instruments
                .instrument_index(&InstrumentIndex(*i))
                .data
                .l1
                .last_update_time;
            let cur = nanos(&cur);
            vec![format!(
                "l1.{}{}",
                rel(Some(cur), *t),
                if lut != t { ".lut_differs" } else { "" }
            )]
        }
        EvJ::Other { .. } => vec!["other".into()],
    }
}

fn run_input9(input: &Input9) -> Ran {
    let r = std::panic::catch_unwind(AssertUnwindSafe(|| {
        let mut state = build_engine(input.ninst);
        // asset indices: a0 .. a{n-1}, then usdt (the builder sorts assets by name)
        let names: Vec<String> = state
            .assets
            .0
            .values()
            .map(|a| a.asset.name_internal.to_string())
            .collect();
        let mut want: Vec<String> = (0..input.ninst).map(|i| format!("a{i}")).collect();
        want.push("usdt".into());
        assert_eq!(names, want, "asset index layout");
        let mut obs = vec![];
        let mut tags = vec![];
        let mut nontrivial = false;
        let mut steps = vec![];
        for x in &input.xs {
            tags.extend(ev_tags(&state, x));
            let before = state.clone();
            if let EvJ::Ord {
                op: OpJ::Persist {},
            } = x
            {
                let same = persist_state(&mut state);
                steps.push(format!("XPersist {}", b(same)));
            } else {
                apply_event(&mut state, x);
                steps.push(format!("XEv ({})", coq_ev(x)));
            }
            nontrivial |= before.assets != state.assets || before.instruments != state.instruments;
            obs.push(format!("({})", coq_obs(&state)));
        }
        Ran {
            coq: format!(
                "(C9 {} {})",
                list(&steps),
                list(&obs)
            ),
            nontrivial,
            tags: uniq(tags),
        }
    }));
    match r {
        Ok(ran) => ran,
        Err(_) => Ran {
            coq: "C9Panic".into(),
            nontrivial: true,
            tags: vec!["panic".into()],
        },
    }
}

// ---------------------------------------------------------------------------------------------
// Generators
// ---------------------------------------------------------------------------------------------

#[derive(Clone, Copy, PartialEq, Debug)]
enum Kind {
    Bal,
    AcctBal,
    Trade,
    L1,
    OrdOpen,
    AcctOrd,
}
const KINDS: [Kind; 6] = [
    Kind::Bal,
    Kind::AcctBal,
    Kind::Trade,
    Kind::L1,
    Kind::OrdOpen,
    Kind::AcctOrd,
];

fn bal(a: usize, t: i64, u: u32) -> BalJ {
    BalJ {
        a,
        t,
        total: format!("{}", 100 + u),
        free: format!("{}.5", 50 + u),
    }
}
/// filled quantity of a generated open report (order quantity is 100): mostly 1..99 (something
/// left), for u = 4 mod 6 slightly ABOVE the quantity, for u = 5 mod 12 far above it (an
/// over-filled report: the remaining quantity is negative, not zero, the order stays open)
fn fill_of(u: u32) -> String {
    if u % 6 == 4 {
        format!("{}.5", 100 + (u % 50))
    } else if u % 12 == 5 {
        format!("{}", 1000 + u)
    } else {
        format!("{}", 1 + (u % 99))
    }
}
fn open_snap(i: usize, c: u32, t: i64, u: u32) -> OrdJ {
    OrdJ {
        key: KeyJ { e: 0, i, s: 7, c },
        side: "B".into(),
        price: "100".into(),
        qty: "100".into(),
        kind: "L".into(),
        tif: "GTC".into(),
        st: StJ::Open {
            m: MetaJ {
                oid: 5,
                t,
                f: fill_of(u),
            },
        },
    }
}

/// one message of kind `k` about the item (`item` = asset / instrument index), exchange time
/// `t`, carrying a value unique to `u`
fn msg(k: Kind, item: usize, t: i64, u: u32) -> EvJ {
    match k {
        Kind::Bal => EvJ::Bal { b: bal(item, t, u) },
        Kind::AcctBal => EvJ::Acct {
            bals: vec![bal(item, t, u)],
            insts: vec![],
        },
        Kind::Trade => EvJ::Trade {
            i: item,
            t,
            p: Some(format!("{}.25", 200 + u)),
        },
        Kind::L1 => EvJ::L1 {
            i: item,
            t,
            lut: t,
            bid: Some(LvlJ {
                p: format!("{}", 300 + u),
                a: "1.5".into(),
            }),
            ask: Some(LvlJ {
                p: format!("{}.5", 300 + u),
                a: "2".into(),
            }),
        },
        Kind::OrdOpen => EvJ::Ord {
            op: OpJ::Snap {
                o: open_snap(item, 1, t, u),
            },
        },
        Kind::AcctOrd => EvJ::Acct {
            bals: vec![],
            insts: vec![ISnapJ {
                inst: item,
                orders: vec![open_snap(item, 1, t, u)],
            }],
        },
    }
}

/// the direct and the in-snapshot flavour of the same item kind
fn flavours(k: Kind) -> [Kind; 2] {
    match k {
        Kind::Bal | Kind::AcctBal => [Kind::Bal, Kind::AcctBal],
        Kind::OrdOpen | Kind::AcctOrd => [Kind::OrdOpen, Kind::AcctOrd],
        other => [other, other],
    }
}

fn persist_ev() -> EvJ {
    EvJ::Ord {
        op: OpJ::Persist {},
    }
}
/// the input with a persist / restore inserted after its k-th event, for every k
fn with_persist_after_every_prefix(input: &Input9) -> Vec<Input9> {
    (1..=input.xs.len())
        .map(|k| {
            let mut xs = input.xs.clone();
            xs.insert(k, persist_ev());
            Input9 {
                ninst: input.ninst,
                xs,
            }
        })
        .collect()
}

fn gen_table() -> Vec<Input9> {
    let mut v = vec![];
    for k in KINDS {
        for t1 in 1..=3 {
            for t2 in 1..=3 {
                v.push(Input9 {
                    ninst: 2,
                    xs: vec![msg(k, 1, t1, 1), msg(k, 1, t2, 2)],
                });
            }
        }
        for t1 in 1..=2 {
            for t2 in 1..=2 {
                for t3 in 1..=2 {
                    let f = flavours(k);
                    v.push(Input9 {
                        ninst: 2,
                        xs: vec![msg(f[0], 0, t1, 1), msg(f[1], 0, t2, 2), msg(f[0], 0, t3, 3)],
                    });
                }
            }
        }
    }
    // over-filled open reports (slightly above: u = 4, far above: u = 5) before / after ordinary
    // ones, every timestamp pair, direct and inside full account snapshots
    for (ka, kb) in [
        (Kind::OrdOpen, Kind::OrdOpen),
        (Kind::AcctOrd, Kind::AcctOrd),
        (Kind::OrdOpen, Kind::AcctOrd),
        (Kind::AcctOrd, Kind::OrdOpen),
    ] {
        for (u1, u2) in [(4, 2), (5, 2), (1, 4), (1, 5), (4, 5)] {
            for t1 in 1..=3 {
                for t2 in 1..=3 {
                    v.push(Input9 {
                        ninst: 2,
                        xs: vec![msg(ka, 1, t1, u1), msg(kb, 1, t2, u2), msg(ka, 1, 1, 3)],
                    });
                }
            }
        }
    }
    // one snapshot carrying two items for the same asset / the same order: item-by-item rule
    for t1 in 1..=3 {
        for t2 in 1..=3 {
            v.push(Input9 {
                ninst: 2,
                xs: vec![
                    EvJ::Bal { b: bal(0, 2, 9) },
                    EvJ::Acct {
                        bals: vec![bal(0, t1, 1), bal(1, 5, 4), bal(0, t2, 2)],
                        insts: vec![],
                    },
                ],
            });
            v.push(Input9 {
                ninst: 2,
                xs: vec![
                    EvJ::Ord {
                        op: OpJ::Snap {
                            o: open_snap(1, 1, 2, 9),
                        },
                    },
                    EvJ::Acct {
                        bals: vec![],
                        insts: vec![
                            ISnapJ {
                                inst: 1,
                                orders: vec![open_snap(1, 1, t1, 1), open_snap(1, 2, 7, 4)],
                            },
                            ISnapJ {
                                inst: 1,
                                orders: vec![open_snap(1, 1, t2, 2)],
                            },
                        ],
                    },
                ],
            });
        }
    }
    v
}


// ---- engine-side in-flight recordings and cancel responses between the delivered reports ----

fn okey(i: usize, c: u32) -> KeyJ {
    KeyJ { e: 0, i, s: 7, c }
}
fn rec_open(i: usize, c: u32) -> EvJ {
    EvJ::Ord {
        op: OpJ::RecOpen {
            o: OrdJ {
                st: StJ::Req,
                ..open_snap(i, c, 0, 0)
            },
        },
    }
}
fn rec_cancel(i: usize, c: u32) -> EvJ {
    EvJ::Ord {
        op: OpJ::RecCancel {
            key: okey(i, c),
            oid: Some(5),
        },
    }
}
fn cancel_resp(i: usize, c: u32, ok: bool, t: i64) -> EvJ {
    EvJ::Ord {
        op: OpJ::CancelResp {
            key: okey(i, c),
            ok,
            oid: 5,
            t,
            err: 0,
        },
    }
}
fn open_report(i: usize, c: u32, t: i64, u: u32, in_snapshot: bool) -> EvJ {
    if in_snapshot {
        EvJ::Acct {
            bals: vec![],
            insts: vec![ISnapJ {
                inst: i,
                orders: vec![open_snap(i, c, t, u)],
            }],
        }
    } else {
        EvJ::Ord {
            op: OpJ::Snap {
                o: open_snap(i, c, t, u),
            },
        }
    }
}

/// exhaustive: how the id got tracked x number of cancel requests recorded (0, 1, 2) x a late
/// report (older / tied / newer, direct or inside a full account snapshot) x cancel response
/// (none / ok / err) x one more late older report
fn gen_cancel_table() -> Vec<Input9> {
    let mut v = vec![];
    let (i, c) = (1usize, 1u32);
    let pres: [Vec<EvJ>; 3] = [
        vec![],
        vec![rec_open(i, c)],
        vec![rec_open(i, c), rec_cancel(i, c)],
    ];
    for (pi, pre) in pres.iter().enumerate() {
      for u_first in [1u32, 5] {
        if u_first == 5 && pi == 2 {
            continue;
        }
        for cancels in 0..=2 {
            for late_t in 1..=3 {
                for in_snapshot in [false, true] {
                    for resp in 0..3 {
                        let mut xs = pre.clone();
                        xs.push(open_report(i, c, 2, u_first, false));
                        for _ in 0..cancels {
                            xs.push(rec_cancel(i, c));
                        }
                        xs.push(open_report(i, c, late_t, 2, in_snapshot));
                        match resp {
                            1 => xs.push(cancel_resp(i, c, true, 4)),
                            2 => xs.push(cancel_resp(i, c, false, 4)),
                            _ => {}
                        }
                        xs.push(open_report(i, c, 1, 3, false));
                        v.push(Input9 { ninst: 2, xs });
                    }
                }
            }
        }
      }
    }
    v
}

/// the life of one or two client order ids as the engine sees it: requests recorded in flight
/// (also repeatedly), open reports in any timestamp order (direct or inside full snapshots),
/// cancel responses, now and then a terminal report and a fresh open request
fn gen_episode(r: &mut Rng, max_len: u64, adversarial: bool) -> Input9 {
    let ninst = 2usize;
    let n_cids = 1 + r.below(2) as u32;
    let len = 3 + r.below(max_len);
    let mut xs = vec![];
    let mut clock = 2i64;
    for j in 0..len {
        let i = if r.chance(1, 6) { 0 } else { 1 };
        let c = 1 + r.below(n_cids as u64) as u32;
        let u = j as u32;
        let t = match r.below(if adversarial { 4 } else { 6 }) {
            0 => (clock - 1 - r.below(3) as i64).max(0), // late
            1 => clock,                                  // tie with the latest
            _ => {
                clock += 1;
                clock
            }
        };
        if r.chance(1, 8) {
            xs.push(persist_ev());
        }
        let x = match r.below(16) {
            0 => rec_open(i, c),
            1..=4 => rec_cancel(i, c),
            5 => cancel_resp(i, c, true, t),
            6..=7 => cancel_resp(i, c, false, t),
            8 => EvJ::Ord {
                op: gen_other_order_op(r, i, c, t),
            },
            9..=10 => open_report(i, c, t, u, true),
            _ => open_report(i, c, t, u, false),
        };
        xs.push(x);
    }
    Input9 { ninst, xs }
}

/// a set of `n` messages, most of them about one item with few distinct timestamps
fn gen_set(r: &mut Rng, n: usize, ninst: usize) -> Vec<EvJ> {
    let theme = *r.pick(&KINDS);
    let item = r.below(ninst as u64) as usize;
    let tmax = 2 + r.below(2) as i64;
    let mut v = vec![];
    for j in 0..n {
        let u = 1 + j as u32;
        if r.chance(1, 5) {
            // an unrelated message
            let k = *r.pick(&KINDS);
            let it = r.below(ninst as u64) as usize;
            v.push(msg(k, it, r.range(1, tmax), 20 + u));
        } else {
            let k = *r.pick(&flavours(theme));
            v.push(msg(k, item, r.range(1, tmax), u));
        }
    }
    // order-themed sets: engine-side recordings travel with the reports (cancel requests, also
    // repeated, and a rejected / confirmed cancel), permuted like everything else
    if matches!(theme, Kind::OrdOpen | Kind::AcctOrd) && r.chance(2, 3) {
        let k = 1 + r.below(2) as usize;
        for _ in 0..k.min(v.len().saturating_sub(2)) {
            let at = r.below(v.len() as u64) as usize;
            v[at] = rec_cancel(item, 1);
        }
        if r.chance(1, 2) && v.len() >= 4 {
            let at = r.below(v.len() as u64) as usize;
            v[at] = cancel_resp(item, 1, r.chance(1, 3), tmax);
        }
    }
    // sometimes merge two account snapshots into one carrying both items
    if r.chance(1, 3) {
        let idx: Vec<usize> = v
            .iter()
            .enumerate()
            .filter(|(_, e)| matches!(e, EvJ::Acct { .. }))
            .map(|(i, _)| i)
            .collect();
        if idx.len() >= 2 {
            let b = v.remove(idx[1]);
            if let (EvJ::Acct { bals, insts }, EvJ::Acct { bals: b2, insts: i2 }) =
                (&mut v[idx[0]], b)
            {
                bals.extend(b2);
                insts.extend(i2);
            }
        }
    }
    v
}

fn permutations(n: usize) -> Vec<Vec<usize>> {
    fn go(k: usize, a: &mut Vec<usize>, out: &mut Vec<Vec<usize>>) {
        if k == a.len() {
            out.push(a.clone());
            return;
        }
        for i in k..a.len() {
            a.swap(k, i);
            go(k + 1, a, out);
            a.swap(k, i);
        }
    }
    let mut out = vec![];
    let mut a: Vec<usize> = (0..n).collect();
    go(0, &mut a, &mut out);
    out
}

fn gen_other_order_op(r: &mut Rng, i: usize, c: u32, t: i64) -> OpJ {
    let k = KeyJ { e: 0, i, s: 7, c };
    let o = |st: StJ| OrdJ {
        key: k.clone(),
        side: "S".into(),
        price: "100".into(),
        qty: "100".into(),
        kind: "L".into(),
        tif: "GTC".into(),
        st,
    };
    match r.below(7) {
        0 => OpJ::RecOpen { o: o(StJ::Req) },
        1 => OpJ::RecCancel {
            key: k.clone(),
            oid: None,
        },
        2 => OpJ::CancelResp {
            key: k.clone(),
            ok: r.chance(1, 2),
            oid: 5,
            t,
            err: 0,
        },
        3 => OpJ::Snap {
            o: o(StJ::Open {
                m: MetaJ {
                    oid: 5,
                    t,
                    f: "100".into(),
                },
            }),
        },
        4 => OpJ::Snap {
            o: o(StJ::Cancelled { oid: 5, t }),
        },
        5 => OpJ::Snap {
            o: o(StJ::FullyFilled),
        },
        _ => OpJ::Snap {
            o: open_snap(i, c, t, r.below(90) as u32),
        },
    }
}

/// long mixed history: every kind, stale / tied / wild timestamps, NaN prices, L1 events whose
/// own update time differs from the event time, non-open order inputs
fn gen_adversarial(r: &mut Rng, max_len: u64) -> Input9 {
    let ninst = 2 + r.below(2) as usize;
    let len = 1 + r.below(max_len);
    let mut xs = vec![];
    for j in 0..len {
        let u = j as u32;
        let t = match r.below(6) {
            0 => 0,
            1 => -1 - r.below(3) as i64,
            _ => r.range(1, 6),
        };
        let item = r.below(ninst as u64) as usize;
        if r.chance(1, 8) {
            xs.push(persist_ev());
        }
        let x = match r.below(12) {
            0 => EvJ::Trade {
                i: item,
                t,
                p: None,
            },
            1 => EvJ::Other { i: item, t },
            2 => {
                if let EvJ::L1 { i, t, bid, ask, .. } = msg(Kind::L1, item, t, u) {
                    EvJ::L1 {
                        i,
                        t,
                        lut: t + r.range(-2, 2),
                        bid: if r.chance(1, 3) { None } else { bid },
                        ask,
                    }
                } else {
                    unreachable!()
                }
            }
            3 | 4 => {
                let c = 1 + r.below(2) as u32;
                EvJ::Ord {
                    op: gen_other_order_op(r, item, c, t),
                }
            }
            5 => EvJ::Bal {
                b: bal(r.below(ninst as u64 + 1) as usize, t, u),
            },
            6 => {
                // a bigger account snapshot
                let mut bals = vec![];
                for _ in 0..r.below(4) {
                    bals.push(bal(r.below(ninst as u64 + 1) as usize, r.range(1, 6), 40 + u));
                }
                let mut insts = vec![];
                for _ in 0..r.below(3) {
                    let i = r.below(ninst as u64) as usize;
                    let mut orders = vec![];
                    for _ in 0..r.below(3) {
                        let c = 1 + r.below(2) as u32;
                        let tt = r.range(1, 6);
                        if let OpJ::Snap { o } = gen_other_order_op(r, i, c, tt) {
                            orders.push(o);
                        } else {
                            orders.push(open_snap(i, c, r.range(1, 6), r.below(90) as u32));
                        }
                    }
                    insts.push(ISnapJ { inst: i, orders });
                }
                EvJ::Acct { bals, insts }
            }
            _ => msg(*r.pick(&KINDS), item, t, u),
        };
        xs.push(x);
    }
    Input9 { ninst, xs }
}

fn emit9(em: &mut Emitter, stream: &'static str, input: &Input9) {
    let ran = run_input9(input);
    em.emit(Case {
        stream,
        input: serde_json::to_value(input).unwrap(),
        coq: ran.coq,
        nontrivial: ran.nontrivial,
        tags: ran.tags,
    });
}

fn main() {
    quiet_panics();
    let args = parse_args();
    let mut em = Emitter::create(&args.out);
    match args.mode.as_str() {
        "gen" => {
            let thorough = args.tier == "thorough";
            let mut r = Rng::new(args.seed);
            for (n, input) in gen_table().into_iter().chain(gen_cancel_table()).enumerate() {
                for (k, scale) in TABLE_SCALES.into_iter().enumerate() {
                    // quick: two cases in three skip the from-the-epoch scale (the boundary
                    // scale is a nanosecond apart as well)
                    if thorough || k != 0 || n % 3 == 0 {
                        emit9(&mut em, "table", &rescaled(&input, scale));
                    }
                }
            }
            // persist / restore after every prefix of the (short) table cases, timestamps a
            // nanosecond apart straddling a millisecond boundary; thorough: also from the epoch
            for (n, input) in gen_table().into_iter().enumerate() {
                if !thorough && n % 2 == 1 {
                    continue;
                }
                for with in with_persist_after_every_prefix(&input) {
                    emit9(&mut em, "table", &rescaled(&with, TABLE_SCALES[1]));
                    if thorough {
                        emit9(&mut em, "table", &rescaled(&with, TABLE_SCALES[0]));
                    }
                }
            }
            let (n_epi, epi_len) = if thorough { (2500, 30) } else { (140, 12) };
            for j in 0..n_epi {
                let mut rr = r.fork();
                let adv = j % 3 == 2;
                let input = gen_episode(&mut rr, epi_len, adv);
                let scale = time_palette(&mut rr);
                emit9(
                    &mut em,
                    if adv { "adversarial" } else { "random" },
                    &rescaled(&input, scale),
                );
            }
            // all permutations of message sets
            let sets: &[(usize, usize)] = if thorough {
                &[(3, 40), (4, 60), (5, 25), (6, 2)]
            } else {
                &[(3, 10), (4, 12), (5, 2)]
            };
            for &(n, count) in sets {
                for _ in 0..count {
                    let mut rr = r.fork();
                    let ninst = 2;
                    let set = gen_set(&mut rr, n, ninst);
                    let scale = time_palette(&mut rr);
                    for p in permutations(set.len()) {
                        let mut xs: Vec<EvJ> = p.iter().map(|&i| set[i].clone()).collect();
                        if rr.chance(1, 3) {
                            let at = 1 + rr.below(xs.len() as u64) as usize;
                            xs.insert(at, persist_ev());
                        }
                        emit9(&mut em, "random", &rescaled(&Input9 { ninst, xs }, scale));
                    }
                }
            }
            // deliveries with repetition: sequences drawn from a set, longer than the set
            let n_rep = if thorough { 3000 } else { 160 };
            for _ in 0..n_rep {
                let mut rr = r.fork();
                let ninst = 2;
                let n = 2 + rr.below(3) as usize;
                let set = gen_set(&mut rr, n, ninst);
                let len = set.len() + 1 + rr.below(if thorough { 12 } else { 5 }) as usize;
                let xs: Vec<EvJ> = (0..len)
                    .map(|_| set[rr.below(set.len() as u64) as usize].clone())
                    .collect();
                let scale = time_palette(&mut rr);
                emit9(&mut em, "random", &rescaled(&Input9 { ninst, xs }, scale));
            }
            let (n_adv, max_len) = if thorough { (3000, 60) } else { (160, 20) };
            for _ in 0..n_adv {
                let mut rr = r.fork();
                let input = gen_adversarial(&mut rr, max_len);
                let scale = time_palette(&mut rr);
                emit9(&mut em, "adversarial", &rescaled(&input, scale));
            }
        }
        "exec" => {
            let path = args.input.clone().expect("--in FILE");
            for (v, stream) in read_inputs(&path) {
                let input: Input9 = serde_json::from_value(v).expect("input json");
                emit9(&mut em, stream_static(&stream), &input);
            }
        }
        other => panic!("unknown mode {other}"),
    }
    em.finish();
}
