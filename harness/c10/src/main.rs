//! C10 correspondence harness: a real `Engine` with auditing (process_with_audit event by event,
//! sync_run_with_audit, async_run_with_audit), a real `StateReplicaManager` seeded with the
//! engine's snapshot and fed the audit ticks one by one and as a whole stream (also with a tick
//! deleted / duplicated / swapped / replayed). Prints inputs + observations as Coq terms
//! (Corr/C10.v).
mod model;
mod generate;

use model::*;
use vh_common::*;

fn main() {
    quiet_panics();
    let args = parse_args();
    let mut em = Emitter::create(&args.out);
    match args.mode.as_str() {
        "gen" => generate::generate(args.seed, &args.tier, &mut em),
        "exec" => {
            let path = args.input.clone().expect("--in FILE");
            for (v, stream) in read_inputs(&path) {
                let inp = Input::from_json(&v);
                em.emit(run_case(&inp, stream_static(&stream)));
            }
        }
        other => panic!("unknown mode {other}"),
    }
    em.finish();
}
