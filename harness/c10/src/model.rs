//! Input types (JSON <-> Rust <-> Coq), engine construction, and the run of one case.
use barter::{
    EngineEvent, Sequence,
    engine::{
        Engine, EngineOutput, Processor,
        action::{ActionOutput, cancel_orders::CancelOrders, send_requests::SendRequestsOutput},
        audit::{
            AuditTick, Auditor, EngineAudit, context::EngineContext,
            state_replica::StateReplicaManager,
        },
        clock::EngineClock,
        command::Command,
        execution_tx::MultiExchangeTxMap,
        process_with_audit,
        run::{async_run_with_audit, sync_run_with_audit},
        state::{
            EngineState,
            global::DefaultGlobalData,
            instrument::{data::DefaultInstrumentMarketData, filter::InstrumentFilter},
            order::Orders,
            trading::TradingState,
        },
    },
    execution::{AccountStreamEvent, request::ExecutionRequest},
    risk::DefaultRiskManager,
    strategy::{
        algo::AlgoStrategy, close_positions::ClosePositionsStrategy,
        on_disconnect::OnDisconnectStrategy, on_trading_disabled::OnTradingDisabled,
    },
};
use barter_data::{
    books::Level,
    event::{DataKind, MarketEvent},
    streams::consumer::MarketStreamEvent,
    subscription::{book::OrderBookL1, trade::PublicTrade},
};
use barter_execution::{
    AccountEvent, AccountEventKind, AccountSnapshot, InstrumentAccountSnapshot,
    balance::{AssetBalance, Balance},
    error::{ConnectivityError, OrderError},
    order::{
        Order, OrderKey, OrderKind, TimeInForce,
        id::{ClientOrderId, OrderId, StrategyId},
        request::{OrderRequestCancel, OrderRequestOpen, RequestCancel, RequestOpen},
        state::{
            ActiveOrderState, CancelInFlight, Cancelled, InactiveOrderState, Open, OpenInFlight,
            OrderState,
        },
    },
    trade::{AssetFees, Trade, TradeId},
};
use barter_instrument::{
    Side, Underlying,
    asset::AssetIndex,
    exchange::{ExchangeId, ExchangeIndex},
    index::IndexedInstruments,
    instrument::{Instrument, InstrumentIndex},
};
use barter_integration::{
    Terminal,
    channel::{ChannelTxDroppable, UnboundedRx, UnboundedTx, mpsc_unbounded},
    collection::one_or_many::OneOrMany,
    snapshot::Snapshot,
};
use chrono::{DateTime, Duration, Utc};
use rust_decimal::Decimal;
use serde_json::{Value, json};
use std::{
    panic::AssertUnwindSafe,
    sync::{Arc, Mutex},
};
use vh_common::*;

pub const N_INSTR: usize = 6;
/// three exchanges; the one that ends up with ExchangeIndex 1 (the MIDDLE one) is the one whose
/// execution link can be missing / terminated
pub const EXS: [ExchangeId; 3] = [ExchangeId::Kraken, ExchangeId::BinanceSpot, ExchangeId::Mock];
pub const WEAK_EX: usize = 1;

pub type State = EngineState<DefaultGlobalData, DefaultInstrumentMarketData>;
pub type Txs = MultiExchangeTxMap<UnboundedTx<ExecutionRequest>>;
pub type Risk = DefaultRiskManager<State>;
pub type Eng = Engine<FixedClock, State, Txs, Script, Risk>;
pub type Audit = EngineAudit<EngineEvent<DataKind>, EngineOutput<HookOut, HookOut>>;
pub type Tick = AuditTick<Audit, EngineContext>;

pub fn t0() -> DateTime<Utc> {
    DateTime::<Utc>::from_timestamp(1_700_000_000, 0).unwrap()
}
/// all input times are NANOSECONDS relative to t0 (chrono resolution; the Coq unit is ns too)
fn at(ns: i64) -> DateTime<Utc> {
    t0() + Duration::nanoseconds(ns)
}
fn tenths(v: i64) -> Decimal {
    Decimal::new(v, 1)
}

// ---------------------------------------------------------------------------------------------
// input types
// ---------------------------------------------------------------------------------------------

#[derive(Clone, Debug, Default, PartialEq, Eq, Hash, PartialOrd, Ord)]
pub struct Key {
    pub i: usize,
    pub c: u64,
}

/// everything an open request / an order report says about the order besides its state
#[derive(Clone, Debug, Default, PartialEq)]
pub struct Spec {
    pub i: usize,
    pub c: u64,
    pub side: u8,  // 0 buy 1 sell
    pub price: i64, // tenths
    pub qty: i64,  // tenths
    pub kind: u8,  // 0 market 1 limit
    pub tif: u8,   // 0 gtc 1 gtd(end of day) 2 fok 3 ioc
    pub strat: u8, // 0 "s0" 1 "ext"
}

#[derive(Clone, Debug, PartialEq)]
pub struct MetaIn {
    pub oid: u64,
    pub t: i64,
    pub filled: i64,
}

#[derive(Clone, Debug, PartialEq)]
pub enum OSt {
    Oif,
    Open(MetaIn),
    Cif(Option<MetaIn>),
    Cancelled(i64),
    Filled,
    Expired,
    Failed(u8), // error class, see order_error
}

#[derive(Clone, Debug, PartialEq)]
pub struct BalIn {
    pub asset: usize,
    pub total: i64,
    pub free: i64,
    pub t: i64,
}

#[derive(Clone, Debug, PartialEq)]
pub enum Ev {
    Shutdown,
    CmdCancels(Vec<Key>),
    CmdOpens(Vec<Spec>),
    CmdClose(Option<Vec<usize>>),
    CmdCancelOrders(Option<Vec<usize>>),
    Trading(bool),
    AccReconn(usize),
    MktReconn(usize),
    Balance(BalIn),
    Order(Spec, OSt),
    CancelResp { key: Key, ok: bool, t: i64, err: u8 },
    Trade { i: usize, side: u8, price: i64, qty: i64, fee: i64, t: i64, n: u64 },
    Snapshot { ex: usize, balances: Vec<BalIn>, orders: Vec<(Spec, OSt)> },
    MktTrade { i: usize, price: i64, t: i64 },
    MktL1 { i: usize, bid: i64, ask: i64, t: i64, sides: u8 }, // sides: 0 both 1 bid only 2 ask only 3 empty
    MktBook { i: usize, t: i64, snapshot: bool },
    MktCandle { i: usize, t: i64 },
    MktLiq { i: usize, t: i64 },
    /// a market item whose `time_received` is `time_exchange + lat` ns (lat may be negative)
    Late(Box<Ev>, i64),
}

/// what the scripted strategy returns if it is asked at this tick
#[derive(Clone, Debug, Default, PartialEq)]
pub struct TickScript {
    pub ac: Vec<Key>,  // algo cancels
    pub ao: Vec<Spec>, // algo opens
    pub cc: Vec<Key>,  // close-positions cancels
    pub co: Vec<Spec>, // close-positions opens
}

#[derive(Clone, Debug, PartialEq)]
pub enum Perturb {
    None,
    Delete(usize),
    Dup(usize),
    Swap(usize),
    Replay(usize),
    Window(usize, usize),
    Triple(usize),
}

#[derive(Clone, Debug)]
pub struct Input {
    pub mode: u8, // 0 manual 1 sync 2 async
    pub s_init: u64,
    pub trading0: bool,
    pub link: u8, // 0 all links up; 1 second exchange has no transmitter; 2 its receiver is dropped
    pub hook: bool, // on_disconnect / on_trading_disabled cancel every order
    pub pre: Vec<(Ev, TickScript)>,
    pub feed: Vec<(Ev, TickScript)>,
    pub perturb: Perturb,
}

fn us(v: &Value) -> usize {
    v.as_u64().unwrap_or(0) as usize
}
fn i6(v: &Value) -> i64 {
    v.as_i64().unwrap_or(0)
}
fn arr(v: &Value) -> Vec<Value> {
    v.as_array().cloned().unwrap_or_default()
}

impl Key {
    pub fn to_json(&self) -> Value {
        json!({"i": self.i, "c": self.c})
    }
    pub fn from_json(v: &Value) -> Key {
        Key { i: us(&v["i"]) % N_INSTR, c: v["c"].as_u64().unwrap_or(0) }
    }
    pub fn coq(&self) -> String {
        format!("K {} {}", self.i, self.c)
    }
}

impl Spec {
    pub fn key(&self) -> Key {
        Key { i: self.i, c: self.c }
    }
    pub fn to_json(&self) -> Value {
        json!({"i": self.i, "c": self.c, "side": self.side, "price": self.price, "qty": self.qty,
               "kind": self.kind, "tif": self.tif, "strat": self.strat})
    }
    pub fn from_json(v: &Value) -> Spec {
        Spec {
            i: us(&v["i"]) % N_INSTR,
            c: v["c"].as_u64().unwrap_or(0),
            side: (us(&v["side"]) % 2) as u8,
            price: i6(&v["price"]).clamp(0, 1_000_000),
            qty: i6(&v["qty"]).clamp(0, 1_000_000),
            kind: (us(&v["kind"]) % 2) as u8,
            tif: (us(&v["tif"]) % 4) as u8,
            strat: (us(&v["strat"]) % 2) as u8,
        }
    }
}

/// static-field code of an order record: everything but key.instrument, key.cid, quantity, state
pub fn sf_code(price: i128, side: u8, kind: u8, tif: u8, exch: usize, strat: u8) -> i128 {
    ((((price * 2 + side as i128) * 2 + kind as i128) * 8 + tif as i128) * 4 + exch as i128) * 2
        + strat as i128
}

impl MetaIn {
    fn to_json(&self) -> Value {
        json!({"oid": self.oid, "t": self.t, "filled": self.filled})
    }
    fn from_json(v: &Value) -> MetaIn {
        MetaIn { oid: v["oid"].as_u64().unwrap_or(0), t: i6(&v["t"]), filled: i6(&v["filled"]) }
    }
    fn coq(&self) -> String {
        format!("(M {} {} {})", self.oid, zi(self.t), zi(self.filled))
    }
    fn open(&self) -> Open {
        Open {
            id: OrderId::new(format!("o{}", self.oid)),
            time_exchange: at(self.t),
            filled_quantity: tenths(self.filled),
        }
    }
}

/// integer literal for a Z-typed argument position
pub fn zi(v: i64) -> String {
    if v < 0 { format!("({})", v) } else { format!("{}", v) }
}
pub fn zi128(v: i128) -> String {
    if v < 0 { format!("({})", v) } else { format!("{}", v) }
}

impl OSt {
    fn to_json(&self) -> Value {
        match self {
            OSt::Oif => json!({"s": "oif"}),
            OSt::Open(m) => json!({"s": "open", "m": m.to_json()}),
            OSt::Cif(None) => json!({"s": "cif"}),
            OSt::Cif(Some(m)) => json!({"s": "cif", "m": m.to_json()}),
            OSt::Cancelled(t) => json!({"s": "cancelled", "t": t}),
            OSt::Filled => json!({"s": "filled"}),
            OSt::Expired => json!({"s": "expired"}),
            OSt::Failed(e) => json!({"s": "failed", "err": e}),
        }
    }
    fn from_json(v: &Value) -> OSt {
        match v["s"].as_str().unwrap_or("filled") {
            "oif" => OSt::Oif,
            "open" => OSt::Open(MetaIn::from_json(&v["m"])),
            "cif" => {
                if v["m"].is_object() {
                    OSt::Cif(Some(MetaIn::from_json(&v["m"])))
                } else {
                    OSt::Cif(None)
                }
            }
            "cancelled" => OSt::Cancelled(i6(&v["t"])),
            "expired" => OSt::Expired,
            "failed" => OSt::Failed((us(&v["err"]) % 10) as u8),
            _ => OSt::Filled,
        }
    }
    fn coq(&self) -> String {
        match self {
            OSt::Oif => "SOIF".into(),
            OSt::Open(m) => format!("(SOpen {})", m.coq()),
            OSt::Cif(None) => "(SCIF None)".into(),
            OSt::Cif(Some(m)) => format!("(SCIF (Some {}))", m.coq()),
            _ => "SInactive".into(),
        }
    }
    pub fn tag(&self) -> &'static str {
        match self {
            OSt::Oif => "snap_oif",
            OSt::Open(_) => "snap_open",
            OSt::Cif(_) => "snap_cif",
            _ => "snap_inactive",
        }
    }
    fn state(&self) -> OrderState<AssetIndex, InstrumentIndex> {
        match self {
            OSt::Oif => OrderState::active(OpenInFlight),
            OSt::Open(m) => OrderState::active(m.open()),
            OSt::Cif(m) => OrderState::active(CancelInFlight { order: m.as_ref().map(|m| m.open()) }),
            OSt::Cancelled(t) => OrderState::inactive(Cancelled {
                id: OrderId::new("o0"),
                time_exchange: at(*t),
            }),
            OSt::Filled => OrderState::fully_filled(),
            OSt::Expired => OrderState::expired(),
            OSt::Failed(e) => OrderState::Inactive(InactiveOrderState::OpenFailed(order_error(*e))),
        }
    }
}

/// every error class an order response can carry
pub fn order_error(code: u8) -> OrderError<AssetIndex, InstrumentIndex> {
    use barter_execution::error::ApiError;
    match code % 10 {
        0 => OrderError::Connectivity(ConnectivityError::Timeout),
        1 => OrderError::Connectivity(ConnectivityError::ExchangeOffline(ExchangeId::Okx)),
        2 => OrderError::Connectivity(ConnectivityError::Socket("socket closed".into())),
        3 => OrderError::Rejected(ApiError::AssetInvalid(AssetIndex(1), "asset".into())),
        4 => OrderError::Rejected(ApiError::InstrumentInvalid(InstrumentIndex(2), "instrument".into())),
        5 => OrderError::Rejected(ApiError::RateLimit),
        6 => OrderError::Rejected(ApiError::BalanceInsufficient(AssetIndex(0), "funds".into())),
        7 => OrderError::Rejected(ApiError::OrderRejected("rejected".into())),
        8 => OrderError::Rejected(ApiError::OrderAlreadyCancelled),
        _ => OrderError::Rejected(ApiError::OrderAlreadyFullyFilled),
    }
}

impl BalIn {
    fn to_json(&self) -> Value {
        json!({"asset": self.asset, "total": self.total, "free": self.free, "t": self.t})
    }
    fn from_json(v: &Value) -> BalIn {
        BalIn { asset: us(&v["asset"]), total: i6(&v["total"]), free: i6(&v["free"]), t: i6(&v["t"]) }
    }
}

fn filter_json(f: &Option<Vec<usize>>) -> Value {
    match f {
        None => Value::Null,
        Some(v) => json!(v),
    }
}
fn filter_from(v: &Value) -> Option<Vec<usize>> {
    v.as_array().map(|a| a.iter().map(|x| us(x) % N_INSTR).collect())
}

impl Ev {
    pub fn to_json(&self) -> Value {
        match self {
            Ev::Shutdown => json!({"k": "shutdown"}),
            Ev::CmdCancels(ks) => json!({"k": "cmd_cancels", "reqs": ks.iter().map(Key::to_json).collect::<Vec<_>>()}),
            Ev::CmdOpens(os) => json!({"k": "cmd_opens", "reqs": os.iter().map(Spec::to_json).collect::<Vec<_>>()}),
            Ev::CmdClose(f) => json!({"k": "cmd_close", "filter": filter_json(f)}),
            Ev::CmdCancelOrders(f) => json!({"k": "cmd_cancel_orders", "filter": filter_json(f)}),
            Ev::Trading(b) => json!({"k": "trading", "on": b}),
            Ev::AccReconn(x) => json!({"k": "acc_reconn", "ex": x}),
            Ev::MktReconn(x) => json!({"k": "mkt_reconn", "ex": x}),
            Ev::Balance(b) => json!({"k": "balance", "b": b.to_json()}),
            Ev::Order(s, st) => json!({"k": "order", "spec": s.to_json(), "st": st.to_json()}),
            Ev::CancelResp { key, ok, t, err } => json!({"k": "cancel_resp", "key": key.to_json(), "ok": ok, "t": t, "err": err}),
            Ev::Trade { i, side, price, qty, fee, t, n } => json!({"k": "trade", "i": i, "side": side, "price": price, "qty": qty, "fee": fee, "t": t, "n": n}),
            Ev::Snapshot { ex, balances, orders } => json!({"k": "snapshot", "ex": ex,
                "balances": balances.iter().map(BalIn::to_json).collect::<Vec<_>>(),
                "orders": orders.iter().map(|(s, st)| json!({"spec": s.to_json(), "st": st.to_json()})).collect::<Vec<_>>()}),
            Ev::MktTrade { i, price, t } => json!({"k": "mkt_trade", "i": i, "price": price, "t": t}),
            Ev::MktL1 { i, bid, ask, t, sides } => json!({"k": "mkt_l1", "i": i, "bid": bid, "ask": ask, "t": t, "sides": sides}),
            Ev::MktBook { i, t, snapshot } => json!({"k": "mkt_book", "i": i, "t": t, "snapshot": snapshot}),
            Ev::MktCandle { i, t } => json!({"k": "mkt_candle", "i": i, "t": t}),
            Ev::MktLiq { i, t } => json!({"k": "mkt_liq", "i": i, "t": t}),
            Ev::Late(inner, lat) => json!({"k": "late", "lat": lat, "ev": inner.to_json()}),
        }
    }
    pub fn from_json(v: &Value) -> Ev {
        match v["k"].as_str().unwrap_or("shutdown") {
            "cmd_cancels" => Ev::CmdCancels(arr(&v["reqs"]).iter().map(Key::from_json).collect()),
            "cmd_opens" => Ev::CmdOpens(arr(&v["reqs"]).iter().map(Spec::from_json).collect()),
            "cmd_close" => Ev::CmdClose(filter_from(&v["filter"])),
            "cmd_cancel_orders" => Ev::CmdCancelOrders(filter_from(&v["filter"])),
            "trading" => Ev::Trading(v["on"].as_bool().unwrap_or(false)),
            "acc_reconn" => Ev::AccReconn(us(&v["ex"]) % 3),
            "mkt_reconn" => Ev::MktReconn(us(&v["ex"]) % 3),
            "balance" => Ev::Balance(BalIn::from_json(&v["b"])),
            "order" => Ev::Order(Spec::from_json(&v["spec"]), OSt::from_json(&v["st"])),
            "cancel_resp" => Ev::CancelResp {
                key: Key::from_json(&v["key"]),
                ok: v["ok"].as_bool().unwrap_or(false),
                t: i6(&v["t"]),
                err: (us(&v["err"]) % 10) as u8,
            },
            "trade" => Ev::Trade {
                i: us(&v["i"]) % N_INSTR,
                side: (us(&v["side"]) % 2) as u8,
                price: i6(&v["price"]).clamp(1, 1_000_000),
                qty: i6(&v["qty"]).clamp(0, 1_000_000),
                fee: i6(&v["fee"]).clamp(0, 1_000_000),
                t: i6(&v["t"]),
                n: v["n"].as_u64().unwrap_or(0),
            },
            "snapshot" => Ev::Snapshot {
                ex: us(&v["ex"]) % 3,
                balances: arr(&v["balances"]).iter().map(BalIn::from_json).collect(),
                orders: arr(&v["orders"])
                    .iter()
                    .map(|o| (Spec::from_json(&o["spec"]), OSt::from_json(&o["st"])))
                    .collect(),
            },
            "mkt_trade" => Ev::MktTrade { i: us(&v["i"]) % N_INSTR, price: i6(&v["price"]).clamp(1, 1_000_000), t: i6(&v["t"]) },
            "mkt_l1" => Ev::MktL1 {
                i: us(&v["i"]) % N_INSTR,
                bid: i6(&v["bid"]).clamp(1, 1_000_000),
                ask: i6(&v["ask"]).clamp(1, 1_000_000),
                t: i6(&v["t"]),
                sides: (us(&v["sides"]) % 4) as u8,
            },
            "mkt_book" => Ev::MktBook { i: us(&v["i"]) % N_INSTR, t: i6(&v["t"]), snapshot: v["snapshot"].as_bool().unwrap_or(false) },
            "mkt_candle" => Ev::MktCandle { i: us(&v["i"]) % N_INSTR, t: i6(&v["t"]) },
            "mkt_liq" => Ev::MktLiq { i: us(&v["i"]) % N_INSTR, t: i6(&v["t"]) },
            "late" => Ev::Late(Box::new(Ev::from_json(&v["ev"])), i6(&v["lat"])),
            _ => Ev::Shutdown,
        }
    }
    pub fn tag(&self) -> &'static str {
        match self {
            Ev::Shutdown => "ev_shutdown",
            Ev::CmdCancels(_) => "ev_cmd_send_cancels",
            Ev::CmdOpens(_) => "ev_cmd_send_opens",
            Ev::CmdClose(_) => "ev_cmd_close_positions",
            Ev::CmdCancelOrders(_) => "ev_cmd_cancel_orders",
            Ev::Trading(true) => "ev_trading_enable",
            Ev::Trading(false) => "ev_trading_disable",
            Ev::AccReconn(_) => "ev_account_reconnecting",
            Ev::MktReconn(_) => "ev_market_reconnecting",
            Ev::Balance(_) => "ev_balance",
            Ev::Order(..) => "ev_order_snapshot",
            Ev::CancelResp { ok: true, .. } => "ev_cancel_ok",
            Ev::CancelResp { ok: false, .. } => "ev_cancel_err",
            Ev::Trade { .. } => "ev_trade",
            Ev::Snapshot { .. } => "ev_account_snapshot",
            Ev::MktTrade { .. } => "ev_market_trade",
            Ev::MktL1 { sides: 0, .. } => "ev_market_l1",
            Ev::MktL1 { sides: 3, .. } => "ev_market_l1_empty",
            Ev::MktL1 { .. } => "ev_market_l1_one_sided",
            Ev::MktBook { .. } => "ev_market_book",
            Ev::MktCandle { .. } => "ev_market_candle",
            Ev::MktLiq { .. } => "ev_market_liquidation",
            Ev::Late(inner, _) => inner.tag(),
        }
    }
}

impl TickScript {
    pub fn is_empty(&self) -> bool {
        self.ac.is_empty() && self.ao.is_empty() && self.cc.is_empty() && self.co.is_empty()
    }
    fn to_json(&self) -> Value {
        json!({"ac": self.ac.iter().map(Key::to_json).collect::<Vec<_>>(),
               "ao": self.ao.iter().map(Spec::to_json).collect::<Vec<_>>(),
               "cc": self.cc.iter().map(Key::to_json).collect::<Vec<_>>(),
               "co": self.co.iter().map(Spec::to_json).collect::<Vec<_>>()})
    }
    fn from_json(v: &Value) -> TickScript {
        TickScript {
            ac: arr(&v["ac"]).iter().map(Key::from_json).collect(),
            ao: arr(&v["ao"]).iter().map(Spec::from_json).collect(),
            cc: arr(&v["cc"]).iter().map(Key::from_json).collect(),
            co: arr(&v["co"]).iter().map(Spec::from_json).collect(),
        }
    }
}

fn steps_json(s: &[(Ev, TickScript)]) -> Value {
    Value::Array(s.iter().map(|(e, t)| json!({"ev": e.to_json(), "strat": t.to_json()})).collect())
}
fn steps_from(v: &Value) -> Vec<(Ev, TickScript)> {
    arr(v).iter().map(|x| (Ev::from_json(&x["ev"]), TickScript::from_json(&x["strat"]))).collect()
}

impl Input {
    pub fn to_json(&self) -> Value {
        let p = match &self.perturb {
            Perturb::None => json!({"k": "none"}),
            Perturb::Delete(i) => json!({"k": "delete", "i": i}),
            Perturb::Dup(i) => json!({"k": "dup", "i": i}),
            Perturb::Swap(i) => json!({"k": "swap", "i": i}),
            Perturb::Replay(i) => json!({"k": "replay", "i": i}),
            Perturb::Window(i, n) => json!({"k": "window", "i": i, "n": n}),
            Perturb::Triple(i) => json!({"k": "triple", "i": i}),
        };
        json!({"mode": self.mode, "s_init": self.s_init, "trading0": self.trading0,
               "link": self.link, "hook": self.hook, "pre": steps_json(&self.pre),
               "feed": steps_json(&self.feed), "perturb": p})
    }
    pub fn from_json(v: &Value) -> Input {
        let p = &v["perturb"];
        let pi = us(&p["i"]);
        Input {
            mode: (us(&v["mode"]) % 3) as u8,
            s_init: v["s_init"].as_u64().unwrap_or(0),
            trading0: v["trading0"].as_bool().unwrap_or(false),
            link: (us(&v["link"]) % 3) as u8,
            hook: v["hook"].as_bool().unwrap_or(false),
            pre: steps_from(&v["pre"]),
            feed: steps_from(&v["feed"]),
            perturb: match p["k"].as_str().unwrap_or("none") {
                "delete" => Perturb::Delete(pi),
                "dup" => Perturb::Dup(pi),
                "swap" => Perturb::Swap(pi),
                "replay" => Perturb::Replay(pi),
                "window" => Perturb::Window(pi, us(&p["n"])),
                "triple" => Perturb::Triple(pi),
                _ => Perturb::None,
            },
        }
    }
}

// ---------------------------------------------------------------------------------------------
// engine, strategy, clock
// ---------------------------------------------------------------------------------------------

#[derive(Debug, Clone)]
pub struct FixedClock;
impl EngineClock for FixedClock {
    fn time(&self) -> DateTime<Utc> {
        t0()
    }
}
impl<Event> Processor<&Event> for FixedClock {
    type Audit = ();
    fn process(&mut self, _: &Event) -> Self::Audit {}
}

#[derive(Debug, Clone, PartialEq)]
pub struct HookOut;

#[derive(Debug, Default)]
pub struct Shared {
    pub tick: usize,
    pub scripts: Vec<TickScript>,
}

/// scripted strategy: returns the requests listed for the current tick
#[derive(Debug, Clone)]
pub struct Script {
    pub hook: bool,
    pub shared: Arc<Mutex<Shared>>,
    pub layout: Arc<Layout>,
}

/// index layout of the fixed instrument collection
#[derive(Debug)]
pub struct Layout {
    pub exch_of_instr: Vec<usize>,  // instrument index -> exchange index
    pub exch_of_asset: Vec<usize>,  // asset index -> exchange index
    pub exch_ids: Vec<ExchangeId>,  // exchange index -> id
}

fn strat_id(code: u8) -> StrategyId {
    StrategyId::new(if code == 0 { "s0" } else { "ext" })
}
fn side_of(s: u8) -> Side {
    if s == 0 { Side::Buy } else { Side::Sell }
}
fn kind_of(k: u8) -> OrderKind {
    if k == 0 { OrderKind::Market } else { OrderKind::Limit }
}
fn tif_of(t: u8) -> TimeInForce {
    match t {
        0 => TimeInForce::GoodUntilCancelled { post_only: false },
        1 => TimeInForce::GoodUntilEndOfDay,
        2 => TimeInForce::FillOrKill,
        _ => TimeInForce::ImmediateOrCancel,
    }
}
fn tif_code(t: TimeInForce) -> u8 {
    match t {
        TimeInForce::GoodUntilCancelled { post_only: false } => 0,
        TimeInForce::GoodUntilEndOfDay => 1,
        TimeInForce::FillOrKill => 2,
        TimeInForce::ImmediateOrCancel => 3,
        TimeInForce::GoodUntilCancelled { post_only: true } => 4,
    }
}

impl Layout {
    fn order_key(&self, k: &Key, strat: u8) -> OrderKey<ExchangeIndex, InstrumentIndex> {
        OrderKey {
            exchange: ExchangeIndex(self.exch_of_instr[k.i]),
            instrument: InstrumentIndex(k.i),
            strategy: strat_id(strat),
            cid: ClientOrderId::new(format!("c{}", k.c)),
        }
    }
    fn cancel_req(&self, k: &Key) -> OrderRequestCancel<ExchangeIndex, InstrumentIndex> {
        OrderRequestCancel { key: self.order_key(k, 0), state: RequestCancel { id: None } }
    }
    fn open_req(&self, s: &Spec) -> OrderRequestOpen<ExchangeIndex, InstrumentIndex> {
        OrderRequestOpen {
            key: self.order_key(&s.key(), s.strat),
            state: RequestOpen {
                side: side_of(s.side),
                price: tenths(s.price),
                quantity: tenths(s.qty),
                kind: kind_of(s.kind),
                time_in_force: tif_of(s.tif),
            },
        }
    }
    fn order_report(
        &self,
        s: &Spec,
        st: &OSt,
    ) -> Order<ExchangeIndex, InstrumentIndex, OrderState<AssetIndex, InstrumentIndex>> {
        Order {
            key: self.order_key(&s.key(), s.strat),
            side: side_of(s.side),
            price: tenths(s.price),
            quantity: tenths(s.qty),
            kind: kind_of(s.kind),
            time_in_force: tif_of(s.tif),
            state: st.state(),
        }
    }
    pub fn spec_sf(&self, s: &Spec) -> i128 {
        sf_code(s.price as i128, s.side, s.kind, s.tif, self.exch_of_instr[s.i], s.strat)
    }
    pub fn coq_req(&self, s: &Spec) -> String {
        format!("Rq {} {} {} {}", s.i, s.c, zi128(self.spec_sf(s)), zi(s.qty))
    }
}

impl Script {
    fn current(&self) -> TickScript {
        let sh = self.shared.lock().unwrap();
        sh.scripts.get(sh.tick).cloned().unwrap_or_default()
    }
}

impl AlgoStrategy for Script {
    type State = State;
    fn generate_algo_orders(
        &self,
        _: &Self::State,
    ) -> (
        impl IntoIterator<Item = OrderRequestCancel<ExchangeIndex, InstrumentIndex>>,
        impl IntoIterator<Item = OrderRequestOpen<ExchangeIndex, InstrumentIndex>>,
    ) {
        let s = self.current();
        (
            s.ac.iter().map(|k| self.layout.cancel_req(k)).collect::<Vec<_>>(),
            s.ao.iter().map(|o| self.layout.open_req(o)).collect::<Vec<_>>(),
        )
    }
}

impl ClosePositionsStrategy for Script {
    type State = State;
    fn close_positions_requests<'a>(
        &'a self,
        _: &'a Self::State,
        _: &'a InstrumentFilter<ExchangeIndex, AssetIndex, InstrumentIndex>,
    ) -> (
        impl IntoIterator<Item = OrderRequestCancel<ExchangeIndex, InstrumentIndex>> + 'a,
        impl IntoIterator<Item = OrderRequestOpen<ExchangeIndex, InstrumentIndex>> + 'a,
    )
    where
        ExchangeIndex: 'a,
        AssetIndex: 'a,
        InstrumentIndex: 'a,
    {
        let s = self.current();
        (
            s.cc.iter().map(|k| self.layout.cancel_req(k)).collect::<Vec<_>>(),
            s.co.iter().map(|o| self.layout.open_req(o)).collect::<Vec<_>>(),
        )
    }
}

impl OnDisconnectStrategy<FixedClock, State, Txs, Risk> for Script {
    type OnDisconnect = HookOut;
    fn on_disconnect(engine: &mut Eng, _: ExchangeId) -> Self::OnDisconnect {
        if engine.strategy.hook {
            let _ = engine.cancel_orders(&InstrumentFilter::None);
        }
        HookOut
    }
}

impl OnTradingDisabled<FixedClock, State, Txs, Risk> for Script {
    type OnTradingDisabled = HookOut;
    fn on_trading_disabled(engine: &mut Eng) -> Self::OnTradingDisabled {
        if engine.strategy.hook {
            let _ = engine.cancel_orders(&InstrumentFilter::None);
        }
        HookOut
    }
}

pub struct Built {
    pub engine: Eng,
    pub layout: Arc<Layout>,
    pub shared: Arc<Mutex<Shared>>,
    _rxs: Vec<UnboundedRx<ExecutionRequest>>,
}

pub fn instruments() -> IndexedInstruments {
    use barter_instrument::{
        asset::Asset,
        instrument::{
            kind::{
                InstrumentKind,
                future::FutureContract,
                option::{OptionContract, OptionExercise, OptionKind},
                perpetual::PerpetualContract,
            },
            quote::InstrumentQuoteAsset,
        },
    };
    let expiry = t0() + Duration::days(90);
    IndexedInstruments::builder()
        .add_instrument(Instrument::spot(EXS[0], "x_spot_btc_usdt", "BTCUSDT", Underlying::new("btc", "usdt"), None))
        // perpetual, small contract, settled in the quote asset
        .add_instrument(Instrument::new(
            EXS[0],
            "x_perp_btc_usdt",
            "BTCUSDT-PERP",
            Underlying::new("btc", "usdt"),
            InstrumentQuoteAsset::UnderlyingQuote,
            InstrumentKind::Perpetual(PerpetualContract { contract_size: Decimal::new(1, 3), settlement_asset: Asset::from("usdt") }),
            None,
        ))
        .add_instrument(Instrument::spot(EXS[1], "y_spot_eth_usdt", "ETHUSDT", Underlying::new("eth", "usdt"), None))
        // future, large contract, settled in the base asset (!= quote)
        .add_instrument(Instrument::new(
            EXS[1],
            "y_fut_btc_usd",
            "BTCUSD-FUT",
            Underlying::new("btc", "usd"),
            InstrumentQuoteAsset::UnderlyingQuote,
            InstrumentKind::Future(FutureContract { contract_size: Decimal::new(100, 0), settlement_asset: Asset::from("btc"), expiry }),
            None,
        ))
        // option, contract 0.01, settled in a third asset
        .add_instrument(Instrument::new(
            EXS[2],
            "z_opt_eth_usd",
            "ETHUSD-C-2000",
            Underlying::new("eth", "usd"),
            InstrumentQuoteAsset::UnderlyingQuote,
            InstrumentKind::Option(OptionContract {
                contract_size: Decimal::new(1, 2),
                settlement_asset: Asset::from("usdc"),
                kind: OptionKind::Call,
                exercise: OptionExercise::European,
                expiry,
                strike: Decimal::new(2000, 0),
            }),
            None,
        ))
        .add_instrument(Instrument::spot(EXS[2], "z_spot_btc_usd", "BTCUSD", Underlying::new("btc", "usd"), None))
        .build()
}

pub fn layout_of(ins: &IndexedInstruments) -> Layout {
    let exch_ids: Vec<ExchangeId> = ins.exchanges().iter().map(|k| k.value).collect();
    let ex_index = |id: ExchangeId| exch_ids.iter().position(|e| *e == id).unwrap();
    Layout {
        exch_of_instr: ins.instruments().iter().map(|k| k.value.exchange.key.index()).collect(),
        exch_of_asset: ins.assets().iter().map(|k| ex_index(k.value.exchange)).collect(),
        exch_ids,
    }
}

pub fn build(inp: &Input) -> Built {
    let ins = instruments();
    let layout = Arc::new(layout_of(&ins));
    assert_eq!(layout.exch_of_instr.len(), N_INSTR);
    let state: State = EngineState::builder(&ins, DefaultGlobalData::default(), DefaultInstrumentMarketData::default)
        .time_engine_start(t0())
        .trading_state(if inp.trading0 { TradingState::Enabled } else { TradingState::Disabled })
        .balances([
            (EXS[0], "usdt", Balance::new(tenths(100_000), tenths(100_000))),
            (EXS[0], "btc", Balance::new(tenths(100), tenths(100))),
            (EXS[1], "eth", Balance::new(tenths(700), tenths(650))),
            (EXS[2], "usd", Balance::new(tenths(50_000), tenths(50_000))),
        ])
        .build();
    // the link of the exchange that hosts the last instrument may be broken
    let weak_ex = WEAK_EX;
    let mut rxs = vec![];
    let txs: Txs = layout
        .exch_ids
        .iter()
        .enumerate()
        .map(|(idx, id)| {
            let (tx, rx) = mpsc_unbounded();
            if idx == weak_ex && inp.link == 1 {
                (*id, None)
            } else if idx == weak_ex && inp.link == 2 {
                drop(rx);
                (*id, Some(tx))
            } else {
                rxs.push(rx);
                (*id, Some(tx))
            }
        })
        .collect();
    let shared = Arc::new(Mutex::new(Shared {
        tick: 0,
        scripts: inp.pre.iter().chain(inp.feed.iter()).map(|(_, s)| s.clone()).collect(),
    }));
    let strategy = Script { hook: inp.hook, shared: shared.clone(), layout: layout.clone() };
    let mut engine = Engine::new(FixedClock, state, txs, strategy, DefaultRiskManager::default());
    engine.meta.sequence = Sequence(inp.s_init);
    Built { engine, layout, shared, _rxs: rxs }
}

pub fn bad_instruments(inp: &Input, layout: &Layout) -> Vec<usize> {
    if inp.link == 0 {
        return vec![];
    }
    let weak_ex = WEAK_EX;
    (0..N_INSTR).filter(|i| layout.exch_of_instr[*i] == weak_ex).collect()
}

fn many<T>(v: Vec<T>) -> OneOrMany<T> {
    v.into_iter().collect()
}
fn filter_of(f: &Option<Vec<usize>>) -> InstrumentFilter<ExchangeIndex, AssetIndex, InstrumentIndex> {
    match f {
        None => InstrumentFilter::None,
        Some(v) => InstrumentFilter::Instruments(many(v.iter().map(|i| InstrumentIndex(*i)).collect())),
    }
}

fn balance_of(b: &BalIn, n_assets: usize) -> AssetBalance<AssetIndex> {
    AssetBalance {
        asset: AssetIndex(b.asset % n_assets),
        balance: Balance::new(tenths(b.total), tenths(b.free)),
        time_exchange: at(b.t),
    }
}

/// the real EngineEvent for an input event
pub fn engine_event(ev: &Ev, l: &Layout) -> EngineEvent<DataKind> {
    let n_assets = l.exch_of_asset.len();
    let account = |exchange: usize, kind: AccountEventKind<ExchangeIndex, AssetIndex, InstrumentIndex>| {
        EngineEvent::Account(AccountStreamEvent::Item(AccountEvent { exchange: ExchangeIndex(exchange), kind }))
    };
    match ev {
        Ev::Shutdown => EngineEvent::shutdown(),
        Ev::CmdCancels(ks) => EngineEvent::Command(Command::SendCancelRequests(many(
            ks.iter().map(|k| l.cancel_req(k)).collect(),
        ))),
        Ev::CmdOpens(os) => EngineEvent::Command(Command::SendOpenRequests(many(
            os.iter().map(|o| l.open_req(o)).collect(),
        ))),
        Ev::CmdClose(f) => EngineEvent::Command(Command::ClosePositions(filter_of(f))),
        Ev::CmdCancelOrders(f) => EngineEvent::Command(Command::CancelOrders(filter_of(f))),
        Ev::Trading(b) => EngineEvent::TradingStateUpdate(if *b { TradingState::Enabled } else { TradingState::Disabled }),
        Ev::AccReconn(x) => EngineEvent::Account(AccountStreamEvent::Reconnecting(EXS[*x])),
        Ev::MktReconn(x) => EngineEvent::Market(MarketStreamEvent::Reconnecting(EXS[*x])),
        Ev::Balance(b) => account(
            l.exch_of_asset[b.asset % n_assets],
            AccountEventKind::BalanceSnapshot(Snapshot(balance_of(b, n_assets))),
        ),
        Ev::Order(s, st) => account(
            l.exch_of_instr[s.i],
            AccountEventKind::OrderSnapshot(Snapshot(l.order_report(s, st))),
        ),
        Ev::CancelResp { key, ok, t, err } => account(
            l.exch_of_instr[key.i],
            AccountEventKind::OrderCancelled(barter_execution::order::OrderEvent {
                key: l.order_key(key, 0),
                state: if *ok {
                    Ok(Cancelled { id: OrderId::new("o0"), time_exchange: at(*t) })
                } else {
                    Err(order_error(*err))
                },
            }),
        ),
        Ev::Trade { i, side, price, qty, fee, t, n } => account(
            l.exch_of_instr[*i],
            AccountEventKind::Trade(Trade {
                id: TradeId::new(format!("t{n}")),
                order_id: OrderId::new(format!("o{n}")),
                instrument: InstrumentIndex(*i),
                strategy: strat_id(0),
                time_exchange: at(*t),
                side: side_of(*side),
                price: tenths(*price),
                quantity: tenths(*qty),
                fees: AssetFees::quote_fees(tenths(*fee)),
            }),
        ),
        Ev::Snapshot { ex, balances, orders } => {
            let exi = l.exch_ids.iter().position(|e| *e == EXS[*ex]).unwrap();
            account(
                exi,
                AccountEventKind::Snapshot(AccountSnapshot {
                    exchange: ExchangeIndex(exi),
                    balances: balances.iter().map(|b| balance_of(b, n_assets)).collect(),
                    instruments: {
                        let mut v: Vec<InstrumentAccountSnapshot<ExchangeIndex, AssetIndex, InstrumentIndex>> = vec![];
                        for (s, st) in orders {
                            match v.last_mut() {
                                Some(last) if last.instrument == InstrumentIndex(s.i) => last.orders.push(l.order_report(s, st)),
                                _ => v.push(InstrumentAccountSnapshot {
                                    instrument: InstrumentIndex(s.i),
                                    orders: vec![l.order_report(s, st)],
                                }),
                            }
                        }
                        v
                    },
                }),
            )
        }
        Ev::MktTrade { i, price, t } => EngineEvent::Market(MarketStreamEvent::Item(MarketEvent {
            time_exchange: at(*t),
            time_received: at(*t),
            exchange: l.exch_ids[l.exch_of_instr[*i]],
            instrument: InstrumentIndex(*i),
            kind: DataKind::Trade(PublicTrade {
                id: format!("{t}"),
                price: *price as f64 / 4.0,
                amount: 1.0,
                side: Side::Buy,
            }),
        })),
        Ev::MktBook { i, t, snapshot } => {
            let book = barter_data::books::OrderBook::new(
                7,
                Some(at(*t)),
                vec![Level::new(Decimal::new(9990, 1), Decimal::new(3, 0))],
                vec![Level::new(Decimal::new(10010, 1), Decimal::new(4, 0))],
            );
            EngineEvent::Market(MarketStreamEvent::Item(MarketEvent {
                time_exchange: at(*t),
                time_received: at(*t),
                exchange: l.exch_ids[l.exch_of_instr[*i]],
                instrument: InstrumentIndex(*i),
                kind: DataKind::OrderBook(if *snapshot {
                    barter_data::subscription::book::OrderBookEvent::Snapshot(book)
                } else {
                    barter_data::subscription::book::OrderBookEvent::Update(book)
                }),
            }))
        }
        Ev::Late(inner, lat) => {
            let mut e = engine_event(inner, l);
            if let EngineEvent::Market(MarketStreamEvent::Item(m)) = &mut e {
                m.time_received = m.time_exchange + Duration::nanoseconds(*lat);
            }
            e
        }
        Ev::MktCandle { i, t } => EngineEvent::Market(MarketStreamEvent::Item(MarketEvent {
            time_exchange: at(*t),
            time_received: at(*t),
            exchange: l.exch_ids[l.exch_of_instr[*i]],
            instrument: InstrumentIndex(*i),
            kind: DataKind::Candle(barter_data::subscription::candle::Candle {
                close_time: at(*t),
                open: 1.0,
                high: 3.0,
                low: 0.5,
                close: 2.0,
                volume: 10.0,
                trade_count: 4,
            }),
        })),
        Ev::MktLiq { i, t } => EngineEvent::Market(MarketStreamEvent::Item(MarketEvent {
            time_exchange: at(*t),
            time_received: at(*t),
            exchange: l.exch_ids[l.exch_of_instr[*i]],
            instrument: InstrumentIndex(*i),
            kind: DataKind::Liquidation(barter_data::subscription::liquidation::Liquidation {
                side: Side::Sell,
                price: 77.0,
                quantity: 2.0,
                time: at(*t),
            }),
        })),
        Ev::MktL1 { i, bid, ask, t, sides } => EngineEvent::Market(MarketStreamEvent::Item(MarketEvent {
            time_exchange: at(*t),
            time_received: at(*t),
            exchange: l.exch_ids[l.exch_of_instr[*i]],
            instrument: InstrumentIndex(*i),
            kind: DataKind::OrderBookL1(OrderBookL1 {
                last_update_time: at(*t),
                best_bid: (*sides == 0 || *sides == 1).then(|| Level::new(Decimal::new(*bid, 2), Decimal::new(10, 0))),
                best_ask: (*sides == 0 || *sides == 2).then(|| Level::new(Decimal::new(*ask, 2), Decimal::new(20, 0))),
            }),
        })),
    }
}

/// the Coq term of an input event (Corr/C10.v)
pub fn coq_event(ev: &Ev, l: &Layout) -> String {
    let snap = |s: &Spec, st: &OSt| {
        format!("OSnap ({}) {} {} {}", s.key().coq(), zi128(l.spec_sf(s)), zi(s.qty), st.coq())
    };
    let filt = |f: &Option<Vec<usize>>| match f {
        None => "FAll".to_string(),
        Some(v) => format!("(FInstruments ({})%Z)", list(&v.iter().map(|i| i.to_string()).collect::<Vec<_>>())),
    };
    match ev {
        Ev::Shutdown => "EvShutdown".into(),
        Ev::CmdCancels(ks) => format!("(EvCommand (CmdSendCancels {}))", list(&ks.iter().map(Key::coq).collect::<Vec<_>>())),
        Ev::CmdOpens(os) => format!("(EvCommand (CmdSendOpens {}))", list(&os.iter().map(|o| l.coq_req(o)).collect::<Vec<_>>())),
        Ev::CmdClose(f) => format!("(EvCommand (CmdClosePositions {}))", filt(f)),
        Ev::CmdCancelOrders(f) => format!("(EvCommand (CmdCancelOrders {}))", filt(f)),
        Ev::Trading(b) => format!("(EvTrading {})", b),
        Ev::AccReconn(x) => format!("(EvAccReconn {})", x),
        Ev::MktReconn(x) => format!("(EvMktReconn {})", x),
        Ev::Balance(_) | Ev::Trade { .. } => "(EA [])".into(),
        Ev::Order(s, st) => format!("(EA [{}])", snap(s, st)),
        Ev::CancelResp { key, ok, .. } => format!("(EA [OCancelResp ({}) {}])", key.coq(), ok),
        Ev::Snapshot { orders, .. } => format!("(EA {})", list(&orders.iter().map(|(s, st)| snap(s, st)).collect::<Vec<_>>())),
        Ev::MktTrade { .. } | Ev::MktL1 { .. } | Ev::MktBook { .. } | Ev::MktCandle { .. } | Ev::MktLiq { .. } => "EM".into(),
        Ev::Late(inner, _) => coq_event(inner, l),
    }
}

pub fn coq_strat(s: &TickScript, l: &Layout) -> String {
    if s.is_empty() {
        return "S0".into();
    }
    format!(
        "(mkStrat {} {} {} {})",
        list(&s.ac.iter().map(Key::coq).collect::<Vec<_>>()),
        list(&s.ao.iter().map(|o| l.coq_req(o)).collect::<Vec<_>>()),
        list(&s.cc.iter().map(Key::coq).collect::<Vec<_>>()),
        list(&s.co.iter().map(|o| l.coq_req(o)).collect::<Vec<_>>())
    )
}

// ---------------------------------------------------------------------------------------------
// observation
// ---------------------------------------------------------------------------------------------

fn num_of(s: &str, prefix: char) -> u64 {
    s.strip_prefix(prefix).and_then(|r| r.parse().ok()).unwrap_or(999_999)
}

fn coq_meta(o: &Open) -> String {
    format!(
        "(M {} {} {})",
        num_of(o.id.0.as_str(), 'o'),
        zi((o.time_exchange - t0()).num_nanoseconds().expect("ns offset fits i64")),
        zi128(dec_scaled(o.filled_quantity, 1))
    )
}

/// canonical order list of a state: sorted by (instrument, cid)
pub fn coq_orders(st: &State) -> String {
    let mut v: Vec<((usize, u64), String)> = vec![];
    for is in st.instruments.0.values() {
        for o in is.orders.0.values() {
            let i = is.key.index();
            let c = num_of(o.key.cid.0.as_str(), 'c');
            let strat = if o.key.strategy.0.as_str() == "s0" { 0 } else { 1 };
            let sf = sf_code(
                dec_scaled(o.price, 1),
                if o.side == Side::Buy { 0 } else { 1 },
                if o.kind == OrderKind::Market { 0 } else { 1 },
                tif_code(o.time_in_force),
                o.key.exchange.index(),
                strat,
            );
            let s = match &o.state {
                ActiveOrderState::OpenInFlight(_) => "OIF".to_string(),
                ActiveOrderState::Open(m) => format!("(Open {})", coq_meta(m)),
                ActiveOrderState::CancelInFlight(c) => match &c.order {
                    None => "(CIF None)".to_string(),
                    Some(m) => format!("(CIF (Some {}))", coq_meta(m)),
                },
            };
            // an order filed under another instrument than its key says would be a finding
            let ki = o.key.instrument.index();
            let i_obs = if ki == i { i } else { 100 + i * 10 + ki };
            v.push(((i_obs, c), format!("Od {} {} {} {} {}", i_obs, c, zi128(sf), zi128(dec_scaled(o.quantity, 1)), s)));
        }
    }
    v.sort();
    list(&v.into_iter().map(|(_, s)| s).collect::<Vec<_>>())
}

fn without_orders(st: &State) -> State {
    let mut s = st.clone();
    for is in s.instruments.0.values_mut() {
        is.orders = Orders::default();
    }
    s
}

/// engine-vs-replica comparison of everything but the orders
fn coq_cmp(e: &State, r: &State) -> String {
    let pair = || e.instruments.0.values().zip(r.instruments.0.values());
    let same_len = e.instruments.0.len() == r.instruments.0.len();
    let flags = [
        e.trading == r.trading,
        e.connectivity == r.connectivity,
        e.assets == r.assets,
        same_len && pair().all(|(a, b)| a.position == b.position),
        same_len && pair().all(|(a, b)| a.data == b.data),
        same_len && pair().all(|(a, b)| a.tear_sheet == b.tear_sheet),
        without_orders(e) == without_orders(r),
    ];
    format!("(Some (mkC {}))", flags.iter().map(|f| b(*f)).collect::<Vec<_>>().join(" "))
}

fn sent_keys<K>(out: &SendRequestsOutput<K, ExchangeIndex, InstrumentIndex>) -> Vec<Key> {
    let mut v: Vec<Key> = out
        .sent
        .iter()
        .map(|r| Key { i: r.key.instrument.index(), c: num_of(r.key.cid.0.as_str(), 'c') })
        .collect();
    v.sort();
    v
}
fn coq_keys(v: &[Key]) -> String {
    list(&v.iter().map(Key::coq).collect::<Vec<_>>())
}

struct TickObs {
    coq: String,
    seq: u64,
    process: bool,
    terminal: bool,
    errors: bool,
    n_sent: usize,
}

fn observe_tick(t: &Tick, fed: Option<&EngineEvent<DataKind>>) -> TickObs {
    let terminal = t.event.is_terminal();
    match &t.event {
        EngineAudit::FeedEnded => TickObs {
            coq: format!("(mkT {} false {} {} false (mkOuts None false None))", t.context.sequence.0, b(fed.is_none()), b(terminal)),
            seq: t.context.sequence.0,
            process: false,
            terminal,
            errors: false,
            n_sent: 0,
        },
        EngineAudit::Process(p) => {
            let same = fed.is_some_and(|e| *e == p.event);
            let mut cmd: Option<(Vec<Key>, Vec<Key>)> = None;
            let mut algo: Option<(Vec<Key>, Vec<Key>)> = None;
            let mut hook = false;
            let merge = |slot: &mut Option<(Vec<Key>, Vec<Key>)>, c: Vec<Key>, o: Vec<Key>| match slot {
                None => *slot = Some((c, o)),
                Some((c0, o0)) => {
                    c0.extend(c);
                    o0.extend(o);
                }
            };
            for out in p.outputs.iter() {
                match out {
                    EngineOutput::Commanded(a) => match a {
                        ActionOutput::CancelOrders(c) => merge(&mut cmd, sent_keys(c), vec![]),
                        ActionOutput::OpenOrders(o) => merge(&mut cmd, vec![], sent_keys(o)),
                        ActionOutput::ClosePositions(co) => merge(&mut cmd, sent_keys(&co.cancels), sent_keys(&co.opens)),
                        ActionOutput::GenerateAlgoOrders(g) => merge(
                            &mut cmd,
                            sent_keys(&g.cancels_and_opens.cancels),
                            sent_keys(&g.cancels_and_opens.opens),
                        ),
                    },
                    EngineOutput::OnTradingDisabled(_)
                    | EngineOutput::AccountDisconnect(_)
                    | EngineOutput::MarketDisconnect(_) => hook = true,
                    EngineOutput::PositionExit(_) => {}
                    EngineOutput::AlgoOrders(g) => merge(
                        &mut algo,
                        sent_keys(&g.cancels_and_opens.cancels),
                        sent_keys(&g.cancels_and_opens.opens),
                    ),
                }
            }
            let n_sent = cmd.as_ref().map_or(0, |(c, o)| c.len() + o.len())
                + algo.as_ref().map_or(0, |(c, o)| c.len() + o.len());
            let po = |x: &Option<(Vec<Key>, Vec<Key>)>| match x {
                None => "None".to_string(),
                Some((c, o)) => format!("(Some ({}, {}))", coq_keys(c), coq_keys(o)),
            };
            let errors = !p.errors.is_empty();
            TickObs {
                coq: format!(
                    "(mkT {} true {} {} {} (mkOuts {} {} {}))",
                    t.context.sequence.0,
                    b(same),
                    b(terminal),
                    b(errors),
                    po(&cmd),
                    b(hook),
                    po(&algo)
                ),
                seq: t.context.sequence.0,
                process: true,
                terminal,
                errors,
                n_sent,
            }
        }
    }
}

fn coq_eng(e: &Eng) -> String {
    format!(
        "(Some (mkE {} {} {}))",
        e.meta.sequence.0,
        b(e.state.trading == TradingState::Enabled),
        coq_orders(&e.state)
    )
}

type VecMgr = StateReplicaManager<State, std::vec::IntoIter<Tick>>;

fn coq_rep(fseq: u64, fproc: bool, ok: bool, rep: &AuditTick<State, EngineContext>, unchanged: bool, cmp: Option<String>) -> String {
    format!(
        "(mkR {} {} {} {} {} {} {} {})",
        fseq,
        b(fproc),
        b(ok),
        rep.context.sequence.0,
        b(rep.event.trading == TradingState::Enabled),
        coq_orders(&rep.event),
        b(unchanged),
        cmp.unwrap_or_else(|| "None".into())
    )
}

struct FeedIter {
    evs: std::vec::IntoIter<EngineEvent<DataKind>>,
    shared: Arc<Mutex<Shared>>,
    next_tick: usize,
}
impl Iterator for FeedIter {
    type Item = EngineEvent<DataKind>;
    fn next(&mut self) -> Option<Self::Item> {
        let e = self.evs.next()?;
        self.shared.lock().unwrap().tick = self.next_tick;
        self.next_tick += 1;
        Some(e)
    }
}

pub fn perturb<T: Clone>(p: &Perturb, mut v: Vec<T>) -> Vec<T> {
    match p {
        Perturb::None => {}
        Perturb::Delete(i) => {
            if *i < v.len() {
                v.remove(*i);
            }
        }
        Perturb::Dup(i) => {
            if *i < v.len() {
                let x = v[*i].clone();
                v.insert(*i, x);
            }
        }
        Perturb::Swap(i) => {
            if *i + 1 < v.len() {
                v.swap(*i, *i + 1);
            }
        }
        Perturb::Replay(i) => {
            if *i < v.len() {
                let x = v[*i].clone();
                v.push(x);
            }
        }
        Perturb::Triple(i) => {
            if *i < v.len() {
                let x = v[*i].clone();
                v.insert(*i, x.clone());
                v.insert(*i, x);
            }
        }
        Perturb::Window(i, n) => {
            if *i < v.len() {
                let w: Vec<T> = v[*i..(*i + *n).min(v.len())].to_vec();
                v.extend(w);
            }
        }
    }
    v
}

pub fn run_case(inp: &Input, stream: &'static str) -> Case {
    let inp2 = inp.clone();
    match catch(AssertUnwindSafe(move || run_case_inner(&inp2, stream))) {
        Ok(c) => c,
        Err(msg) => {
            // a fill of quantity zero is outside the input requirements (position.rs divides by
            // the fill / position quantity): such a panic is recorded, not judged
            let zero_fill = inp.pre.iter().chain(inp.feed.iter()).any(|(e, _)| matches!(e, Ev::Trade { qty: 0, .. }));
            Case {
                stream,
                input: inp.to_json(),
                coq: if zero_fill { "CExcluded".into() } else { "CPanic".into() },
                nontrivial: false,
                tags: vec![if zero_fill {
                    "panic_excluded_zero_quantity_fill".to_string()
                } else {
                    format!("panic:{}", msg.chars().take(60).collect::<String>())
                }],
            }
        }
    }
}

fn run_case_inner(inp: &Input, stream: &'static str) -> Case {
    let mut tags: Vec<String> = vec![];
    let Built { mut engine, layout, shared, _rxs } = build(inp);
    let l = &*layout;
    let pre_evs: Vec<EngineEvent<DataKind>> = inp.pre.iter().map(|(e, _)| engine_event(e, l)).collect();
    let feed_evs: Vec<EngineEvent<DataKind>> = inp.feed.iter().map(|(e, _)| engine_event(e, l)).collect();
    for (e, s) in inp.pre.iter().chain(inp.feed.iter()) {
        tags.push(e.tag().to_string());
        match e {
            Ev::Order(sp, st) => {
                tags.push(st.tag().to_string());
                if sp.qty == 0 {
                    tags.push("order_zero_quantity".into());
                }
                if let OSt::Open(m) = st {
                    if m.filled > sp.qty {
                        tags.push("order_overfilled".into());
                    }
                }
            }
            Ev::Snapshot { orders, .. } => orders.iter().for_each(|(_, st)| tags.push(st.tag().to_string())),
            Ev::Late(_, lat) => tags.push(
                if *lat < 0 { "market_received_before_exchange" } else if *lat == 0 { "market_latency_zero" } else { "market_latency_positive" }.to_string(),
            ),
            Ev::Trade { qty: 0, .. } => tags.push("trade_zero_quantity".into()),
            _ => {}
        }
        if !s.is_empty() {
            tags.push("strategy_script_nonempty".into());
        }
    }

    // ---- pre-roll, then the snapshot ---------------------------------------------------------
    for (k, e) in pre_evs.iter().enumerate() {
        shared.lock().unwrap().tick = k;
        let _ = process_with_audit(&mut engine, e.clone());
    }
    let snapshot: AuditTick<State, EngineContext> = Auditor::<Audit>::audit_snapshot(&mut engine);
    let snap_eq = snapshot.event == engine.state;
    if engine.state.instruments.0.values().any(|is| {
        is.orders.0.values().any(|o| !matches!(o.state, ActiveOrderState::Open(_)))
    }) {
        tags.push("snapshot_with_in_flight_markers".into());
    }

    // ---- the engine's audit ticks --------------------------------------------------------------
    let base = inp.pre.len();
    let mut ticks: Vec<Tick> = vec![];
    let mut eng_obs: Vec<String> = vec![];
    let mut eng_states: Vec<Option<State>> = vec![];
    match inp.mode {
        0 => {
            for (k, e) in feed_evs.iter().enumerate() {
                shared.lock().unwrap().tick = base + k;
                let t = process_with_audit(&mut engine, e.clone());
                ticks.push(t);
                eng_obs.push(coq_eng(&engine));
                eng_states.push(Some(engine.state.clone()));
            }
        }
        m => {
            let (tx, mut rx) = mpsc_unbounded::<Tick>();
            let mut audit_tx = ChannelTxDroppable::new(tx);
            let mut feed = FeedIter { evs: feed_evs.clone().into_iter(), shared: shared.clone(), next_tick: base };
            if m == 1 {
                let _ = sync_run_with_audit(&mut feed, &mut engine, &mut audit_tx);
            } else {
                let rt = tokio::runtime::Builder::new_current_thread().enable_all().build().unwrap();
                let mut st = futures::stream::iter(feed);
                let _ = rt.block_on(async_run_with_audit(&mut st, &mut engine, &mut audit_tx));
            }
            drop(audit_tx);
            while let Ok(t) = rx.rx.try_recv() {
                ticks.push(t);
            }
            let n = ticks.len();
            for k in 0..n {
                if k + 1 == n {
                    eng_obs.push(coq_eng(&engine));
                    eng_states.push(Some(engine.state.clone()));
                } else {
                    eng_obs.push("None".into());
                    eng_states.push(None);
                }
            }
        }
    }
    let tobs: Vec<TickObs> = ticks.iter().enumerate().map(|(k, t)| observe_tick(t, feed_evs.get(k))).collect();
    for t in &tobs {
        tags.push(if !t.process { "tick_feed_ended" } else if t.errors { "tick_fatal" } else if t.terminal { "tick_shutdown" } else { "tick_process" }.into());
        if t.n_sent > 0 {
            tags.push("tick_with_sent_requests".into());
        }
    }
    let _ = tobs.iter().map(|t| t.seq).count();

    // ---- the replica, tick by tick -----------------------------------------------------------------
    let unperturbed = inp.perturb == Perturb::None;
    let fed: Vec<(Tick, Option<State>)> = perturb(
        &inp.perturb,
        ticks.iter().cloned().zip(eng_states.iter().cloned()).collect(),
    );
    let mut mgr: VecMgr = StateReplicaManager::new(snapshot.clone(), Vec::new().into_iter());
    let mut rep_obs: Vec<String> = vec![];
    for (t, est) in &fed {
        let before = mgr.state_replica.clone();
        mgr.updates = vec![t.clone()].into_iter();
        let res = mgr.run::<HookOut, HookOut>();
        let unchanged = mgr.state_replica == before;
        let fproc = matches!(t.event, EngineAudit::Process(_));
        let cmp = match (unperturbed, est) {
            (true, Some(es)) => Some(coq_cmp(es, mgr.replica_engine_state())),
            _ => None,
        };
        tags.push(
            if res.is_err() { "replica_err" } else if !fproc { "replica_feed_ended" } else if unchanged { "replica_skipped" } else { "replica_applied" }.into(),
        );
        rep_obs.push(coq_rep(t.context.sequence.0, fproc, res.is_ok(), &mgr.state_replica, unchanged, cmp));
    }

    // ---- the replica wired as in the system: snapshot + channel receiver ---------------------------
    let (wtx, wrx) = mpsc_unbounded::<Tick>();
    for (t, _) in &fed {
        let _ = wtx.tx.send(t.clone());
    }
    drop(wtx);
    let mut whole: StateReplicaManager<State, UnboundedRx<Tick>> = StateReplicaManager::new(snapshot.clone(), wrx);
    let wres = whole.run::<HookOut, HookOut>();
    // compare with the engine as it was after the last tick this run() applied (process_with_audit
    // goes on after a terminal tick, run() does not); for a runner that is the final engine
    let wcmp = if unperturbed {
        let wseq = whole.state_replica.context.sequence.0;
        let at_stop: Option<&State> = if inp.mode == 0 {
            if wseq == snapshot.context.sequence.0 {
                Some(&snapshot.event)
            } else {
                ticks
                    .iter()
                    .zip(eng_states.iter())
                    .find(|(t, _)| t.context.sequence.0 == wseq)
                    .and_then(|(_, s)| s.as_ref())
            }
        } else {
            Some(&engine.state)
        };
        Some(match at_stop {
            Some(es) => coq_cmp(es, whole.replica_engine_state()),
            None => "(Some (mkC false false false false false false false))".to_string(),
        })
    } else {
        None
    };
    let whole_obs = coq_rep(0, false, wres.is_ok(), &whole.state_replica, whole.state_replica == snapshot, wcmp);
    tags.push(if wres.is_ok() { "whole_run_ok" } else { "whole_run_err" }.into());

    // ---- the case ---------------------------------------------------------------------------------------
    let step = |(e, s): &(Ev, TickScript)| format!("({}, {})", coq_event(e, l), coq_strat(s, l));
    let bad = bad_instruments(inp, l);
    let coq = format!(
        "(mkCase {} {} {} ({})%Z {} {} {} {} {} {} {} {} {} {} {} {})",
        ["Manual", "Sync", "Async"][inp.mode as usize],
        inp.s_init,
        b(inp.trading0),
        list(&bad.iter().map(|i| i.to_string()).collect::<Vec<_>>()),
        b(inp.hook),
        list(&inp.pre.iter().map(step).collect::<Vec<_>>()),
        list(&inp.feed.iter().map(step).collect::<Vec<_>>()),
        match &inp.perturb {
            Perturb::None => "PNone".to_string(),
            Perturb::Delete(i) => format!("(PDelete {})", i),
            Perturb::Dup(i) => format!("(PDup {})", i),
            Perturb::Swap(i) => format!("(PSwap {})", i),
            Perturb::Replay(i) => format!("(PReplay {})", i),
            Perturb::Window(i, n) => format!("(PWindow {} {})", i, n),
            Perturb::Triple(i) => format!("(PTriple {})", i),
        },
        snapshot.context.sequence.0,
        b(snapshot.event.trading == TradingState::Enabled),
        coq_orders(&snapshot.event),
        b(snap_eq),
        list(&tobs.iter().map(|t| t.coq.clone()).collect::<Vec<_>>()),
        list(&eng_obs),
        list(&rep_obs),
        whole_obs
    );
    tags.push(format!("mode_{}", ["manual", "sync", "async"][inp.mode as usize]));
    tags.push(format!("link_{}", inp.link));
    if inp.hook {
        tags.push("hook_cancels_all".into());
    }
    tags.push(match &inp.perturb {
        Perturb::None => "perturb_none",
        Perturb::Delete(_) => "perturb_delete",
        Perturb::Dup(_) => "perturb_dup",
        Perturb::Swap(_) => "perturb_swap",
        Perturb::Replay(_) => "perturb_replay",
        Perturb::Window(..) => "perturb_window",
        Perturb::Triple(_) => "perturb_triple",
    }.into());
    tags.sort();
    tags.dedup();
    Case { stream, input: inp.to_json(), coq, nontrivial: !inp.feed.is_empty(), tags }
}
