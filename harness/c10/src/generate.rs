//! Case generators (table / random / adversarial). Every random choice comes from the one Rng.
use crate::model::*;
use vh_common::*;

/// times are nanoseconds; MS = one millisecond
const MS: i64 = 1_000_000;

/// instruments by role: two on the first exchange, one on the MIDDLE exchange (whose link can be
/// broken), one on the last exchange
struct Topo {
    g0: usize,
    g1: usize,
    bad: usize,
    far: usize,
}
fn topo() -> Topo {
    let l = layout_of(&instruments());
    let on = |ex: usize| (0..N_INSTR).filter(|i| l.exch_of_instr[*i] == ex).collect::<Vec<_>>();
    Topo { g0: on(0)[0], g1: on(0)[1], bad: on(WEAK_EX)[0], far: on(2)[0] }
}

fn ts() -> TickScript {
    TickScript::default()
}
fn step(e: Ev) -> (Ev, TickScript) {
    (e, ts())
}
fn spec(i: usize, c: u64) -> Spec {
    Spec { i, c, side: (c % 2) as u8, price: 1000 + 10 * c as i64, qty: 50, kind: 1, tif: 0, strat: 0 }
}
fn open(oid: u64, t: i64, filled: i64) -> OSt {
    OSt::Open(MetaIn { oid, t, filled })
}
fn key(i: usize, c: u64) -> Key {
    Key { i, c }
}
fn input(mode: u8, pre: Vec<(Ev, TickScript)>, feed: Vec<(Ev, TickScript)>) -> Input {
    Input { mode, s_init: 0, trading0: false, link: 0, hook: false, pre, feed, perturb: Perturb::None }
}

// ---------------------------------------------------------------------------------------------
// table A: every (engine, replica) state pair of one order x every order-relevant event
// ---------------------------------------------------------------------------------------------
fn table_orders(em: &mut Emitter) {
    let s = spec(0, 1);
    let k = key(0, 1);
    let m0 = || open(1, 100 * MS, 10);
    let setups: Vec<(&str, Vec<Ev>, Vec<Ev>)> = vec![
        ("none_none", vec![], vec![]),
        ("oif_none", vec![], vec![Ev::CmdOpens(vec![s.clone()])]),
        ("oif_oif", vec![Ev::CmdOpens(vec![s.clone()])], vec![]),
        ("open_open", vec![Ev::Order(s.clone(), m0())], vec![]),
        ("cifnone_none", vec![], vec![Ev::CmdOpens(vec![s.clone()]), Ev::CmdCancels(vec![k.clone()])]),
        ("cifnone_oif", vec![Ev::CmdOpens(vec![s.clone()])], vec![Ev::CmdCancels(vec![k.clone()])]),
        ("cifnone_cifnone", vec![Ev::CmdOpens(vec![s.clone()]), Ev::CmdCancels(vec![k.clone()])], vec![]),
        ("cifsome_open", vec![Ev::Order(s.clone(), m0())], vec![Ev::CmdCancels(vec![k.clone()])]),
        ("cifsome_cifsome", vec![Ev::Order(s.clone(), m0()), Ev::CmdCancels(vec![k.clone()])], vec![]),
        ("open_after_oif", vec![], vec![Ev::CmdOpens(vec![s.clone()]), Ev::Order(s.clone(), m0())]),
    ];
    let fresh = spec(0, 2);
    let ops: Vec<(&str, (Ev, TickScript))> = vec![
        ("open_newer_partial", step(Ev::Order(s.clone(), open(1, 200 * MS, 20)))),
        ("open_equal_t", step(Ev::Order(s.clone(), open(1, 100 * MS, 30)))),
        ("open_plus_1ns", step(Ev::Order(s.clone(), open(1, 100 * MS + 1, 30)))),
        ("open_minus_1ns", step(Ev::Order(s.clone(), open(1, 100 * MS - 1, 30)))),
        ("open_same_ms_later", step(Ev::Order(s.clone(), open(1, 100 * MS + 999_999, 30)))),
        ("open_same_sec_earlier", step(Ev::Order(s.clone(), open(1, 100 * MS - 99 * MS, 30)))),
        ("open_older", step(Ev::Order(s.clone(), open(1, 50 * MS, 5)))),
        ("open_newer_full", step(Ev::Order(s.clone(), open(1, 200 * MS, 50)))),
        ("open_equal_t_full", step(Ev::Order(s.clone(), open(1, 100 * MS, 50)))),
        ("open_older_full", step(Ev::Order(s.clone(), open(1, 50 * MS, 50)))),
        ("open_newer_overfilled", step(Ev::Order(s.clone(), open(1, 200 * MS, 55)))),
        ("open_equal_t_overfilled", step(Ev::Order(s.clone(), open(1, 100 * MS, 51)))),
        ("open_zero_quantity", step(Ev::Order(Spec { qty: 0, ..s.clone() }, open(1, 200 * MS, 0)))),
        ("cancelled", step(Ev::Order(s.clone(), OSt::Cancelled(210 * MS)))),
        ("filled", step(Ev::Order(s.clone(), OSt::Filled))),
        ("expired", step(Ev::Order(s.clone(), OSt::Expired))),
        ("failed", step(Ev::Order(s.clone(), OSt::Failed(6)))),
        ("cancel_ok", step(Ev::CancelResp { key: k.clone(), ok: true, t: 220 * MS, err: 0 })),
        ("cancel_err", step(Ev::CancelResp { key: k.clone(), ok: false, t: 220 * MS, err: 8 })),
        ("cmd_cancel", step(Ev::CmdCancels(vec![k.clone()]))),
        ("cmd_cancel_all", step(Ev::CmdCancelOrders(None))),
        ("cmd_cancel_instr0", step(Ev::CmdCancelOrders(Some(vec![0])))),
        ("cmd_cancel_instr1", step(Ev::CmdCancelOrders(Some(vec![1])))),
        ("cmd_open_fresh", step(Ev::CmdOpens(vec![fresh.clone()]))),
        ("cmd_close", (Ev::CmdClose(None), TickScript { co: vec![fresh.clone()], cc: vec![k.clone()], ..ts() })),
        ("trade", step(Ev::Trade { i: 0, side: 0, price: 1000, qty: 10, fee: 1, t: 230 * MS, n: 1 })),
        ("balance", step(Ev::Balance(BalIn { asset: 1, total: 5000, free: 4000, t: 230 * MS }))),
        ("market", step(Ev::MktTrade { i: 0, price: 401, t: 230 * MS })),
        ("algo", (Ev::Trading(true), TickScript { ac: vec![k.clone()], ao: vec![fresh.clone()], ..ts() })),
        ("account_snapshot", step(Ev::Snapshot {
            ex: 0,
            balances: vec![BalIn { asset: 0, total: 70, free: 60, t: 240 * MS }],
            orders: vec![(s.clone(), open(1, 200 * MS, 20)), (spec(0, 8), open(8, 200 * MS, 0)), (spec(1, 9), open(9, 200 * MS, 0))],
        })),
    ];
    for (sname, pre, post) in &setups {
        for (oname, op) in &ops {
            let mut feed: Vec<(Ev, TickScript)> = post.iter().cloned().map(step).collect();
            feed.push(op.clone());
            // the follow-up repeats the timestamp of the "newer" ops: one more tie
            feed.push(step(Ev::Order(s.clone(), open(1, 200 * MS, 25))));
            feed.push(step(Ev::CancelResp { key: k.clone(), ok: false, t: 310 * MS, err: 2 }));
            feed.push(step(Ev::Order(s.clone(), open(1, 300 * MS, 26))));
            let inp = input(0, pre.iter().cloned().map(step).collect(), feed);
            let mut c = run_case(&inp, "table");
            c.tags.push(format!("pair_{sname}"));
            c.tags.push(format!("op_{oname}"));
            em.emit(c);
        }
    }
}

// ---------------------------------------------------------------------------------------------
// table B: every event kind x trading x strategy behaviour x runner
// ---------------------------------------------------------------------------------------------
fn core_event_kinds(tp: &Topo) -> Vec<Ev> {
    vec![
        Ev::Shutdown,
        Ev::CmdCancels(vec![key(tp.g0, 1), key(tp.g1, 5)]),
        Ev::CmdOpens(vec![spec(tp.g1, 20)]),
        Ev::CmdOpens(vec![spec(tp.g1, 21), spec(tp.bad, 22)]),
        Ev::CmdClose(Some(vec![tp.g0])),
        Ev::CmdCancelOrders(None),
        Ev::CmdCancelOrders(Some(vec![tp.bad])),
        Ev::Trading(true),
        Ev::Trading(false),
        Ev::AccReconn(0),
        Ev::AccReconn(1),
        Ev::MktReconn(1),
        Ev::MktReconn(2),
        Ev::Balance(BalIn { asset: 2, total: 900, free: 800, t: 50 * MS }),
        Ev::Order(spec(tp.g0, 1), open(1, 60 * MS, 10)),
        Ev::Order(spec(tp.bad, 7), open(7, 60 * MS, 0)),
        Ev::CancelResp { key: key(tp.g1, 5), ok: true, t: 60 * MS, err: 0 },
        Ev::Trade { i: tp.g1, side: 0, price: 2000, qty: 10, fee: 2, t: 60 * MS, n: 3 },
        Ev::Snapshot {
            ex: 1,
            balances: vec![BalIn { asset: 4, total: 100, free: 100, t: 60 * MS }],
            orders: vec![(spec(tp.bad, 8), open(8, 61 * MS, 5)), (spec(tp.bad, 9), open(9, 61 * MS, 0)), (spec(tp.far, 10), OSt::Filled)],
        },
        Ev::MktTrade { i: tp.g1, price: 808, t: 60 * MS },
        Ev::MktL1 { i: tp.g0, bid: 39900, ask: 40100, t: 60 * MS, sides: 0 },
    ]
}

/// the remaining constructible item kinds: every error class of an order response, one-sided and
/// empty L1, full books, candles, liquidations, trades closing / flipping the position
fn variant_event_kinds(tp: &Topo) -> Vec<Ev> {
    let mut v = vec![];
    for err in 0..10u8 {
        v.push(Ev::CancelResp { key: key(tp.g1, 5), ok: false, t: 60 * MS, err });
        v.push(Ev::Order(spec(tp.g0, 1), OSt::Failed(err)));
    }
    v.push(Ev::Order(spec(tp.g1, 5), OSt::Cancelled(60 * MS)));
    v.push(Ev::Order(spec(tp.g1, 5), OSt::Expired));
    for sides in 1..4u8 {
        v.push(Ev::MktL1 { i: tp.g1, bid: 79900, ask: 80100, t: 60 * MS, sides });
    }
    v.push(Ev::MktBook { i: tp.g1, t: 60 * MS, snapshot: true });
    v.push(Ev::MktBook { i: tp.g1, t: 60 * MS, snapshot: false });
    v.push(Ev::MktCandle { i: tp.g1, t: 60 * MS });
    v.push(Ev::MktLiq { i: tp.g1, t: 60 * MS });
    // the pre-roll leaves a long position of 10 on g1: reduce, close exactly, flip
    v.push(Ev::Trade { i: tp.g1, side: 1, price: 2100, qty: 4, fee: 1, t: 60 * MS, n: 4 });
    v.push(Ev::Trade { i: tp.g1, side: 1, price: 2100, qty: 10, fee: 1, t: 60 * MS, n: 5 });
    v.push(Ev::Trade { i: tp.g1, side: 1, price: 1900, qty: 25, fee: 1, t: 60 * MS, n: 6 });
    v.push(Ev::Snapshot { ex: 0, balances: vec![], orders: vec![] });
    // zero-quantity fill; over-filled and zero-quantity order reports
    v.push(Ev::Trade { i: tp.g1, side: 1, price: 2100, qty: 0, fee: 0, t: 60 * MS, n: 7 });
    v.push(Ev::Order(spec(tp.g1, 5), open(5, 60 * MS, 55)));
    v.push(Ev::Order(Spec { qty: 0, ..spec(tp.far, 12) }, open(12, 60 * MS, 0)));
    v.push(Ev::Order(Spec { qty: 0, ..spec(tp.far, 13) }, open(13, 60 * MS, 5)));
    // time_received != time_exchange on every market item kind
    for (k, lat) in [0i64, 1, 999_999, 80 * MS, -1, -3 * MS].iter().enumerate() {
        let inner = match k % 5 {
            0 => Ev::MktTrade { i: tp.g1, price: 812, t: 60 * MS },
            1 => Ev::MktL1 { i: tp.g1, bid: 79900, ask: 80100, t: 60 * MS, sides: 0 },
            2 => Ev::MktBook { i: tp.g1, t: 60 * MS, snapshot: true },
            3 => Ev::MktCandle { i: tp.g1, t: 60 * MS },
            _ => Ev::MktLiq { i: tp.g1, t: 60 * MS },
        };
        v.push(Ev::Late(Box::new(inner), *lat));
    }
    v
}

fn table_events(em: &mut Emitter) {
    let tp = topo();
    let pre = vec![
        step(Ev::CmdOpens(vec![spec(tp.g0, 1)])),
        step(Ev::Order(spec(tp.g1, 5), open(5, 10 * MS, 0))),
        step(Ev::Trade { i: tp.g1, side: 0, price: 2000, qty: 10, fee: 1, t: 11 * MS, n: 1 }),
        step(Ev::MktTrade { i: tp.g1, price: 800, t: 12 * MS }),
    ];
    let emit = |n: usize, ev: &Ev, trading0: bool, strat: u8, mode: u8, em: &mut Emitter| {
        let script = match strat {
            0 => ts(),
            1 => TickScript { ao: vec![spec(tp.g0, 30)], ac: vec![key(tp.g1, 5)], co: vec![spec(tp.g1, 31)], ..ts() },
            _ => TickScript { ao: vec![spec(tp.bad, 32), spec(tp.g0, 33)], co: vec![spec(tp.bad, 34)], ..ts() },
        };
        let hooks: &[bool] = if matches!(ev, Ev::Trading(false) | Ev::AccReconn(_) | Ev::MktReconn(_)) && strat == 0 {
            &[false, true]
        } else {
            &[false]
        };
        for hook in hooks {
            let mut inp = input(
                mode,
                pre.clone(),
                vec![
                    (ev.clone(), script.clone()),
                    // equal exchange time as the event before: consecutive ties
                    step(Ev::MktTrade { i: tp.g1, price: 404, t: 60 * MS }),
                    step(Ev::Shutdown),
                    step(Ev::MktTrade { i: tp.g0, price: 408, t: 80 * MS }),
                ],
            );
            inp.trading0 = trading0;
            inp.hook = *hook;
            inp.link = if strat == 2 { 1 + (n as u8 + mode) % 2 } else { 0 };
            inp.s_init = [0, 3, 41][(n + mode as usize) % 3];
            em.emit(run_case(&inp, "table"));
        }
    };
    for (n, ev) in core_event_kinds(&tp).iter().enumerate() {
        for trading0 in [false, true] {
            for strat in 0..3u8 {
                for mode in 0..3u8 {
                    emit(n, ev, trading0, strat, mode, em);
                }
            }
        }
    }
    for (n, ev) in variant_event_kinds(&tp).iter().enumerate() {
        for (trading0, strat) in [(false, 0u8), (true, 1u8)] {
            for mode in 0..3u8 {
                emit(n, ev, trading0, strat, mode, em);
            }
        }
    }
}

// ---------------------------------------------------------------------------------------------
// table B2: positions opened / increased / reduced / closed / flipped on every instrument kind
// (tear sheets and balances change), and the same command three times
// ---------------------------------------------------------------------------------------------
fn table_positions_and_repeats(em: &mut Emitter) {
    let tp = topo();
    for i in 0..N_INSTR {
        for mode in 0..3u8 {
            let mut n = 0u64;
            let mut t = 5 * MS;
            let mut trade = |side: u8, price: i64, qty: i64| {
                n += 1;
                t += 700_000; // 0.7 ms apart: two trades share a millisecond
                step(Ev::Trade { i, side, price, qty, fee: 2, t, n })
            };
            let feed = vec![
                step(Ev::MktTrade { i, price: 4000, t: 1 * MS }),
                trade(0, 1000, 10), // open long
                trade(0, 1010, 5),  // increase
                step(Ev::MktL1 { i, bid: 101000, ask: 101200, t: 6 * MS, sides: 0 }),
                trade(1, 1020, 6),  // reduce
                trade(1, 1030, 9),  // close exactly -> tear sheet
                trade(1, 1030, 7),  // open short
                trade(0, 990, 20),  // flip -> tear sheet + new long
                step(Ev::Balance(BalIn { asset: i, total: 9000, free: 8000, t: 9 * MS })),
                trade(1, 1005, 13), // close
                step(Ev::Shutdown),
            ];
            let mut inp = input(mode, vec![], feed);
            inp.s_init = 2;
            em.emit(run_case(&inp, "table"));
        }
    }
    // the same command three times in a row (the second and third find the requests in flight)
    let s = spec(tp.g0, 1);
    let cmds: Vec<(Ev, TickScript)> = vec![
        step(Ev::CmdCancelOrders(None)),
        step(Ev::CmdCancels(vec![key(tp.g0, 1), key(tp.g0, 1)])), // the same key twice in one list
        step(Ev::CmdOpens(vec![spec(tp.g1, 40)])),
        (Ev::CmdClose(None), TickScript { co: vec![spec(tp.g1, 41)], cc: vec![key(tp.g0, 1)], ..ts() }),
        step(Ev::CmdCancelOrders(Some(vec![tp.g0, tp.g0]))), // the same instrument twice in a filter
    ];
    for (c, cmd) in cmds.iter().enumerate() {
        for mode in 0..3u8 {
            for trading0 in [false, true] {
                let mut inp = input(
                    mode,
                    vec![step(Ev::Order(s.clone(), open(1, 5 * MS, 10))), step(Ev::CmdOpens(vec![spec(tp.g1, 3)]))],
                    vec![
                        cmd.clone(),
                        cmd.clone(),
                        cmd.clone(),
                        step(Ev::Order(s.clone(), open(1, 5 * MS, 20))),
                        step(Ev::CancelResp { key: key(tp.g0, 1), ok: false, t: 6 * MS, err: c as u8 }),
                        step(Ev::Shutdown),
                    ],
                );
                inp.trading0 = trading0;
                em.emit(run_case(&inp, "table"));
            }
        }
    }
}

// ---------------------------------------------------------------------------------------------
// table C: one tick deleted / duplicated / tripled / swapped / replayed, at every position
// ---------------------------------------------------------------------------------------------
fn table_perturb(em: &mut Emitter) {
    let s = spec(0, 1);
    let base: Vec<(Ev, TickScript)> = vec![
        step(Ev::MktTrade { i: 0, price: 400, t: 1 * MS }),
        step(Ev::CmdOpens(vec![s.clone()])),
        step(Ev::Order(s.clone(), open(1, 5 * MS, 10))),
        step(Ev::Trade { i: 0, side: 0, price: 1000, qty: 10, fee: 1, t: 6 * MS, n: 1 }),
        step(Ev::Trading(true)),
        step(Ev::Balance(BalIn { asset: 1, total: 77, free: 66, t: 7 * MS })),
        step(Ev::Shutdown),
    ];
    // process_with_audit on a stream without a terminal record: run() reads the replayed part too
    let open_ended: Vec<(Ev, TickScript)> = base[..base.len() - 1].to_vec();
    for i in 0..open_ended.len() {
        for p in [
            Perturb::Delete(i),
            Perturb::Dup(i),
            Perturb::Triple(i),
            Perturb::Replay(i),
            Perturb::Window(i, 2),
            Perturb::Window(i, 3),
            Perturb::Window(0, i + 1),
        ] {
            let mut inp = input(0, vec![], open_ended.clone());
            inp.s_init = 4;
            inp.perturb = p;
            em.emit(run_case(&inp, "table"));
        }
    }
    for mode in 0..3u8 {
        for i in 0..=base.len() {
            for p in [
                Perturb::Delete(i),
                Perturb::Dup(i),
                Perturb::Triple(i),
                Perturb::Swap(i),
                Perturb::Replay(i),
                Perturb::Window(i, 2),
                Perturb::Window(i, 4),
            ] {
                let mut inp = input(mode, vec![], base.clone());
                inp.s_init = 9;
                inp.perturb = p;
                em.emit(run_case(&inp, "table"));
            }
        }
    }
}

// ---------------------------------------------------------------------------------------------
// random histories
// ---------------------------------------------------------------------------------------------
struct Sh {
    rng: Rng,
    next_c: u64,
    next_n: u64,
    t: i64,
    specs: Vec<Spec>,
    net: [i64; N_INSTR], // signed quantity of the trades sent so far, per instrument
    issuing: bool,
    adversarial: bool,
}

impl Sh {
    fn new(rng: Rng, issuing: bool, adversarial: bool) -> Sh {
        Sh { rng, next_c: 1, next_n: 1, t: 1_000_000 * MS, specs: vec![], net: [0; N_INSTR], issuing, adversarial }
    }
    fn instr(&mut self) -> usize {
        self.rng.below(N_INSTR as u64) as usize
    }
    fn fresh(&mut self, strat: u8) -> Spec {
        let c = self.next_c;
        self.next_c += 1;
        let s = Spec {
            i: self.instr(),
            c,
            side: self.rng.below(2) as u8,
            price: self.rng.range(900, 1100),
            qty: *self.rng.pick(&[10, 25, 50, 100, 10, 25, 50, 100, 0]),
            kind: self.rng.below(2) as u8,
            tif: self.rng.below(4) as u8,
            strat,
        };
        self.specs.push(s.clone());
        s
    }
    fn open_spec(&mut self) -> Spec {
        if self.adversarial && !self.specs.is_empty() && self.rng.chance(1, 4) {
            // duplicate client order id (outside the input requirement)
            let mut s = self.rng.pick(&self.specs).clone();
            if self.rng.chance(1, 2) {
                s.price += 1;
            }
            s
        } else {
            self.fresh(0)
        }
    }
    fn known_key(&mut self) -> Key {
        if self.specs.is_empty() || self.rng.chance(1, 10) {
            key(self.instr(), 900 + self.rng.below(3))
        } else {
            self.rng.pick(&self.specs).key()
        }
    }
    /// exchange timestamps (ns): exact ties are the most frequent single outcome, then gaps of
    /// 1 ns .. 999 us (inside one millisecond), millisecond boundaries, ordinary gaps, stale values
    /// by 1 ns .. 100 ms, and now and then the far past / far future
    fn time(&mut self) -> i64 {
        match self.rng.below(40) {
            0..=10 => self.t,
            11..=14 => {
                self.t += 1;
                self.t
            }
            15..=17 => {
                self.t += self.rng.range(2, 999);
                self.t
            }
            18..=20 => {
                self.t += self.rng.range(1_000, 999_999);
                self.t
            }
            21 => {
                self.t = (self.t / MS + 1) * MS; // exactly on the next millisecond
                self.t
            }
            22 => {
                self.t = (self.t / MS + 1) * MS - 1; // 1 ns before it
                self.t
            }
            23..=29 => {
                self.t += self.rng.range(1, 50) * MS + self.rng.range(0, 999_999);
                self.t
            }
            30..=31 => self.t - 1,
            32..=33 => self.t - self.rng.range(2, 999_999),
            34..=36 => self.t - self.rng.range(1, 100) * MS,
            37 => self.t - 1_000 * MS, // one second back
            38 => -4_000_000_000 * MS, // far past
            _ => {
                if self.rng.chance(1, 4) {
                    2_000_000_000 * MS // far future (not remembered)
                } else {
                    self.t
                }
            }
        }
    }
    fn order_state(&mut self, s: &Spec) -> OSt {
        let r = self.rng.below(100);
        let meta = |sh: &mut Sh| {
            let filled = match sh.rng.below(11) {
                0..=2 => 0,
                3..=5 => s.qty / 5,
                6..=8 => s.qty / 2,
                9 => s.qty,
                _ => {
                    if sh.rng.chance(1, 2) { s.qty } else { s.qty + 5 } // over-filled: negative remaining
                }
            };
            MetaIn { oid: 1000 + s.c, t: sh.time(), filled }
        };
        if self.adversarial && r < 8 {
            return if r < 3 {
                OSt::Oif
            } else if r < 5 {
                OSt::Cif(None)
            } else {
                OSt::Cif(Some(meta(self)))
            };
        }
        match r {
            0..=69 => OSt::Open(meta(self)),
            70..=79 => OSt::Cancelled(self.time()),
            80..=89 => OSt::Filled,
            90..=94 => OSt::Expired,
            _ => OSt::Failed(self.rng.below(10) as u8),
        }
    }
    fn report(&mut self) -> (Spec, OSt) {
        let mut s = if !self.specs.is_empty() && self.rng.chance(17, 20) {
            self.rng.pick(&self.specs).clone()
        } else {
            self.fresh(1)
        };
        let st = self.order_state(&s);
        if self.adversarial && self.rng.chance(1, 6) {
            // a report that does not echo the request (outside the input requirement)
            if self.rng.chance(1, 2) {
                s.qty += 10;
            } else {
                s.price += 5;
            }
        }
        (s, st)
    }
    fn balance(&mut self) -> BalIn {
        let total = self.rng.range(0, 100_000);
        BalIn { asset: self.rng.below(12) as usize, total, free: total - self.rng.range(0, total.max(1)), t: self.time() }
    }
    fn filter(&mut self) -> Option<Vec<usize>> {
        match self.rng.below(5) {
            0 | 1 => None,
            2 => Some(vec![self.instr()]),
            3 => Some(vec![self.instr(), self.instr()]),
            _ => Some(vec![0, 2, 4]),
        }
    }
    /// a fill: mostly sized so that positions get reduced, closed exactly and flipped
    fn trade(&mut self) -> Ev {
        let i = self.instr();
        let net = self.net[i];
        let (side, qty) = if net != 0 && self.rng.chance(3, 5) {
            let closing_side = if net > 0 { 1 } else { 0 };
            let q = match self.rng.below(4) {
                0 => net.abs(),                      // close exactly
                1 => (net.abs() / 2).max(1),         // reduce
                2 => net.abs() + *self.rng.pick(&[5, 10]), // flip
                _ => *self.rng.pick(&[5, 10, 20]),
            };
            (closing_side, q)
        } else {
            (self.rng.below(2) as u8, *self.rng.pick(&[5, 10, 10, 20, 5, 10, 10, 20, 0]))
        };
        self.net[i] += if side == 0 { qty } else { -qty };
        self.next_n += 1;
        Ev::Trade { i, side, price: self.rng.range(900, 1100), qty, fee: self.rng.range(0, 5), t: self.time(), n: self.next_n }
    }
    fn script(&mut self, close: bool) -> TickScript {
        let mut s = ts();
        if self.issuing && self.rng.chance(7, 20) {
            for _ in 0..self.rng.below(3) {
                let o = self.open_spec();
                s.ao.push(o);
            }
            for _ in 0..self.rng.below(3) {
                let k = self.known_key();
                if !s.ac.contains(&k) {
                    s.ac.push(k);
                }
            }
        }
        if close {
            for _ in 0..self.rng.below(3) {
                let o = self.open_spec();
                s.co.push(o);
            }
            if self.rng.chance(1, 3) {
                s.cc.push(self.known_key());
            }
        }
        s
    }
    fn event(&mut self) -> (Ev, TickScript) {
        let w = self.rng.below(112);
        let ev = match w {
            0..=12 => Ev::MktTrade { i: self.instr(), price: self.rng.range(3600, 4400), t: self.time() },
            13..=20 => {
                let bid = self.rng.range(90_000, 110_000);
                let sides = *self.rng.pick(&[0, 0, 0, 0, 1, 2, 3]);
                Ev::MktL1 { i: self.instr(), bid, ask: bid + self.rng.range(1, 500), t: self.time(), sides }
            }
            21..=26 => Ev::Balance(self.balance()),
            27..=46 => {
                let (s, st) = self.report();
                Ev::Order(s, st)
            }
            47..=54 => Ev::CancelResp { key: self.known_key(), ok: self.rng.chance(1, 2), t: self.time(), err: self.rng.below(10) as u8 },
            55..=66 => self.trade(),
            67..=69 => {
                let nb = self.rng.below(3);
                let no = self.rng.below(5);
                let mut orders: Vec<(Spec, OSt)> = (0..no).map(|_| self.report()).collect();
                orders.sort_by_key(|(s, _)| s.i); // orders of one instrument end up nested together
                Ev::Snapshot { ex: self.rng.below(3) as usize, balances: (0..nb).map(|_| self.balance()).collect(), orders }
            }
            70..=77 => Ev::Trading(self.rng.chance(3, 5)),
            78..=80 => Ev::AccReconn(self.rng.below(3) as usize),
            81..=83 => Ev::MktReconn(self.rng.below(3) as usize),
            84..=87 => {
                let n = 1 + self.rng.below(2);
                let mut ks: Vec<Key> = vec![];
                for _ in 0..n {
                    let k = self.known_key();
                    if !ks.contains(&k) {
                        ks.push(k);
                    }
                }
                Ev::CmdCancels(ks)
            }
            88..=93 => {
                let n = 1 + self.rng.below(2);
                Ev::CmdOpens((0..n).map(|_| self.open_spec()).collect())
            }
            94..=97 => Ev::CmdClose(self.filter()),
            98..=101 => Ev::CmdCancelOrders(self.filter()),
            102 => Ev::Shutdown,
            103..=105 => Ev::MktBook { i: self.instr(), t: self.time(), snapshot: self.rng.chance(1, 2) },
            106..=107 => Ev::MktCandle { i: self.instr(), t: self.time() },
            108..=109 => Ev::MktLiq { i: self.instr(), t: self.time() },
            _ => Ev::MktTrade { i: 0, price: self.rng.range(3600, 4400), t: self.time() },
        };
        let is_market = matches!(ev, Ev::MktTrade { .. } | Ev::MktL1 { .. } | Ev::MktBook { .. } | Ev::MktCandle { .. } | Ev::MktLiq { .. });
        let ev = if is_market && self.rng.chance(4, 5) {
            // time_received = time_exchange + latency: none, inside a millisecond, larger than the
            // gaps between events, or negative (received "before" the exchange time)
            let lat = match self.rng.below(10) {
                0..=1 => 0,
                2..=4 => self.rng.range(1, 999_999),
                5..=7 => self.rng.range(50, 500) * MS,
                8 => -self.rng.range(1, 999_999),
                _ => -self.rng.range(1, 5) * MS,
            };
            Ev::Late(Box::new(ev), lat)
        } else {
            ev
        };
        let close = matches!(ev, Ev::CmdClose(_));
        let sc = self.script(close);
        (ev, sc)
    }
}

fn random_case(rng: &mut Rng, max_len: u64, adversarial: bool) -> Input {
    let issuing = rng.chance(2, 3);
    let mut sh = Sh::new(rng.fork(), issuing, adversarial);
    let n_pre = rng.below(7);
    let n_feed = 1 + rng.below(max_len);
    let pre: Vec<(Ev, TickScript)> = (0..n_pre)
        .map(|_| loop {
            let e = sh.event();
            if e.0 != Ev::Shutdown {
                break e;
            }
        })
        .collect();
    let mut feed: Vec<(Ev, TickScript)> = vec![];
    while (feed.len() as u64) < n_feed {
        let e = sh.event();
        // now and then the same event (command, report, market item) three times in a row
        if e.0 != Ev::Shutdown && rng.chance(1, 25) {
            feed.push(e.clone());
            feed.push(e.clone());
        }
        feed.push(e);
    }
    if rng.chance(3, 5) {
        feed.push(step(Ev::Shutdown));
    }
    let n = feed.len() + 1;
    let perturb = if rng.chance(1, 4) {
        let i = rng.below(n as u64 + 1) as usize;
        match rng.below(7) {
            4 | 5 => Perturb::Window(i, 2 + rng.below(4) as usize),
            6 => Perturb::Triple(i),
            0 => Perturb::Delete(i),
            1 => Perturb::Dup(i),
            2 => Perturb::Swap(i),
            _ => Perturb::Replay(i),
        }
    } else {
        Perturb::None
    };
    Input {
        mode: rng.below(3) as u8,
        s_init: *rng.pick(&[0, 0, 1, 7, 1000, 4_294_967_295, 4_294_967_296]),
        trading0: rng.chance(1, 2),
        link: *rng.pick(&[0, 0, 0, 1, 2]),
        hook: rng.chance(3, 10),
        pre,
        feed,
        perturb,
    }
}

fn handcrafted_adversarial(em: &mut Emitter) {
    let tp = topo();
    let s = spec(tp.g0, 1);
    for mode in 0..3u8 {
        // empty feed; shutdown only; events after shutdown; huge sequence
        em.emit(run_case(&input(mode, vec![], vec![]), "adversarial"));
        em.emit(run_case(&input(mode, vec![], vec![step(Ev::Shutdown)]), "adversarial"));
        let mut i3 = input(
            mode,
            vec![step(Ev::CmdOpens(vec![s.clone()]))],
            vec![step(Ev::Shutdown), step(Ev::Order(s.clone(), open(1, 5 * MS, 0))), step(Ev::Shutdown)],
        );
        i3.s_init = 1u64 << 62;
        em.emit(run_case(&i3, "adversarial"));
        // fatal on the first event: command to the broken (middle) link, trading disabled / enabled
        for link in 1..3u8 {
            for trading0 in [false, true] {
                let mut i4 = input(
                    mode,
                    vec![],
                    vec![
                        step(Ev::CmdOpens(vec![spec(tp.bad, 4), spec(tp.g0, 5), spec(tp.far, 6)])),
                        step(Ev::MktTrade { i: tp.g0, price: 400, t: 3 * MS }),
                    ],
                );
                i4.link = link;
                i4.trading0 = trading0;
                em.emit(run_case(&i4, "adversarial"));
                // fatal inside algo generation: the sent part is still recorded in flight
                let mut i5 = input(
                    mode,
                    vec![],
                    vec![
                        (Ev::MktTrade { i: tp.g0, price: 400, t: 3 * MS }, TickScript { ao: vec![spec(tp.g0, 6), spec(tp.bad, 7), spec(tp.far, 8)], ..ts() }),
                        step(Ev::MktTrade { i: tp.g0, price: 404, t: 4 * MS }),
                    ],
                );
                i5.link = link;
                i5.trading0 = trading0;
                em.emit(run_case(&i5, "adversarial"));
            }
        }
        // duplicate client id: the engine overwrites a confirmed order by OpenInFlight
        em.emit(run_case(
            &input(
                mode,
                vec![],
                vec![
                    step(Ev::Order(s.clone(), open(1, 5 * MS, 10))),
                    step(Ev::CmdOpens(vec![s.clone()])),
                    step(Ev::Order(s.clone(), open(1, 6 * MS, 20))),
                ],
            ),
            "adversarial",
        ));
        // a report that does not echo the request
        let mut s2 = s.clone();
        s2.qty = 70;
        em.emit(run_case(
            &input(mode, vec![], vec![step(Ev::CmdOpens(vec![s.clone()])), step(Ev::Order(s2, open(1, 6 * MS, 20)))]),
            "adversarial",
        ));
        // in-flight states inside exchange reports
        em.emit(run_case(
            &input(
                mode,
                vec![],
                vec![
                    step(Ev::Order(s.clone(), OSt::Oif)),
                    step(Ev::Order(spec(tp.g1, 2), OSt::Cif(Some(MetaIn { oid: 2, t: 9 * MS, filled: 0 })))),
                    step(Ev::Order(s.clone(), OSt::Cif(None))),
                    step(Ev::Order(s.clone(), open(1, 12 * MS, 20))),
                ],
            ),
            "adversarial",
        ));
        // CancelInFlight vs Open reports at EQUAL, +-1 ns and same-millisecond exchange times, with the
        // cancel sent by command, by the strategy and by a hook
        for (k, dt) in [0i64, 1, -1, 999_999, -999_999, MS, -MS].iter().enumerate() {
            let mut i6 = input(
                mode,
                vec![step(Ev::Order(s.clone(), open(1, 50 * MS, 5)))],
                vec![
                    if k % 3 == 0 {
                        step(Ev::CmdCancels(vec![s.key()]))
                    } else if k % 3 == 1 {
                        (Ev::MktTrade { i: tp.g0, price: 400, t: 50 * MS }, TickScript { ac: vec![s.key()], ..ts() })
                    } else {
                        step(Ev::AccReconn(0))
                    },
                    step(Ev::Order(s.clone(), open(1, 50 * MS + dt, 15))),
                    step(Ev::Order(s.clone(), open(1, 50 * MS + dt, 25))),
                    step(Ev::CancelResp { key: s.key(), ok: false, t: 50 * MS + dt, err: 0 }),
                    step(Ev::Order(s.clone(), open(1, 50 * MS + dt, 35))),
                ],
            );
            i6.trading0 = true;
            i6.hook = true;
            em.emit(run_case(&i6, "adversarial"));
        }
    }
}

pub fn generate(seed: u64, tier: &str, em: &mut Emitter) {
    let thorough = tier == "thorough";
    let mut rng = Rng::new(seed);
    table_orders(em);
    table_events(em);
    table_positions_and_repeats(em);
    table_perturb(em);
    handcrafted_adversarial(em);
    let (n_random, n_adv, max_len) = if thorough { (2500, 600, 80) } else { (260, 80, 28) };
    for _ in 0..n_random {
        let inp = random_case(&mut rng, max_len, false);
        em.emit(run_case(&inp, "random"));
    }
    for _ in 0..n_adv {
        let inp = random_case(&mut rng, max_len, true);
        em.emit(run_case(&inp, "adversarial"));
    }
}
